#!/usr/bin/env python3
"""Regenerate seeded/SUMMARY.md from seeded/*/meta.json."""
import glob, json, os
rows = []
for f in sorted(glob.glob(os.path.join(os.path.dirname(__file__), "..", "seeded", "*", "meta.json"))):
    m = json.load(open(f))
    v = m.get("coordinator_verification", {})
    ck = v.get("check", {})
    exits = "/".join(str(c["exit"]) for c in ck.values()) if ck else "-"
    how = ("failing input" if v.get("detected_with_failing_input") else ("correspondence/proof only" if v.get("detected") else "MISSED")) if ck else v.get("apply", "not applied")
    rows.append((os.path.basename(os.path.dirname(f)), m.get("property"), m.get("title", "")[:90].replace("|", "/"),
                 m.get("needs_to_manifest", "")[:140].replace("|", "/").replace("\n", " "),
                 f"{v.get('demo_clean_exit')}/{v.get('demo_patched_exit')}", exits, how))
out = ["# Seeded changes and what the checks report on them", "",
       "demo = exit code of the demonstration on the clean tree / with the patch; check = exit codes of `./check Cxx` (quick, seeds 0 and 1) with the patch applied to /repo (results of the LAST evaluation; see meta.json for details).", "",
       "| id | property | change | needs | demo | check | detected by |", "|---|---|---|---|---|---|---|"]
for r in rows:
    out.append("| " + " | ".join(str(x) for x in r) + " |")
open(os.path.join(os.path.dirname(__file__), "..", "seeded", "SUMMARY.md"), "w").write("\n".join(out) + "\n")
print(len(rows), "rows;", sum(1 for r in rows if r[-1] == "MISSED"), "missed")
