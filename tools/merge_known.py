#!/usr/bin/env python3
"""tools/merge_known.py <fragment.json> [old_sha=new_sha ...] — merge a fragment of findings (written by a sub-agent in
its private copy) into known_findings.json: entries with an existing id REPLACE it, commit shas are remapped (cherry-picks)."""
import json, sys
frag = json.load(open(sys.argv[1]))
remove = [r["id"] if isinstance(r, dict) else r for r in (frag.get("remove", []) if isinstance(frag, dict) else [])]
frag = frag["findings"] if isinstance(frag, dict) else frag
remap = dict(a.split("=") for a in sys.argv[2:])
p = __import__("os").path.join(__import__("os").path.dirname(__file__), "..", "known_findings.json")
d = json.load(open(p))
for r in remove:            # entries the response withdraws (false alarms: the oracle no longer reports them)
    n = len(d["findings"])
    d["findings"] = [x for x in d["findings"] if x["id"] != r]
    print("removed" if len(d["findings"]) < n else "not-present", r)
idx = {x["id"]: i for i, x in enumerate(d["findings"])}
for x in frag:
    for o, n in remap.items():
        if x.get("commit") == o:
            x["commit"] = n
        x["what"] = x["what"].replace(o, n)
    if x["id"] in idx:
        d["findings"][idx[x["id"]]] = x
        print("replaced", x["id"], x["status"])
    else:
        d["findings"].append(x)
        print("added", x["id"], x["status"])
json.dump(d, open(p, "w"), indent=1)
