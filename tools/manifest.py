#!/venv/bin/python
"""Regenerate MANIFEST.json from the property modules' metadata. Run: tools/manifest.py"""
import importlib, json, os, sys
HERE = os.path.dirname(os.path.dirname(os.path.abspath(__file__)))
sys.path.insert(0, os.path.join(HERE, "harness"))
sys.path.insert(0, "/repo/src")
props = [json.loads(l) for l in open(os.path.join(HERE, "properties.jsonl"))]
checks, na = [], []
for p in props:
    pid = p["id"]
    path = os.path.join(HERE, "harness", "ekw", "props", pid.lower() + ".py")
    accepted = open(os.path.join(HERE, "tools", "accepted.txt")).read().split()
    if pid not in accepted:
        na.append({"property_id": pid, "reason": "check under construction in this round (not yet accepted by the coordinator: see DESIGN.md section 5 for the planned model and theorems)"})
        continue
    if not os.path.exists(path):
        na.append({"property_id": pid, "reason": "check not built yet (work in progress; DESIGN.md section 5 has the planned model and theorems)"})
        continue
    src = open(path).read()
    ns = {}
    # metadata is plain module-level string constants: evaluate only those
    import ast
    for node in ast.parse(src).body:
        if isinstance(node, ast.Assign) and len(node.targets) == 1 and isinstance(node.targets[0], ast.Name):
            try:
                ns[node.targets[0].id] = ast.literal_eval(node.value)
            except Exception:
                pass
    if ns.get("CLAIMED") is False:
        na.append({"property_id": pid, "reason": ns.get("NOT_CLAIMED_REASON", "not claimed")})
        continue
    checks.append({
        "property_id": pid,
        "quick_cmd": f"./check {pid} --tier quick",
        "thorough_cmd": f"./check {pid} --tier thorough",
        "evidence_file": f"evidence/{pid}.json",
        "replay_cmd_template": f"./check replay {pid} {{path}}",
        "engine": "ekw-lean",
        "level_claimed": {"category": "proof", "text": ns.get("LEVEL_TEXT", ""), "design_ref": "DESIGN.md section 5 " + pid},
        "level_note": ns.get("LEVEL_NOTE", ""),
        "technique": ns.get("TECHNIQUE", "Lean 4 theorems over an executable model + differential correspondence check against the real code"),
    })
m = {
    "version": 1,
    "setup_cmd": "./setup.sh",
    "hooks": {"guard": "EKW_VERIF", "enable": "no source hooks: the harness replaces module globals of the real code in-process (./check exports EKW_VERIF=1 but nothing in /repo reads it)",
              "baseline_off_cmd": "cd /repo && /venv/bin/python -m pytest -ra -q -p no:cacheprovider --timeout=900 --continue-on-collection-errors",
              "source_commits": [], "add_only": True},
    "engines": [{"name": "ekw-lean", "path": "lean/", "serves_properties": [c["property_id"] for c in checks],
                 "kind_free_text": "Lean 4 models and property theorems (lean/EkwVerif), Python harness (harness/ekw): translators, correspondence check through a JSON line protocol, property oracles, violation search"}],
    "checks": checks,
    "notes": "Repairs of genuine defects are 'fix:' commits in /repo, listed in known_findings.json with status=fixed; defects recorded rather than repaired have status=known.",
    "not_applicable": na,
}
json.dump(m, open(os.path.join(HERE, "MANIFEST.json"), "w"), indent=1)
print(len(checks), "checks;", len(na), "not claimed")
