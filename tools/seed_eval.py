#!/venv/bin/python
"""Evaluate seeded changes: tools/seed_eval.py Cxx [k ...]
For /tmp/seed_Cxx_out/m<k>.*: verify the change (demo passes on the clean tree, fails with the patch, baseline still 133),
run ./check Cxx on /repo with the patch applied, undo it, and store everything under /verif/seeded/Cxx_m<k>/."""
import json, os, shutil, subprocess, sys, time
prop = sys.argv[1]
ks = [int(x) for x in sys.argv[2:]] or [1, 2, 3]
ROUND = os.environ.get("SEED_ROUND", "1")          # SEED_ROUND=2: second round of seeders (/tmp/seed2_Cxx_out -> seeded/Cxx_r2m<k>)
OUT = f"/tmp/seed_{prop}_out" if ROUND == "1" else f"/tmp/seed{ROUND}_{prop}_out"
REPO = "/root/work/seed_repo"     # a clone of /repo: other work in this sandbox keeps using /repo undisturbed
if not os.path.isdir(REPO):
    subprocess.run(["git", "clone", "-q", "/repo", REPO], check=True)
LEAN = "/root/work/seed_lean"      # own copy of the Lean project (translators rewrite Gen/*.lean)
subprocess.run(f"mkdir -p {LEAN} && rsync -a --delete /verif/lean/ {LEAN}/", shell=True, check=True)
subprocess.run(f"git -C {REPO} fetch -q /repo HEAD && git -C {REPO} reset -q --hard FETCH_HEAD && git -C {REPO} clean -fdq", shell=True, check=True)

def sh(cmd, timeout=900, env=None, cwd=None):
    e = dict(os.environ); e.update(env or {})
    try:
        p = subprocess.run(cmd, shell=True, capture_output=True, text=True, timeout=timeout, env=e, cwd=cwd)
        return p.returncode, (p.stdout + p.stderr)
    except subprocess.TimeoutExpired:
        return 124, "TIMEOUT"

def clean():
    rc, out = sh(f"git -C {REPO} status --porcelain")
    return out.strip() == ""

assert clean(), "/repo not clean"
for k in ks:
    base = f"{OUT}/m{k}"
    if not os.path.exists(base + ".patch.diff"):
        print(prop, k, "missing"); continue
    res = {"property": prop, "k": k}
    dst = f"/verif/seeded/{prop}_m{k}" if ROUND == "1" else f"/verif/seeded/{prop}_r{ROUND}m{k}"
    os.makedirs(dst, exist_ok=True)
    shutil.copy(base + ".patch.diff", dst + "/patch.diff")
    shutil.copy(base + ".demo.py", dst + "/demo.py")
    meta = json.load(open(base + ".meta.json"))
    # demo on the clean tree
    rc0, o0 = sh(f"PYTHONPATH={REPO}/src /venv/bin/python {dst}/demo.py", timeout=300)
    res["demo_clean_exit"] = rc0
    rc, out = sh(f"git -C {REPO} apply --check {dst}/patch.diff")
    if rc != 0:
        res["apply"] = "FAILED: " + out[-300:]
        meta["coordinator_verification"] = res
        json.dump(meta, open(dst + "/meta.json", "w"), indent=1)
        print(json.dumps(res)); continue
    sh(f"git -C {REPO} apply {dst}/patch.diff")
    try:
        rc1, o1 = sh(f"PYTHONPATH={REPO}/src /venv/bin/python {dst}/demo.py", timeout=300)
        res["demo_patched_exit"] = rc1
        rcb, ob = sh(f"cd {REPO} && PYTHONPATH={REPO}/src /venv/bin/python -m pytest -q -p no:cacheprovider --timeout=900 tests/earthkit_workflows --ignore=tests/earthkit_workflows/backends/test_earthkit.py 2>&1 | tail -1", timeout=900)
        res["baseline_patched"] = ob.strip()[-120:]
        checks = {}
        for seed in (0, 1):
            t = time.time()
            rcc, oc = sh(f"cd /verif && EKW_REPLAY_DIR=/root/work/seed_replays EKW_EVIDENCE_DIR=/root/work/seed_evidence EKW_LEAN_DIR={LEAN} EKW_REPO={REPO} VERIF_SEED={seed} ./check {prop} --tier quick", timeout=1500)
            lines = [l for l in oc.splitlines() if l.startswith("VIOLATION") or l.startswith("[" + prop)]
            checks[str(seed)] = {"exit": rcc, "lines": [l[:300] for l in lines][:6], "wall_s": round(time.time() - t, 1)}
            # keep the first replay for the record
            for l in lines:
                if l.startswith("VIOLATION") and "replay=" in l:
                    rp = l.split("replay=")[1].split()[0]
                    if os.path.exists(rp) and not os.path.exists(dst + "/replay_example.json"):
                        shutil.copy(rp, dst + "/replay_example.json")
        res["check"] = checks
        res["detected"] = all(c["exit"] == 1 for c in checks.values())
        res["detected_with_failing_input"] = any(any(l.startswith("VIOLATION") and "no-failing-input-found" not in l for l in c["lines"]) for c in checks.values())
    finally:
        sh(f"git -C {REPO} checkout -- . && git -C {REPO} clean -fdq")
    assert clean()
    meta["coordinator_verification"] = res
    json.dump(meta, open(dst + "/meta.json", "w"), indent=1)
    print(json.dumps({k2: v for k2, v in res.items() if k2 != "check"}), {s: (c["exit"], c["wall_s"]) for s, c in res["check"].items()})
