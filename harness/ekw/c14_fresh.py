"""C14 helper: build fluent programs in a FRESH interpreter.

"Building the same program twice gives the same names" must not depend on what the process built
before. The check process itself has built hundreds of programs by the time its oracle runs, so state
that survives between builds (a module-level cache, a mutable default argument, a counter) may already
be saturated there. This module is run as `python -m ekw.c14_fresh`: it reads one program per line,
builds each program twice on the REAL code and prints the node names of both builds. The first program
of a run meets the pristine module state.

Nothing here depends on the Lean model.
"""
import json
import os
import subprocess
import sys
import tempfile


def names_of(action):
    from earthkit.workflows.graph import Output
    data = action.nodes.data
    return [(x.parent.name + "." + x.name) if isinstance(x, Output) else x.name for x in (data.flat if data.shape else [data.item()])]


def names_of_env(env):
    out = []
    for r in env:
        if isinstance(r, tuple):
            out.append({"skip": True} if r[0] == "skip" else {"err": r[1]})
        else:
            try:
                out.append(names_of(r))
            except Exception as e:
                out.append({"err": "names:" + type(e).__name__})
    return out


def build(prog):
    from ekw import c13_fluent as F
    return names_of_env(F.run_real(prog))


def main():
    import logging
    import warnings
    warnings.filterwarnings("ignore")
    logging.disable(logging.CRITICAL)
    for line in sys.stdin:
        line = line.strip()
        if not line:
            continue
        prog = json.loads(line)
        try:
            b1 = build(prog)
            b2 = build(prog)
            out = {"b1": b1, "b2": b2}
        except Exception as e:     # never a traceback: a result to compare
            out = {"crash": f"{type(e).__name__}: {str(e)[:120]}"}
        sys.stdout.write(json.dumps(out) + "\n")
        sys.stdout.flush()


# ----------------------------------------------------------------------------- parent side

def spawn(progs):
    """start a fresh interpreter (same PYTHONPATH, a DIFFERENT string-hash seed: names must not depend on
    set / hash order either) on the given programs"""
    fin = tempfile.TemporaryFile(mode="w+")
    for p in progs:
        fin.write(json.dumps({k: v for k, v in p.items() if not k.startswith("_")}) + "\n")
    fin.flush()
    fin.seek(0)
    fout = tempfile.TemporaryFile(mode="w+")
    env = dict(os.environ)
    try:
        env["PYTHONHASHSEED"] = str((int(env.get("PYTHONHASHSEED", "0")) + 1) % 4294967295)
    except ValueError:
        env["PYTHONHASHSEED"] = "1"
    for v in ("OMP_NUM_THREADS", "OPENBLAS_NUM_THREADS", "MKL_NUM_THREADS"):
        env.setdefault(v, "1")      # object arrays need no BLAS threads; idle thread pools cost seconds on a busy machine
    proc = subprocess.Popen([sys.executable, "-m", "ekw.c14_fresh"], stdin=fin, stdout=fout, stderr=subprocess.DEVNULL, env=env)
    return {"proc": proc, "fin": fin, "fout": fout, "n": len(progs)}


def collect(handle, timeout=240):
    """list of {"b1":…, "b2":…} per program, or None when the interpreter did not answer"""
    proc = handle["proc"]
    try:
        proc.wait(timeout=timeout)
    except subprocess.TimeoutExpired:
        proc.kill()
        proc.wait()
        return None
    finally:
        handle["fin"].close()
    handle["fout"].seek(0)
    lines = [l for l in handle["fout"].read().splitlines() if l.strip()]
    handle["fout"].close()
    try:
        out = [json.loads(l) for l in lines]
    except ValueError:
        return None
    if len(out) != handle["n"]:
        return None
    return out


def first_difference(*builds):
    """index of the first statement whose names differ between any two of the builds, or None"""
    n = min(len(b) for b in builds)
    for k in range(n):
        if any(b[k] != builds[0][k] for b in builds[1:]):
            return k
    if any(len(b) != n for b in builds):
        return n
    return None


if __name__ == "__main__":
    main()
