"""C01 helper: end-to-end runs of random small jobs with REAL callables on a REAL local cluster.

The SimBridge part of the C01 check (ctrl_check / sim_ctrl) drives the real controller against abstract
executors with uninterpreted task values; what lies between the controller and the execution of a task --
executor/runner/runner.py (argument binding, output publication), runner/memory.py, runner/entrypoint.py,
executor/executor.py, data_server.py, the zmq/shm transport -- is exercised HERE:

    spec (JSON, derived from one random.Random(seed))
      ├─ make_job(spec): callables with real signatures -> TaskBuilder.from_callable / JobBuilder  -> JobInstance
      ├─ seq_eval(job):  ~20-line sequential interpreter of the JobInstance in the check process    -> reference
      └─ run_real(spec): runner subprocess (own session) = executors (fork) + Bridge + controller.impl.run
                         (infrastructure of ekw.c05_cluster: port allocator, unique host ids / shm prefix,
                         deadline enforced from outside, session kill + unlink, reaper)              -> State.outputs
    oracle: every requested output delivered, with the reference value; the run ends before the deadline; no error.

Values are ints / strings / (nested) tuples built injectively from (task, output index, every bound parameter with
its name), so a value bound to the wrong parameter, a default winning over an upstream value, outputs published
under the wrong names, or a stale / foreign copy all change some requested value.
"""
from __future__ import annotations

import json
import os
import random
import sys
import time
import zlib

DEFAULT_OUT = "0"          # earthkit.workflows.graph.Node.DEFAULT_OUTPUT, the single output from_callable declares
# declaration order of the output names differs from their sorted order (but for the last of each list)
OUT_NAMES = {2: [["b", "a"], ["z", "y"], ["1", "0"], ["out", "aux"], ["lo", "hi"], ["a", "b"]],
             3: [["b", "c", "a"], ["z", "a", "m"], ["2", "0", "1"], ["mid", "hi", "lo"], ["a", "b", "c"]]}
KINDS = ("real-cluster-wrong-value", "real-cluster-missing-output", "real-cluster-hang", "real-cluster-error")


# ----------------------------------------------------------------------------- values (run inside the workers too)

def _fmt(v):
    if isinstance(v, str):
        return "<" + v + ">"
    if isinstance(v, tuple):
        return "(" + ",".join(_fmt(x) for x in v) + ")"
    return repr(v)


def _val(ret, tag, i, bound):
    """The value of output `i` of task `tag` whose parameters were bound as `bound` = [(name, value)...]."""
    if ret == "tuple":
        return (tag, i) + tuple(x for pair in bound for x in pair)
    if ret == "sum" and all(type(v) is int for _, v in bound):
        return 1000 * (i + 1) + sum((j + 2) * v for j, (_, v) in enumerate(bound))
    s = f"{tag}#{i}[" + ";".join(f"{n}={_fmt(v)}" for n, v in bound) + "]"
    if ret == "str":
        return s
    return zlib.crc32(s.encode())


def enc(v):
    """value -> what travels in the runner's JSON result line (exactly comparable)"""
    return v if (type(v) is int or v is None) else repr(v)


def _dec_static(v):
    return tuple(_dec_static(x) for x in v) if isinstance(v, list) else v


# ----------------------------------------------------------------------------- generator

def _rand_value(rng):
    r = rng.random()
    if r < 0.4:
        return rng.randint(-50, 99)
    if r < 0.7:
        return rng.choice(["x", "yy", "q7", "", "ab c", "0"])
    return [rng.randint(0, 9) for _ in range(rng.randint(1, 3))]


def _pick_src(rng, up, consumed, avoid=()):
    pool = [d for d in up if d[0] not in {t for t, _ in avoid}] or [d for d in up if (d[0], d[1]) not in avoid] or up
    w = []
    for t, o, last in pool:
        c = consumed.get((t, o), 0)
        w.append((3.0 if not last else 2.0) if c == 0 else 1.5)
    return rng.choices(pool, weights=w)[0]


def _gen_task(rng, name, up, consumed, force=None):
    npos = rng.choice([0, 1, 1, 2, 2, 3])
    ndef = rng.choice([0, 1, 1, 2])
    kwo = rng.choice(["", "", "", "r", "s", "rs"])
    nout = rng.choice([1, 1, 1, 2, 2, 3])
    if not up and rng.random() < 0.5:
        npos = 0
    if force == "src" or (force is None and rng.random() < 0.3):
        up = []                           # a further source task: only static inputs (several sources -> work for several hosts)
    if force == "gen-src":
        nout = rng.choice([2, 3])
    if force == "kw-default":
        ndef = max(ndef, 1)
    if force == "pos2":
        npos = max(npos, 2)
    params = [{"n": "abc"[j], "kind": "pos"} for j in range(npos)]
    params += [{"n": "km"[j], "kind": "def", "default": _rand_value(rng)} for j in range(ndef)]
    if "r" in kwo:
        params.append({"n": "r", "kind": "kwreq"})
    if "s" in kwo:
        params.append({"n": "s", "kind": "kwdef", "default": _rand_value(rng)})
    q = npos if (rng.random() < 0.7 or force == "pos2") else rng.randint(0, npos)   # a..: the first q positionally, the rest by keyword
    bind = []
    used = []

    def source(p_edge, avoid=()):
        if up and rng.random() < p_edge:
            t, o, _ = _pick_src(rng, up, consumed, avoid)
            consumed[(t, o)] = consumed.get((t, o), 0) + 1
            used.append((t, o))
            return {"src": [t, o]}
        return {"val": _rand_value(rng)}
    for j, p in enumerate(params):
        if p["kind"] == "pos":
            forced = force == "pos2" and j < 2
            b = source(1.0 if forced else 0.75, avoid=used if forced else ())
            bind.append(dict(b, p=p["n"], how="pos" if j < q else "kw", **({"idx": j} if j < q else {})))
        elif p["kind"] in ("def", "kwdef"):
            forced = force == "kw-default" and p["n"] == "k"
            r = 0.0 if forced else rng.random()
            if r < 0.45 and up:
                bind.append(dict(source(1.0), p=p["n"], how="kw"))      # keyword edge into a parameter that has a default
            elif r < 0.65:
                bind.append({"val": _rand_value(rng), "p": p["n"], "how": "kw"})
        else:
            bind.append(dict(source(0.6), p=p["n"], how="kw"))
    outs = list(rng.choice(OUT_NAMES[nout])) if nout > 1 else [rng.choice([DEFAULT_OUT, DEFAULT_OUT, DEFAULT_OUT, "o", "res"])]
    return {"name": name, "ret": rng.choice(["int", "tuple", "str", "sum"]), "outs": outs, "params": params, "bind": bind}


def gen_spec(rng, dense=False):
    """One random job + cluster shape. `dense`: 4-6 tasks, the features the quick tier must not miss are forced
    (multi-output generator source, a second source task, keyword edge into a defaulted parameter, >=2 positional
    edges from different tasks, >=2 workers in total), every sink task's outputs requested."""
    n = rng.choice([4, 5, 6]) if dense else rng.choice([2, 3, 3, 4, 4, 5, 5, 6, 6])
    hosts, workers = rng.choice([(2, 1), (2, 2), (1, 2), (2, 1)]) if dense else rng.choice([(1, 1), (1, 2), (2, 1), (2, 2), (2, 1)])
    perm = list(range(n))
    rng.shuffle(perm)                     # topological order != order of the names
    names = [f"t{p}" for p in perm]
    if rng.random() < 0.3:
        i = rng.randrange(n)
        names[i] = names[i] + ".v"        # dotted task name (DatasetId repr is "<task>.<output>")
    force = {0: "gen-src", 1: "src", 2: "kw-default", 3: "pos2"} if dense else {}
    tasks, up, consumed = [], [], {}
    for i in range(n):
        t = _gen_task(rng, names[i], up, consumed, force.get(i))
        tasks.append(t)
        up += [(t["name"], o, j == len(t["outs"]) - 1) for j, o in enumerate(t["outs"])]
    has_consumer = {t for (t, _o) in consumed}
    ext = []
    for t, o, _last in up:
        if dense and t not in has_consumer:
            ext.append([t, o])
        elif rng.random() < (0.3 if dense else 0.4):
            ext.append([t, o])
    if not ext:
        ext.append(list(rng.choice(up)[:2]))
    rng.shuffle(ext)
    return {"tasks": tasks, "ext": ext, "hosts": hosts, "workers": workers}


def ambiguate(spec, rng):
    """Rename two tasks and one output of each so that task-name + output-name of two DIFFERENT datasets is the same
    string ("q"+"xy" == "qx"+"y"): every per-dataset key the implementation derives from the two names must still differ."""
    ts = spec["tasks"]
    if len(ts) < 2:
        return spec
    i, j = rng.sample(range(len(ts)), 2)
    ren_t = {ts[i]["name"]: "q", ts[j]["name"]: "qx"}
    oi, oj = rng.randrange(len(ts[i]["outs"])), rng.randrange(len(ts[j]["outs"]))
    ren_o = {(ts[i]["name"], ts[i]["outs"][oi]): "xy", (ts[j]["name"], ts[j]["outs"][oj]): "y"}

    def ds(t, o):
        return [ren_t.get(t, t), ren_o.get((t, o), o)]
    for t in ts:
        for b in t["bind"]:
            if "src" in b:
                b["src"] = ds(*b["src"])
    spec["ext"] = [ds(t, o) for t, o in spec["ext"]]
    for t in ts:
        t["outs"] = [ren_o.get((t["name"], o), o) for o in t["outs"]]
        t["name"] = ren_t.get(t["name"], t["name"])
    if rng.random() < 0.6:
        spec["hosts"] = 1                 # both datasets in one host's store for sure
        spec["workers"] = max(spec["workers"], 2) if rng.random() < 0.5 else spec["workers"]
    spec["ambiguous_names"] = True
    return spec


def features(spec):
    """what the case exercises (for the printed distribution / nontriviality)"""
    f = set()
    srcs = {}
    for t in spec["tasks"]:
        defaults = {p["n"] for p in t["params"] if "default" in p}
        npe = 0
        for b in t["bind"]:
            if "src" in b:
                srcs[tuple(b["src"])] = srcs.get(tuple(b["src"]), 0) + 1
                if b["how"] == "kw":
                    f.add("kw-edge")
                    if b["p"] in defaults:
                        f.add("kw-edge-into-default")
                else:
                    npe += 1
                    f.add("pos-edge")
            else:
                f.add("static-" + b["how"])
                if b["how"] == "kw" and b["p"] in defaults:
                    f.add("static-kw-overrides-default")
        if npe >= 2:
            f.add("pos-edges>=2")
        if any(b["how"] == "pos" and "val" in b and any(c["how"] == "pos" and "src" in c and c["idx"] < b["idx"] for c in t["bind"]) for b in t["bind"]):
            f.add("static-pos-after-edge")
        if defaults - {b["p"] for b in t["bind"]}:
            f.add("default-left")
        if len(t["outs"]) > 1:
            f.add("multi-output")
            if t["outs"] != sorted(t["outs"]):
                f.add("outputs-declared-unsorted")
        if "." in t["name"]:
            f.add("dotted-task-name")
    outs = {t["name"]: t["outs"] for t in spec["tasks"]}
    if any(o != outs[t][-1] and len(outs[t]) > 1 for (t, o) in srcs):
        f.add("consumer-of-non-last-output")
    if any(c >= 2 for c in srcs.values()):
        f.add("fan-out")
    if any(tuple(e) in srcs for e in spec["ext"]):
        f.add("ext-non-sink")
    if len(spec["ext"]) < sum(len(o) for o in outs.values()):
        f.add("ext-proper-subset")
    return sorted(f)


# ----------------------------------------------------------------------------- spec -> JobInstance (project's own builders)

def func_source(t):
    sig, star = [], False
    for p in t["params"]:
        if p["kind"] in ("kwreq", "kwdef") and not star:
            sig.append("*")
            star = True
        sig.append(p["n"] if "default" not in p else f"{p['n']}={_dec_static(p['default'])!r}")
    bound = "[" + ", ".join(f"({p['n']!r}, {p['n']})" for p in t["params"]) + "]"
    ann = {"int": " -> int", "str": " -> str", "tuple": " -> tuple", "sum": ""}[t["ret"]] if len(t["outs"]) == 1 else ""
    if len(t["outs"]) == 1:
        body = f"    return _val({t['ret']!r}, {t['name']!r}, 0, {bound})\n"
    else:
        body = f"    _b = {bound}\n    for _i in range({len(t['outs'])}):\n        yield _val({t['ret']!r}, {t['name']!r}, _i, _b)\n"
    return f"def f({', '.join(sig)}){ann}:\n{body}"


def make_func(t):
    g = {"__name__": "c01_generated", "_val": _val}
    exec(func_source(t), g)
    return g["f"]


def make_job(spec):
    """-> (JobInstance, {task: callable}); built with TaskBuilder.from_callable / JobBuilder of the tree under test."""
    from cascade.low.builders import JobBuilder, TaskBuilder
    from cascade.low.core import DatasetId
    jb = JobBuilder()
    funcs = {}
    for t in spec["tasks"]:
        f = make_func(t)
        funcs[t["name"]] = f
        tb = TaskBuilder.from_callable(f)          # defaults become static keyword inputs here
        kw = {b["p"]: _dec_static(b["val"]) for b in t["bind"] if b["how"] == "kw" and "val" in b}
        ps = {str(b["idx"]): _dec_static(b["val"]) for b in t["bind"] if b["how"] == "pos" and "val" in b}
        if kw:
            tb = tb.with_values(**kw)
        if ps and sorted(ps) == [str(i) for i in range(len(ps))]:
            tb = tb.with_values(*[ps[str(i)] for i in range(len(ps))])
        elif ps:
            tb = tb.model_copy(update={"static_input_ps": ps})
        if list(tb.definition.output_schema) != t["outs"]:
            tb = tb.model_copy(update={"definition": tb.definition.model_copy(update={"output_schema": {o: "Any" for o in t["outs"]}})})
        jb = jb.with_node(t["name"], tb)
    for t in spec["tasks"]:
        for b in t["bind"]:
            if "src" in b:
                jb = jb.with_edge(b["src"][0], t["name"], b["idx"] if b["how"] == "pos" else b["p"], b["src"][1])
    job = jb.build().get_or_raise()
    job.ext_outputs = [DatasetId(t, o) for t, o in spec["ext"]]
    return job, funcs


# ----------------------------------------------------------------------------- reference: sequential interpreter

def seq_eval(job, funcs):
    """Sequential denotation of a JobInstance: {(task, output): value}. Written from the JobInstance semantics
    (static inputs, then upstream values by position / keyword, generator results bound in declaration order)."""
    vals, done = {}, set()
    ins = {t: [e for e in job.edges if e.sink_task == t] for t in job.tasks}
    while len(done) < len(job.tasks):
        ready = [t for t in job.tasks if t not in done and all(e.source.task in done for e in ins[t])]
        if not ready:
            raise ValueError("job is not a DAG")
        for t in ready:
            inst = job.tasks[t]
            args = {int(i): v for i, v in inst.static_input_ps.items()}
            kwargs = dict(inst.static_input_kw)
            for e in ins[t]:
                v = vals[(e.source.task, e.source.output)]
                if e.sink_input_kw is not None:
                    kwargs[e.sink_input_kw] = v
                else:
                    args[e.sink_input_ps] = v
            res = funcs[t](*[args[i] for i in range(len(args))], **kwargs)
            names = list(inst.definition.output_schema)
            res = [res] if len(names) == 1 else list(res)
            if len(res) != len(names):
                raise ValueError(f"{t}: {len(res)} results for {len(names)} outputs")
            vals.update({(t, o): v for o, v in zip(names, res)})
            done.add(t)
    return vals


def reference(spec):
    job, funcs = make_job(spec)
    ref = seq_eval(job, funcs)
    return {f"{t}|{o}": enc(ref[(t, o)]) for t, o in spec["ext"]}


# ----------------------------------------------------------------------------- runner (subprocess)

def runner_main(case):
    """Runs in the subprocess (`python -m ekw.c01_real <case json>`): executors (fork), Bridge, controller.impl.run."""
    import logging
    import warnings
    warnings.filterwarnings("ignore")
    logging.disable(logging.CRITICAL)
    from multiprocessing import get_context
    from ekw import c05_cluster as cl
    t0 = time.time()
    out = {"ended": None, "error": None, "outputs": {}, "phase": "setup"}
    stats = {"transmits": 0, "fetches": 0, "sequences": 0}
    try:
        from cascade.controller.impl import run
        from cascade.executor.bridge import Bridge
        from cascade.scheduler.graph import precompute
        job, _ = make_job(case["spec"])
        pre = precompute(job)
        port, uid = case["port"], case["uid"]
        c = f"tcp://localhost:{port}"
        ctx = get_context("fork")
        pidq = ctx.Queue()
        hosts = [f"{uid}h{i}" for i in range(case["spec"]["hosts"])]
        for i, h in enumerate(hosts):
            ctx.Process(target=cl._launch_executor, args=(job, c, case["spec"]["workers"], port + 1 + i * 10, h, pidq)).start()
        for _ in hosts:
            pidq.get(timeout=20)
        out["phase"] = "bridge"
        bridge = Bridge(c, len(hosts))
        for name, key in (("transmit", "transmits"), ("fetch", "fetches"), ("task_sequence", "sequences")):
            def wrap(orig=getattr(bridge, name), key=key):
                def w(*a, **k):
                    stats[key] += 1
                    return orig(*a, **k)
                return w
            setattr(bridge, name, wrap())
        out["phase"] = "run"
        out["t_setup"] = round(time.time() - t0, 2)
    except BaseException as e:
        out["ended"] = "infra"
        out["error"] = f"{type(e).__name__}: {e}"
        cl._emit(out)
        os._exit(0)
    t1 = time.time()
    try:
        state = run(job, bridge, pre)
        out["ended"] = "ok"
        out["outputs"] = {"values": {f"{k.task}|{k.output}": enc(v) for k, v in state.outputs.items()}, "stats": stats}
    except BaseException as e:
        out["ended"] = "error"
        out["error"] = f"{type(e).__name__}: {str(e)[:300]}"
        out["outputs"] = {"values": {}, "stats": stats}
    out["t_run"] = round(time.time() - t1, 2)
    cl._emit(out)
    os._exit(0)


# ----------------------------------------------------------------------------- check-process side

def run_real(spec, deadline_s=30.0, settle_s=1.5):
    """One real run. Returns c05_cluster's observation dict (ended: ok|error|hang). Infrastructure trouble raises InfraError."""
    from ekw import c05_cluster as cl
    from ekw.core import InfraError
    obs = None
    for _attempt in range(3):
        try:
            obs = cl.run_case({"spec": spec}, deadline_s=deadline_s, settle_s=settle_s, module="ekw.c01_real")
        except (OSError, RuntimeError) as e:          # cannot fork / no free port range
            raise InfraError(f"real-cluster run could not be started: {type(e).__name__}: {e}")
        if obs["ended"] != "infra":
            return obs
        time.sleep(0.5)
    raise InfraError(f"real-cluster run could not be set up (3 attempts): {obs.get('error')}")


def judge(spec, ref, obs):
    """Oracle from the property text. -> list of (kind, what)."""
    shape = f"{spec['hosts']} host(s) x {spec['workers']} worker(s)"
    if obs["ended"] == "hang":
        return [("real-cluster-hang", f"run on {shape} did not end within the deadline ({obs.get('alive_at_deadline')} processes still alive)")]
    if obs["ended"] == "error":
        return [("real-cluster-error", f"run on {shape} raised {obs.get('error')} although no task fails under sequential evaluation")]
    got = (obs.get("outputs") or {}).get("values", {})
    v = []
    for key, want in ref.items():
        if got.get(key) is None:
            v.append(("real-cluster-missing-output", f"requested output {key} was not delivered by the run on {shape} (sequential value {want!r}); delivered: {sorted(got)}"))
        elif got[key] != want:
            v.append(("real-cluster-wrong-value", f"requested output {key}: run on {shape} delivered {got[key]!r}, sequential evaluation gives {want!r}"))
    return v


def check_case(spec, ref=None, note=None):
    """run + judge; a hang / error verdict counts only if an immediate re-run does not end cleanly either."""
    if ref is None:
        ref = reference(spec)
    obs = run_real(spec)
    verdicts = judge(spec, ref, obs)
    if verdicts and obs["ended"] in ("hang", "error"):
        obs2 = run_real(spec, deadline_s=45.0)
        v2 = judge(spec, ref, obs2)
        if note is not None:
            note(obs["ended"], bool(v2))
        obs2["first_attempt"] = {"ended": obs["ended"], "error": obs.get("error")}
        obs, verdicts = obs2, v2
    return obs, verdicts


def correspond_real(ctx):
    """3 (quick) / 40 (thorough) end-to-end runs; the first three of either tier and every second one after them are
    `dense` cases, the others unconstrained random ones (incl. 2-task jobs, 1 host x 1 worker)."""
    n = ctx.budget(3, 40)
    t0 = time.time()
    reported = 0
    for i in range(n):
        seed = ctx.rng.randrange(1 << 30)
        grng = random.Random(seed)
        spec = gen_spec(grng, dense=i < 3 or i % 2 == 1)
        if i % 3 == 1:
            spec = ambiguate(spec, grng)
            ctx.count("real:ambiguous-name-concatenation")
        spec["seed"] = seed
        case = {"real": spec}
        feats = features(spec)
        ctx.case(case, nontrivial=True)
        ctx.count("real:runs")
        ctx.count(f"real:shape={spec['hosts']}x{spec['workers']}")
        ctx.count(f"real:tasks={len(spec['tasks'])}")
        for f in feats:
            ctx.count("real:has:" + f)
        try:
            ref = reference(spec)
        except Exception as e:
            ctx.violation({"kind": "real-cluster-error", "where": "build"}, case, f"building / evaluating the job with the project's builders raised {type(e).__name__}: {str(e)[:300]}")
            continue

        def note(first, still_bad):
            ctx.count("real:confirm-runs")
            if not still_bad:
                ctx.count("real:flaky-" + first)
                ctx.notes.append(f"real-cluster run {first} not reproduced on re-run (ignored), seed {seed}")
        obs, verdicts = check_case(spec, ref, note)
        ctx.traces += 1
        ctx.count("real:ended=" + obs["ended"])
        st = (obs.get("outputs") or {}).get("stats") or {}
        ctx.count("real:transmits", st.get("transmits", 0))
        ctx.count("real:fetches", st.get("fetches", 0))
        if st.get("transmits", 0) > 0:
            ctx.count("real:runs-with-inter-host-transfer")
        ctx.extra.setdefault("real_runs", []).append({"seed": seed, "shape": [spec["hosts"], spec["workers"]], "tasks": len(spec["tasks"]), "ext": len(spec["ext"]),
                                                      "ended": obs["ended"], "t_setup": obs.get("t_setup"), "t_run": obs.get("t_run"), "wall": obs.get("wall"),
                                                      "transmits": st.get("transmits"), "verdicts": sorted({k for k, _ in verdicts})})
        seen = set()
        for kind, what in verdicts:
            if kind in seen:
                continue
            seen.add(kind)
            ctx.violation({"kind": kind}, case, f"{what} [job of {len(spec['tasks'])} tasks, generator seed {seed}; features: {', '.join(feats)}]")
            reported += 1
        if sum(1 for v in ctx.violations if v["signature"].get("kind") in ("real-cluster-hang", "real-cluster-error")) >= 2 or reported >= 6:
            ctx.notes.append("real-cluster runs stopped early: enough failing inputs")
            break
    ctx.extra["real_wall_s"] = round(time.time() - t0, 2)


def replay(case):
    spec = case["real"]
    print(f"real-cluster case: {spec['hosts']} host(s) x {spec['workers']} worker(s), generator seed {spec.get('seed')}, features: {features(spec)}")
    for t in spec["tasks"]:
        print(f"--- task {t['name']}  outputs (declaration order) {t['outs']}")
        print(func_source(t), end="")
        for b in t["bind"]:
            where = f"position {b['idx']}" if b["how"] == "pos" else f"keyword {b['p']}"
            print(f"    {where} <- " + (f"dataset {b['src'][0]}|{b['src'][1]}" if "src" in b else f"static {_dec_static(b['val'])!r}"))
    ref = reference(spec)
    print("requested + sequential reference:", json.dumps(ref))
    obs, verdicts = check_case(spec, ref)
    print("real run:", {k: obs.get(k) for k in ("ended", "error", "t_setup", "t_run", "wall", "first_attempt")})
    print("delivered:", json.dumps((obs.get("outputs") or {}).get("values")), "stats:", (obs.get("outputs") or {}).get("stats"))
    for kind, what in verdicts:
        print("ORACLE:", kind, "--", what)
    if not verdicts:
        print("oracle: ok")
    return 1 if verdicts else 0


if __name__ == "__main__":
    if sys.argv[1:2] == ["--stats"]:
        # development aid: python -m ekw.c01_real --stats N [seed0]  -> runs N random cases, prints shape/feature distribution + timings
        n, s0 = int(sys.argv[2]), int(sys.argv[3]) if len(sys.argv) > 3 else 0
        dist, bad = {}, 0
        for i in range(n):
            spec = gen_spec(random.Random(s0 + i), dense="--dense" in sys.argv)
            spec["seed"] = s0 + i
            if "--dry" in sys.argv:
                reference(spec)
                obs, vs = {"ended": "dry", "outputs": {}}, []
            else:
                obs, vs = check_case(spec)
            st = (obs.get("outputs") or {}).get("stats") or {}
            for f in features(spec) + [f"shape={spec['hosts']}x{spec['workers']}", f"tasks={len(spec['tasks'])}"] + (["run-with-transfer"] if st.get("transmits") else []):
                dist[f] = dist.get(f, 0) + 1
            bad += bool(vs)
            print(s0 + i, obs["ended"], obs.get("t_setup"), obs.get("t_run"), obs.get("wall"), st, [k for k, _ in vs], flush=True)
        print(json.dumps(dist, sort_keys=True, indent=1), "failing:", bad)
    else:
        runner_main(json.loads(sys.argv[1]))
