"""C01 helper: end-to-end runs of random small jobs with REAL callables on a REAL local cluster.

The SimBridge part of the C01 check (ctrl_check / sim_ctrl) drives the real controller against abstract
executors with uninterpreted task values; what lies between the controller and the execution of a task --
executor/runner/runner.py (argument binding, output publication), runner/memory.py, runner/entrypoint.py,
executor/executor.py, data_server.py, the zmq/shm transport -- is exercised HERE:

    spec (JSON, derived from one random.Random(seed))
      ├─ make_job(spec): callables with real signatures -> TaskBuilder.from_callable / JobBuilder  -> JobInstance
      ├─ seq_eval(job):  ~20-line sequential interpreter of the JobInstance in the check process    -> reference
      └─ run_real(spec): runner subprocess (own session) = executors (fork) + Bridge + controller.impl.run
                         (infrastructure of ekw.c05_cluster: port allocator, unique host ids / shm prefix,
                         deadline enforced from outside, session kill + unlink, reaper)              -> State.outputs
    oracle: every requested output delivered, with the reference value; the run ends before the deadline; no error.

Values are ints / strings / (nested) tuples / bytes / NumPy arrays (several dtypes, 0-d to 2-d, non-contiguous views; below
~1 KiB but in the family big-values: bytes and arrays of 64 KiB .. 2 MiB, compared through length / dtype / shape / sha256) /
`Box`es (a type that refuses pickle and travels only through the serde pair registered in `JobInstance.serdes`), built
injectively from (task, output index, every bound parameter with its name), so a value bound to the wrong parameter, a
default winning over an upstream value, outputs published under the wrong names, or a stale / foreign copy all change
some requested value.

Besides the values, every run leaves a TRACE in a private directory (no hook in /repo): each task body appends
(task, pid, CUDA_VISIBLE_DEVICES, what the worker's own `entrypoint` frame holds at that moment) when it is entered, the
harness-side executor launcher records the pids of the workers it started, and the runner logs every Bridge command
(task_sequence / transmit / fetch / purge / shutdown) in the order the controller issued them. From that trace, and from
nothing the controller keeps in `State`, the oracle additionally decides: each task body ran at most once and in the
process of the worker the controller had dispatched it to; a task that needs a GPU ran where a device of its own exists;
purges reach the workers; and it tells a hang at start-up (no task body entered) from a hang of the job.
"""
from __future__ import annotations

import hashlib
import json
import os
import random
import re
import shutil
import sys
import tempfile
import threading
import time
import zlib

DEFAULT_OUT = "0"          # earthkit.workflows.graph.Node.DEFAULT_OUTPUT, the single output from_callable declares
# declaration order of the output names differs from their sorted order (but for the last of each list)
OUT_NAMES = {2: [["b", "a"], ["z", "y"], ["1", "0"], ["out", "aux"], ["lo", "hi"], ["a", "b"]],
             3: [["b", "c", "a"], ["z", "a", "m"], ["2", "0", "1"], ["mid", "hi", "lo"], ["a", "b", "c"]]}
KINDS = ("real-cluster-wrong-value", "real-cluster-missing-output", "real-cluster-hang", "real-cluster-error",
         "real-cluster-wrong-worker", "real-cluster-task-ran-twice", "real-cluster-gpu-task-without-device",
         "real-cluster-gpu-device-shared", "real-cluster-purge-not-applied", "real-cluster-source-does-not-hold",
         "real-cluster-purge-before-consumers-done", "real-cluster-purge-before-delivered", "real-cluster-purge-while-unanswered")
RETS = ("int", "tuple", "str", "sum")                 # the plain kinds (every family)
RETS_RICH = ("nd", "nd", "bytes")                     # + with `rich`: ndarray / bytes values
# "bigbytes" / "bignd" (family big-values only): bytes / ndarray values of BIG_MIN..BIG_MAX bytes (the size class above zmq's
# zero-copy threshold and above one shm page; everything else in this module is below ~1 KiB)
BIG_MIN, BIG_MAX = 64 * 1024, 2 * 1024 * 1024
# "hugebytes" / "hugend" (one source of every big-values job): 8 .. 24 MiB -- more than a socket buffer holds, so the sender is
# still at work on the value long after `send` has returned
HUGE_MIN, HUGE_MAX = 8 * 1024 * 1024, 24 * 1024 * 1024
# zero-length values (family zero-length only): a result that carries no byte / no element at all, and a 0-d array (no axis)
ZERO_KINDS = ("zbytes", "zstr", "ztuple", "zlist", "znd", "znd2", "nd0")
DIGEST_FROM = 4096         # values with more bytes than this are rendered / compared through (length, dtype, shape, sha256 of the bytes)
# "ndm" (family nd-replicated only): an ndarray with >= 2 elements for sure -- `==`/`!=` on it are element-wise and its truth value raises
STARTUP_S = 20.0           # executors forked, data servers listening, every host registered at the Bridge (healthy: 1-3 s, under load up to ~11 s)
JOB_S = 25.0               # controller.impl.run from its first line to its return, shutdown of the executors included (healthy: 0.3-2 s, under load up to ~8 s)
STARTUP_LADDER = (STARTUP_S, 40.0, 80.0, 160.0)      # start-up patience per attempt (run_real)
_LADDER_TXT = "/".join(str(int(x)) for x in STARTUP_LADDER)
RERUN_JOB_S = 3 * JOB_S     # patience of the runs that decide whether a hang is real: a deadlock does not end after 75 s either
CALM_WAIT_S = 180.0        # those runs wait for the machine's load to fall below its number of cores, at most this long
DEADLINE_S = STARTUP_S + JOB_S + 5.0      # outer deadline of the runner subprocess; the two inner ones are enforced by the runner itself
RUNNER_NICE = -10          # niceness of the runner and everything it forks (ignored when the check may not lower it)
TRACE_DIR = None           # set in the runner before the executors are forked (inherited by every worker)


# ----------------------------------------------------------------------------- values (run inside the workers too)

MOD = "ekw.c01_real"       # the importable name of this module (the runner re-enters it under that name, see the bottom)


class Box:
    """A value type with a custom serde: it REFUSES pickle, so it can leave a worker only through the (ser, des) pair the
    job registers in `JobInstance.serdes` (controller: impl.py `SerdeRegistry.register`, worker: entrypoint.py)."""
    __slots__ = ("payload",)

    def __init__(self, payload):
        self.payload = payload

    def __repr__(self):
        return f"Box({self.payload!r})"

    def __eq__(self, other):
        return type(other) is Box and other.payload == self.payload

    def __hash__(self):
        return hash(("Box", self.payload))

    def __reduce_ex__(self, protocol):
        raise TypeError("c01 Box travels only through the serde registered in JobInstance.serdes")


class TBox(Box):
    """A SUBCLASS of Box with state of its own that pickles normally: no serde is registered for it, so it must travel by
    pickle and come back as a TBox with its tag (a serde registered for Box is for Box only)."""
    __slots__ = ("tag",)

    def __init__(self, payload, tag):
        Box.__init__(self, payload)
        self.tag = tag

    def __repr__(self):
        return f"TBox({self.payload!r}, {self.tag!r})"

    def __eq__(self, other):
        return type(other) is TBox and other.payload == self.payload and other.tag == self.tag

    def __hash__(self):
        return hash(("TBox", self.payload, self.tag))

    def __reduce_ex__(self, protocol):
        return (TBox, (self.payload, self.tag))


def ser_box(b):
    return b"BOX1" + b.payload.encode("utf-8")


def des_box(raw):
    raw = bytes(raw)                      # shm hands out a (read-only) memoryview
    if raw[:4] != b"BOX1":
        raise ValueError(f"not a serialised Box: {raw[:16]!r}")
    return Box(raw[4:].decode("utf-8"))


def _is_nd(v):
    return type(v).__module__ == "numpy" and type(v).__name__ == "ndarray"


def _fmt(v):
    """injective rendering of an input value inside the value of a downstream task"""
    if isinstance(v, str):
        return "<" + v + ">"
    if isinstance(v, tuple):
        return "(" + ",".join(_fmt(x) for x in v) + ")"
    if type(v) is list:
        return "list[" + ",".join(_fmt(x) for x in v) + "]"
    if isinstance(v, bytes):
        if len(v) > DIGEST_FROM:
            return f"b<#{len(v)}:{hashlib.sha256(v).hexdigest()}>"
        return "b<" + v.hex() + ">"
    if type(v) is TBox:
        return "TBox<" + v.tag + "|" + v.payload + ">"
    if isinstance(v, Box):
        return "Box<" + v.payload + ">"
    if _is_nd(v):
        if v.nbytes > DIGEST_FROM:
            return f"nd<{v.dtype.str};{list(v.shape)};#{hashlib.sha256(_nd_bytes(v)).hexdigest()}>"
        return f"nd<{v.dtype.str};{list(v.shape)};{v.tolist()!r}>"
    return repr(v)


def _nd_bytes(v):
    """the elements of an array in C order, as bytes (whatever its memory layout)"""
    import numpy as np
    return np.ascontiguousarray(v).tobytes()


def _zero(ret, s):
    """b"", "", (), [], an array without elements (1-d, 2-d) -- and a 0-d array (one element, no axis) whose value depends on s"""
    if ret == "zbytes":
        return b""
    if ret == "zstr":
        return ""
    if ret == "ztuple":
        return ()
    if ret == "zlist":
        return []
    import numpy as np
    if ret == "znd":
        return np.zeros(0)
    if ret == "znd2":
        return np.zeros((0, 3), dtype=np.int32)
    return np.array((zlib.crc32(s.encode()) % 4001) / 8.0, dtype=np.float32)


def _big_size(n, lo=BIG_MIN, hi=BIG_MAX):
    return lo + (n * 2654435761) % (hi - lo + 1)


def _big_bytes(s, lo=BIG_MIN, hi=BIG_MAX):
    """lo..hi bytes determined by the string s (no period: a truncated, shifted or partly overwritten copy differs)"""
    import numpy as np
    n = zlib.crc32(s.encode())
    return np.random.Generator(np.random.PCG64(n)).bytes(_big_size(n, lo, hi))


def _huge_nd(s):
    import numpy as np
    n = zlib.crc32(s.encode())
    return np.random.Generator(np.random.PCG64(n ^ 0xA5A5)).integers(-(1 << 40), 1 << 40, size=_big_size(n, HUGE_MIN, HUGE_MAX) // 8, dtype=np.int64)


def _big_nd(s):
    """An ndarray of BIG_MIN..BIG_MAX bytes determined by s: dtype, rank and memory layout vary with s."""
    import numpy as np
    n = zlib.crc32(s.encode())
    g = np.random.Generator(np.random.PCG64(n ^ 0x5A5A))
    k = (n >> 7) % 5
    nb = _big_size(n)
    if k == 0:
        return g.integers(-(1 << 40), 1 << 40, size=nb // 8, dtype=np.int64)
    if k == 1:
        return g.integers(0, 1 << 20, size=(nb // 8 // 64, 64)).astype(np.float64) / 16.0      # 2-d float64 (exact values)
    if k == 2:
        return g.integers(0, 1 << 16, size=(2 * (nb // 2 // 32), 32), dtype=np.uint16)[::2]      # non-contiguous view (every other row)
    if k == 3:
        return np.asfortranarray(g.integers(0, 1 << 31, size=(nb // 4 // 48, 48), dtype=np.int32))
    return g.integers(0, 256, size=nb, dtype=np.uint8)


def _nd(s):
    """A NumPy array determined by the string s: dtype, rank, byte order and memory layout vary with s."""
    import numpy as np
    n = zlib.crc32(s.encode())
    base = [n % (1 << 31)] + [(n >> j) % 1009 for j in range(0, 22, 2)]      # 12 ints
    k = (n >> 5) % 8
    if k == 0:
        return np.array(base[:1 + n % 5], dtype=np.int64)
    if k == 1:
        return np.array(base[:6], dtype=np.float64).reshape(2, 3) / 8.0
    if k == 2:
        return np.array(base[0], dtype=np.int64)                             # 0-d
    if k == 3:
        return np.array(base, dtype=np.int64)[::2]                           # non-contiguous view
    if k == 4:
        return np.array(base[:4], dtype=">i8")                               # big-endian
    if k == 5:
        return np.asfortranarray(np.array(base[:6], dtype=np.float64).reshape(3, 2))
    if k == 6:
        return np.array(list(n.to_bytes(4, "big")) + base[1:3], dtype=np.uint16)
    return np.array(base[:6], dtype=np.int64).reshape(2, 3).T                # transposed view


def _val(ret, tag, i, bound):
    """The value of output `i` of task `tag` whose parameters were bound as `bound` = [(name, value)...]."""
    if ret == "tuple":
        return (tag, i) + tuple((("TBox", x.tag, x.payload) if type(x) is TBox else ("Box", x.payload)) if isinstance(x, Box) else x for pair in bound for x in pair)
    if ret == "sum" and all(type(v) is int for _, v in bound):
        return 1000 * (i + 1) + sum((j + 2) * v for j, (_, v) in enumerate(bound))
    s = f"{tag}#{i}[" + ";".join(f"{n}={_fmt(v)}" for n, v in bound) + "]"
    if ret == "str":
        return s
    if ret == "bytes":
        return s.encode()
    if ret in ZERO_KINDS:
        return _zero(ret, s)
    if ret == "hugebytes":
        return _big_bytes(s, HUGE_MIN, HUGE_MAX)
    if ret == "hugend":
        return _huge_nd(s)
    if ret == "bigbytes":
        return _big_bytes(s)
    if ret == "bignd":
        return _big_nd(s)
    if ret == "box":
        return Box(s)
    if ret == "tbox":
        return TBox(s, "t%d" % (zlib.crc32(s.encode()) % 97))
    if ret == "nd":
        return _nd(s)
    if ret == "ndm":
        a = _nd(s)
        if a.size < 2:
            import numpy as np
            n = zlib.crc32(s.encode())
            a = np.array([n % 1009, (n >> 3) % 1013, (n >> 7) % 1019], dtype=np.int64)
        return a
    return zlib.crc32(s.encode())


def _canon(v):
    if type(v) is str:
        return repr(v)
    if type(v) is int or v is None:
        return repr(v)
    if type(v) is tuple:
        return "(" + ", ".join(_canon(x) for x in v) + ("," if len(v) == 1 else "") + ")"
    if type(v) is list:
        return "list[" + ", ".join(_canon(x) for x in v) + "]"
    if type(v) is bytes:
        if len(v) > DIGEST_FROM:
            return f"bytes#{len(v)}:sha256:{hashlib.sha256(v).hexdigest()}:head:{v[:8].hex()}:tail:{v[-8:].hex()}"
        return "bytes:" + v.hex()
    if type(v) is Box:
        return "Box:" + repr(v.payload)
    if type(v) is TBox:
        return "TBox:" + repr(v.tag) + ":" + repr(v.payload)
    if _is_nd(v):
        if v.nbytes > DIGEST_FROM:
            return f"nd:{v.dtype.str}:{list(v.shape)}:#{v.nbytes}:sha256:{hashlib.sha256(_nd_bytes(v)).hexdigest()}"
        return f"nd:{v.dtype.str}:{list(v.shape)}:{v.tolist()!r}"
    return f"{type(v).__module__}.{type(v).__qualname__}:{v!r}"


def enc(v):
    """value -> what travels in the runner's JSON result line (exactly comparable; type, dtype and shape are part of it)"""
    return v if (type(v) is int or v is None) else _canon(v)


def _dec_static(v):
    return tuple(_dec_static(x) for x in v) if isinstance(v, list) else v


# ----------------------------------------------------------------------------- trace (written inside the workers / the runner)

def _ds(d):
    return f"{d.task}|{d.output}"


def _worker_view():
    """What the worker process this code runs in holds right now, read from the locals of its own `entrypoint` frame
    (no hook in /repo): its identity, the datasets it believes available on its host, its Memory."""
    try:
        f = sys._getframe(2)
        while f is not None:
            if f.f_code.co_name == "entrypoint" and "availab_ds" in f.f_locals and "runnerContext" in f.f_locals:
                loc = f.f_locals
                mem = loc.get("memory")
                return {"worker": repr(loc["runnerContext"].workerId), "avail": sorted(_ds(d) for d in loc["availab_ds"]),
                        "local": sorted(_ds(d) for d in getattr(mem, "local", {})), "bufs": sorted(_ds(d) for d in getattr(mem, "bufs", {}))}
            f = f.f_back
    except Exception:
        pass
    return {}


def _trace(task):
    """First statement of every generated task body."""
    d = TRACE_DIR
    if not d:
        return
    try:
        rec = {"task": task, "pid": os.getpid(), "ppid": os.getppid(), "cuda": os.environ.get("CUDA_VISIBLE_DEVICES"), "t": time.time()}
        rec.update(_worker_view())
        with open(os.path.join(d, f"body.{os.getpid()}.jsonl"), "a") as f:
            f.write(json.dumps(rec) + "\n")
    except Exception:
        pass


def _nap(secs):
    """Second statement of a task body of the family slow-bodies: the body takes `secs` of wall clock inside a worker of a real run
    (TRACE_DIR is set there and only there); the sequential reference in the check process does not wait."""
    if TRACE_DIR:
        time.sleep(secs)


def _log_ctrl(rec):
    d = TRACE_DIR
    if not d:
        return
    try:
        rec["t"] = time.time()
        with open(os.path.join(d, "ctrl.jsonl"), "a") as f:
            f.write(json.dumps(rec) + "\n")
    except Exception:
        pass


def read_trace(d):
    """-> {"bodies": [...], "ctrl": [...], "execs": {host: {...}}, "env": {...}} (whatever the run left behind)"""
    tr = {"bodies": [], "ctrl": [], "execs": {}, "env": None}
    try:
        names = sorted(os.listdir(d))
    except OSError:
        return tr
    for n in names:
        try:
            with open(os.path.join(d, n)) as f:
                txt = f.read()
            if n.startswith("body."):
                tr["bodies"] += [json.loads(l) for l in txt.splitlines() if l.strip()]
            elif n == "ctrl.jsonl":
                tr["ctrl"] = [json.loads(l) for l in txt.splitlines() if l.strip()]
            elif n.startswith("exec."):
                e = json.loads(txt)
                tr["execs"][e["host"]] = e
            elif n == "env.json":
                tr["env"] = json.loads(txt)
        except (OSError, ValueError):
            continue                       # a line cut off by the session kill
    tr["bodies"].sort(key=lambda b: b.get("t", 0))
    return tr


# ----------------------------------------------------------------------------- generator

def _rand_value(rng):
    r = rng.random()
    if r < 0.4:
        return rng.randint(-50, 99)
    if r < 0.7:
        return rng.choice(["x", "yy", "q7", "", "ab c", "0"])
    return [rng.randint(0, 9) for _ in range(rng.randint(1, 3))]


def _pick_src(rng, up, consumed, avoid=()):
    pool = [d for d in up if d[0] not in {t for t, _ in avoid}] or [d for d in up if (d[0], d[1]) not in avoid] or up
    w = []
    for t, o, last in pool:
        c = consumed.get((t, o), 0)
        w.append((3.0 if not last else 2.0) if c == 0 else 1.5)
    return rng.choices(pool, weights=w)[0]


def _gen_task(rng, name, up, consumed, force=None, rets=RETS):
    npos = rng.choice([0, 1, 1, 2, 2, 3])
    ndef = rng.choice([0, 1, 1, 2])
    kwo = rng.choice(["", "", "", "r", "s", "rs"])
    nout = rng.choice([1, 1, 1, 2, 2, 3])
    if not up and rng.random() < 0.5:
        npos = 0
    if force == "src" or (force is None and rng.random() < 0.3):
        up = []                           # a further source task: only static inputs (several sources -> work for several hosts)
    if force == "gen-src":
        nout = rng.choice([2, 3])
    if force == "kw-default":
        ndef = max(ndef, 1)
    if force == "pos2":
        npos = max(npos, 2)
    params = [{"n": "abc"[j], "kind": "pos"} for j in range(npos)]
    params += [{"n": "km"[j], "kind": "def", "default": _rand_value(rng)} for j in range(ndef)]
    if "r" in kwo:
        params.append({"n": "r", "kind": "kwreq"})
    if "s" in kwo:
        params.append({"n": "s", "kind": "kwdef", "default": _rand_value(rng)})
    q = npos if (rng.random() < 0.7 or force == "pos2") else rng.randint(0, npos)   # a..: the first q positionally, the rest by keyword
    bind = []
    used = []

    def source(p_edge, avoid=()):
        if up and rng.random() < p_edge:
            t, o, _ = _pick_src(rng, up, consumed, avoid)
            consumed[(t, o)] = consumed.get((t, o), 0) + 1
            used.append((t, o))
            return {"src": [t, o]}
        return {"val": _rand_value(rng)}
    for j, p in enumerate(params):
        if p["kind"] == "pos":
            forced = force == "pos2" and j < 2
            b = source(1.0 if forced else 0.75, avoid=used if forced else ())
            bind.append(dict(b, p=p["n"], how="pos" if j < q else "kw", **({"idx": j} if j < q else {})))
        elif p["kind"] in ("def", "kwdef"):
            forced = force == "kw-default" and p["n"] == "k"
            r = 0.0 if forced else rng.random()
            if r < 0.45 and up:
                bind.append(dict(source(1.0), p=p["n"], how="kw"))      # keyword edge into a parameter that has a default
            elif r < 0.65:
                bind.append({"val": _rand_value(rng), "p": p["n"], "how": "kw"})
        else:
            bind.append(dict(source(0.6), p=p["n"], how="kw"))
    outs = list(rng.choice(OUT_NAMES[nout])) if nout > 1 else [rng.choice([DEFAULT_OUT, DEFAULT_OUT, DEFAULT_OUT, "o", "res"])]
    return {"name": name, "ret": rng.choice(list(rets)), "outs": outs, "params": params, "bind": bind}


SHAPES_DENSE = [(2, 1), (2, 2), (1, 2), (2, 1), (2, 3), (1, 3)]
SHAPES_3H = [(3, 1), (3, 2), (3, 3), (3, 1)]
SHAPES_4H = [(4, 1), (4, 1), (4, 2)]                  # an executor takes 3 ports of the 10 its host owns; the port allocator hands out blocks of 40
SHAPES_ANY = [(1, 1), (1, 2), (2, 1), (2, 2), (2, 1), (3, 1), (1, 3), (2, 3), (3, 2)]
THEMES = ("three-hosts", "four-hosts", "gpu", "serde", "wide-gpu", "chain", "many-pos", "nd-replicated", "big-values", "slow-bodies", "zero-length")


def gen_spec(rng, dense=False, theme=None):
    """One random job + cluster shape. `dense`: 4-7 tasks, the features the quick tier must not miss are forced
    (multi-output generator source, further source tasks, keyword edge into a defaulted parameter, >=2 positional
    edges from different tasks, >=2 workers in total), every sink task's outputs requested.
    `theme`: three-hosts (3 hosts x 1-3 workers) | gpu (CASCADE_GPU_COUNT set, some tasks need a GPU) | serde (the job
    registers a custom serde, Box / ndarray / bytes values) | wide-gpu (1 host x 11-13 GPU workers, one GPU task for each)
    | chain (a linear chain on one host: every intermediate is purged while later tasks still run) | four-hosts (4 hosts x 1-2
    workers, 3*workers+1.. sources) | many-pos | nd-replicated | big-values (values of 64 KiB .. 2 MiB) | slow-bodies (bodies that
    take 0.2-1.5 s) -- see _gen_manypos, _gen_ndrep, _gen_big, _gen_slow.
    Independently of the theme any job may draw GPU needs, rich values and the serde with a small probability."""
    if theme == "wide-gpu":
        return _gen_wide(rng)
    if theme == "chain":
        return _gen_chain(rng)
    if theme == "many-pos":
        return _gen_manypos(rng)
    if theme == "nd-replicated":
        return _gen_ndrep(rng)
    if theme == "big-values":
        return _gen_big(rng)
    if theme == "slow-bodies":
        return _gen_slow(rng)
    if theme == "zero-length":
        return _gen_zero(rng)
    three = theme == "three-hosts"
    four = theme == "four-hosts"
    if dense:
        hosts, workers = rng.choice(SHAPES_4H if four else SHAPES_3H if three else SHAPES_DENSE)
        n = 0                             # set below, from the number of forced sources
    else:
        n = rng.choice([2, 3, 3, 4, 4, 5, 5, 6, 6])
        hosts, workers = rng.choice(SHAPES_4H if four else SHAPES_3H if three else SHAPES_ANY)
    serdes = theme == "serde" or rng.random() < 0.25
    rich = theme == "serde" or rng.random() < 0.3
    gpus = None
    if theme == "gpu":
        hosts, workers = rng.choice([(1, 2), (1, 3), (2, 2), (2, 3), (2, 2)])
        gpus = rng.randint(1, workers)
        nsrc = 2
    elif rng.random() < 0.2:
        gpus = rng.randint(1, workers)
    rets = RETS + (RETS_RICH if rich else ()) + (("box", "box", "tbox") if serdes else ())
    # one host's workers take every source of a component they can: a second host joins in (and inter-host transfers happen)
    # only when more tasks are computable at once than one host has workers -> workers + 1 sources on several hosts
    nsrc = max(2, min(workers + 1, 4)) if hosts > 1 else 2
    if four:
        nsrc = 3 * workers + 1 + rng.choice([0, 1])       # more sources at once than THREE hosts have workers: the fourth host joins in
    if dense:
        n = nsrc + rng.choice([2, 3, 4] if nsrc < 4 else [2, 3])
    elif four:
        n = nsrc + rng.choice([2, 3])
    perm = list(range(n))
    rng.shuffle(perm)                     # topological order != order of the names
    names = [f"t{p}" for p in perm]
    if rng.random() < 0.3:
        i = rng.randrange(n)
        names[i] = names[i] + ".v"        # dotted task name (DatasetId repr is "<task>.<output>")
    force = {}
    if dense:
        force = {0: "gen-src", nsrc: "kw-default", nsrc + 1: "pos2"}
        force.update({i: "src" for i in range(1, nsrc)})
    tasks, up, consumed = [], [], {}
    for i in range(n):
        t = _gen_task(rng, names[i], up, consumed, force.get(i), rets)
        if gpus is not None and rng.random() < (0.5 if theme == "gpu" else 0.35):
            t["gpu"] = True
        tasks.append(t)
        up += [(t["name"], o, j == len(t["outs"]) - 1) for j, o in enumerate(t["outs"])]
    if theme == "gpu" and not any(t.get("gpu") for t in tasks):
        rng.choice(tasks)["gpu"] = True
    if theme == "serde" and not any(t["ret"] == "box" for t in tasks):
        tasks[0]["ret"] = "box"           # the generator source: several Boxes, consumed downstream
    if theme == "serde" and len(tasks) > 1 and not any(t["ret"] == "tbox" for t in tasks):
        tasks[1]["ret"] = "tbox"          # a picklable SUBCLASS of the type the serde is registered for
    if theme == "serde" and not any(t["ret"] == "nd" for t in tasks):
        tasks[1]["ret"] = "nd"
    has_consumer = {t for (t, _o) in consumed}
    ext = []
    for t, o, _last in up:
        if dense and t not in has_consumer:
            ext.append([t, o])
        elif rng.random() < (0.3 if dense else 0.4):
            ext.append([t, o])
    if not ext:
        ext.append(list(rng.choice(up)[:2]))
    rng.shuffle(ext)
    spec = {"tasks": tasks, "ext": ext, "hosts": hosts, "workers": workers}
    if gpus is not None:
        spec["gpus"] = gpus
    if serdes:
        spec["serdes"] = True
    if theme:
        spec["theme"] = theme
    return spec


def _gen_wide(rng):
    """1 host x W workers (W = 11..13, every one a GPU worker), W..W+2 independent GPU source tasks and one GPU join that
    consumes an output of every one of them (ONE component: all sources are computable at once and every worker gets one):
    worker numbers with two digits, devices 10.."""
    w = rng.choice([11, 12, 13])
    n = w + rng.randint(0, 2)
    tasks, up, consumed = [], [], {}
    for i in range(n):
        t = _gen_task(rng, f"g{i}", [], consumed, "src", ("int", "str", "int"))
        t["gpu"] = True
        tasks.append(t)
        up.append((t["name"], rng.choice(t["outs"])))
    join = {"name": "join", "ret": rng.choice(["int", "str"]), "outs": [DEFAULT_OUT], "gpu": True,
            "params": [{"n": f"p{j}", "kind": "pos"} for j in range(n)],
            "bind": [{"src": list(up[j]), "p": f"p{j}", "how": "pos", "idx": j} for j in range(n)]}
    tasks.append(join)
    ext = [["join", DEFAULT_OUT]] + [list(d) for d in rng.sample(up, 2)]
    return {"tasks": tasks, "ext": ext, "hosts": 1, "workers": w, "gpus": w, "theme": "wide-gpu"}


def _gen_chain(rng):
    """A linear chain c0 -> c1 -> ... of 5-7 single-output tasks on ONE host (1-2 workers), only the end requested: the
    controller purges c(k-2)'s output while c(k) runs, so every task from the fourth on starts after purges of datasets
    its worker had been told about."""
    n = rng.choice([5, 6, 7])
    tasks = []
    for i in range(n):
        params = [{"n": "a", "kind": "pos"}] if i else []
        bind = [{"src": [f"c{i - 1}", DEFAULT_OUT], "p": "a", "how": "pos", "idx": 0}] if i else []
        if rng.random() < 0.5:
            params.append({"n": "k", "kind": "def", "default": _rand_value(rng)})
        tasks.append({"name": f"c{i}", "ret": rng.choice(["int", "str", "tuple"]), "outs": [DEFAULT_OUT], "params": params, "bind": bind})
    return {"tasks": tasks, "ext": [[f"c{n - 1}", DEFAULT_OUT]], "hosts": 1, "workers": rng.choice([1, 1, 2]), "theme": "chain"}


def _gen_manypos(rng):
    """Tasks called with 11-13 POSITIONAL arguments (positions with two digits: "10" < "2" as strings): polyA gets all of
    them as statics (TaskBuilder.with_values(*args)); polyB has one position below 10 and (when it has 12-13) one from 10 on
    fed by edges, statics everywhere else, at least one static at a position >= 10. No two static values of a task are
    equal and the result is injective in (parameter name, value), so statics bound in any other order than the numeric
    one change the requested values."""
    def statics(n):
        pool = rng.sample(range(-50, 100), n)
        return [v if rng.random() < 0.6 else f"s{v}" for v in pool]
    rets = ("str", "tuple", "int")
    na, nb = rng.choice([11, 12, 13]), rng.choice([11, 12, 13])
    u = _gen_task(rng, "u", [], {}, "src", ("int", "str"))
    va = statics(na)
    poly_a = {"name": "polyA", "ret": rng.choice(rets), "outs": [DEFAULT_OUT],
              "params": [{"n": f"p{j}", "kind": "pos"} for j in range(na)],
              "bind": [{"val": va[j], "p": f"p{j}", "how": "pos", "idx": j} for j in range(na)]}
    edges = {rng.randrange(0, 10): ["polyA", DEFAULT_OUT]}
    if nb >= 12 and rng.random() < 0.6:
        edges[rng.randrange(10, nb - 1)] = ["u", rng.choice(u["outs"])]        # position nb-1 stays static
    else:
        edges[rng.choice([j for j in range(0, 10) if j not in edges])] = ["u", rng.choice(u["outs"])]
    vb = statics(nb)
    poly_b = {"name": "polyB", "ret": rng.choice(rets), "outs": [DEFAULT_OUT],
              "params": [{"n": f"p{j}", "kind": "pos"} for j in range(nb)],
              "bind": [dict({"src": edges[j]} if j in edges else {"val": vb[j]}, p=f"p{j}", how="pos", idx=j) for j in range(nb)]}
    tail = {"name": "tail", "ret": rng.choice(rets), "outs": [DEFAULT_OUT], "params": [{"n": "a", "kind": "pos"}],
            "bind": [{"src": ["polyB", DEFAULT_OUT], "p": "a", "how": "pos", "idx": 0}]}
    ext = [["polyA", DEFAULT_OUT], ["polyB", DEFAULT_OUT], ["tail", DEFAULT_OUT]]
    rng.shuffle(ext)
    hosts, workers = rng.choice([(1, 1), (1, 2), (2, 1)])
    return {"tasks": [u, poly_a, poly_b, tail], "ext": ext, "hosts": hosts, "workers": workers, "theme": "many-pos"}


def _gen_ndrep(rng):
    """Requested outputs whose VALUE is an ndarray of several elements and which are ALSO consumed on another host
    (replication + fetch of the same dataset): 2-3 hosts x 1 worker, one array-valued source per host (all requested), and
    joins that each consume two of them in different orders -- wherever a join is placed, an array the caller asked for
    travels host-to-host while its value is fetched (or has been delivered) to the controller. A controller that looks at a
    delivered value with ==/!= instead of identity meets an element-wise comparison here."""
    hosts = rng.choice([2, 2, 3])
    ns = hosts + rng.choice([0, 0, 1])
    tasks, up = [], []
    for i in range(ns):
        t = {"name": f"a{i}", "ret": "ndm", "outs": [DEFAULT_OUT], "params": [{"n": "k", "kind": "def", "default": rng.randint(0, 99)}], "bind": []}
        if rng.random() < 0.5:
            t["bind"].append({"val": rng.randint(100, 199), "p": "k", "how": "kw"})
        tasks.append(t)
        up.append([t["name"], DEFAULT_OUT])
    nj = rng.choice([2, 3])
    for j in range(nj):
        x, y = up[j % ns], up[(j + 1) % ns]
        if j % 2:
            x, y = y, x
        tasks.append({"name": f"j{j}", "ret": rng.choice(["str", "tuple", "ndm"]), "outs": [DEFAULT_OUT],
                      "params": [{"n": "a", "kind": "pos"}, {"n": "b", "kind": "pos"}],
                      "bind": [{"src": x, "p": "a", "how": "pos", "idx": 0}, {"src": y, "p": "b", "how": "pos", "idx": 1}]})
    ext = [list(d) for d in up] + [[f"j{j}", DEFAULT_OUT] for j in range(nj) if rng.random() < 0.7]
    rng.shuffle(ext)
    return {"tasks": tasks, "ext": ext, "hosts": hosts, "workers": 1, "theme": "nd-replicated"}


def _gen_big(rng):
    """The value-SIZE class: every value of the job is a `bytes` or an ndarray of 64 KiB .. 2 MiB (everything else in this module
    stays below ~1 KiB) -- but for the first source, whose value has 8 .. 24 MiB (more than a socket buffer holds).
    2-3 hosts x 1 worker, one big source per host (bytes and arrays alternate; all requested: fetched by
    the controller), joins that each consume two sources placed on different hosts (the big value travels host-to-host and is
    then held by two hosts: replicated) and return a big value again (requested too) or a short string over the digests of what
    they were given; one source is consumed by two joins (the same big dataset transferred / read more than once)."""
    hosts = rng.choice([2, 2, 3])
    ns = hosts + rng.choice([0, 1])
    kinds = ["bigbytes", "bignd"]
    rng.shuffle(kinds)
    tasks, up = [], []
    for i in range(ns):
        t = {"name": f"b{i}", "ret": kinds[i % 2] if i else rng.choice(["hugebytes", "hugend"]), "outs": [DEFAULT_OUT], "params": [{"n": "k", "kind": "def", "default": rng.randint(0, 99)}], "bind": []}
        if rng.random() < 0.5:
            t["bind"].append({"val": rng.randint(100, 199), "p": "k", "how": "kw"})
        tasks.append(t)
        up.append([t["name"], DEFAULT_OUT])
    nj = rng.choice([2, 3])
    jk = ["bigbytes", "bignd", "str"]
    rng.shuffle(jk)
    for j in range(nj):
        x, y = up[j % ns], up[(j + 1) % ns]
        if j % 2:
            x, y = y, x
        how_y = rng.choice(["pos", "kw"])
        tasks.append({"name": f"w{j}", "ret": jk[j], "outs": [DEFAULT_OUT],
                      "params": [{"n": "a", "kind": "pos"}, {"n": "b", "kind": "pos"}],
                      "bind": [{"src": x, "p": "a", "how": "pos", "idx": 0}, dict({"src": y, "p": "b", "how": how_y}, **({"idx": 1} if how_y == "pos" else {}))]})
    ext = [list(d) for d in up] + [[f"w{j}", DEFAULT_OUT] for j in range(nj)]
    rng.shuffle(ext)
    return {"tasks": tasks, "ext": ext, "hosts": hosts, "workers": 1, "theme": "big-values"}


def _gen_zero(rng):
    """The ZERO-LENGTH class: task results without a byte / an element -- b"", "", (), [], np.zeros(0), an array of shape (0, 3) -- and
    a 0-d array, each REQUESTED by the caller and CONSUMED on another host: 2-3 hosts x 1 worker, 3-5 sources with distinct such
    results (the first one a 2-output generator of two of them), as many joins as source outputs, each over two of them, that return the rendering of what
    they were given (type, dtype and shape are part of it) or a zero-length value again; everything requested. A store / transport
    that cannot hold 0 bytes, a `if value:` instead of `is not None`, a truth value of an empty array meet their input here."""
    hosts = rng.choice([2, 2, 3])
    ns = rng.choice([3, 4, 5])
    kinds = list(ZERO_KINDS)
    rng.shuffle(kinds)
    if "zbytes" not in kinds[:ns + 1]:
        kinds[rng.randrange(ns + 1)] = "zbytes"
    tasks, up = [], []
    for i in range(ns):
        t = {"name": f"z{i}", "ret": kinds[i], "outs": [DEFAULT_OUT], "params": [{"n": "k", "kind": "def", "default": rng.randint(0, 99)}], "bind": []}
        if i == 0:
            t["outs"] = list(rng.choice(OUT_NAMES[2]))
            t["rets"] = [kinds[0], kinds[ns]]           # a generator: one zero-length kind per output
        tasks.append(t)
        up += [[t["name"], o] for o in t["outs"]]
    nj = len(up)                                   # every source output is consumed (twice: as `a` of one join, as `b` of another)
    jr = ["str", "tuple"] + [rng.choice(ZERO_KINDS + ("str",)) for _ in range(nj - 2)]
    rng.shuffle(jr)
    for j in range(nj):
        x, y = up[j % len(up)], up[(j + 2) % len(up)]
        if j % 2:
            x, y = y, x
        how_y = rng.choice(["pos", "kw"])
        tasks.append({"name": f"y{j}", "ret": jr[j], "outs": [DEFAULT_OUT],
                      "params": [{"n": "a", "kind": "pos"}, {"n": "b", "kind": "pos"}],
                      "bind": [{"src": x, "p": "a", "how": "pos", "idx": 0}, dict({"src": y, "p": "b", "how": how_y}, **({"idx": 1} if how_y == "pos" else {}))]})
    ext = [list(d) for d in up] + [[f"y{j}", DEFAULT_OUT] for j in range(nj)]
    rng.shuffle(ext)
    return {"tasks": tasks, "ext": ext, "hosts": hosts, "workers": 1, "theme": "zero-length"}


def _gen_slow(rng):
    """The body-DURATION class: every task body takes 0.2-1.5 s of wall clock in its worker (time.sleep inside the body; every
    other family's bodies return at once), so that tasks are still running while the executors' heartbeats, the Bridge's resend /
    grace timers and the 1 s linger of the worker -> executor sockets come due, results arrive seconds apart, and hosts idle
    while others work. 2 hosts x 1-2 workers, workers+1 sources, 2-3 joins over two sources each, one tail; the longest path
    sleeps <= 3.5 s."""
    hosts, workers = rng.choice([(2, 1), (2, 2), (2, 1), (3, 1)])
    ns = workers + 1 + rng.choice([0, 1])
    rets = ("int", "str", "tuple", "nd", "bytes")

    def nap(lo, hi):
        return round(rng.uniform(lo, hi), 2)
    tasks, up = [], []
    for i in range(ns):
        t = _gen_task(rng, f"s{i}", [], {}, "src", rets)
        t["sleep"] = nap(0.2, 1.5)
        tasks.append(t)
        up.append([t["name"], rng.choice(t["outs"])])
    nj = rng.choice([2, 3])
    for j in range(nj):
        x, y = up[j % ns], up[(j + 1) % ns]
        how_y = rng.choice(["pos", "kw"])
        tasks.append({"name": f"m{j}", "ret": rng.choice(rets), "outs": [DEFAULT_OUT], "sleep": nap(0.2, 1.2),
                      "params": [{"n": "a", "kind": "pos"}, {"n": "b", "kind": "pos"}],
                      "bind": [{"src": x, "p": "a", "how": "pos", "idx": 0}, dict({"src": y, "p": "b", "how": how_y}, **({"idx": 1} if how_y == "pos" else {}))]})
    tasks.append({"name": "tail", "ret": rng.choice(rets), "outs": [DEFAULT_OUT], "sleep": nap(0.2, 0.8),
                  "params": [{"n": f"p{j}", "kind": "pos"} for j in range(nj)],
                  "bind": [{"src": [f"m{j}", DEFAULT_OUT], "p": f"p{j}", "how": "pos", "idx": j} for j in range(nj)]})
    ext = [["tail", DEFAULT_OUT]] + [list(d) for d in up if rng.random() < 0.5] + [[f"m{j}", DEFAULT_OUT] for j in range(nj) if rng.random() < 0.4]
    rng.shuffle(ext)
    return {"tasks": tasks, "ext": ext, "hosts": hosts, "workers": workers, "theme": "slow-bodies"}


def ambiguate(spec, rng):
    """Rename two tasks and one output of each so that task-name + output-name of two DIFFERENT datasets is the same
    string ("q"+"xy" == "qx"+"y"): every per-dataset key the implementation derives from the two names must still differ."""
    ts = spec["tasks"]
    if len(ts) < 2:
        return spec
    i, j = rng.sample(range(len(ts)), 2)
    ren_t = {ts[i]["name"]: "q", ts[j]["name"]: "qx"}
    oi, oj = rng.randrange(len(ts[i]["outs"])), rng.randrange(len(ts[j]["outs"]))
    ren_o = {(ts[i]["name"], ts[i]["outs"][oi]): "xy", (ts[j]["name"], ts[j]["outs"][oj]): "y"}

    def ds(t, o):
        return [ren_t.get(t, t), ren_o.get((t, o), o)]
    for t in ts:
        for b in t["bind"]:
            if "src" in b:
                b["src"] = ds(*b["src"])
    spec["ext"] = [ds(t, o) for t, o in spec["ext"]]
    for t in ts:
        t["outs"] = [ren_o.get((t["name"], o), o) for o in t["outs"]]
        t["name"] = ren_t.get(t["name"], t["name"])
    if rng.random() < 0.6:
        spec["hosts"] = 1                 # both datasets in one host's store for sure
        spec["workers"] = max(spec["workers"], 2) if rng.random() < 0.5 else spec["workers"]
    spec["ambiguous_names"] = True
    return spec


def features(spec):
    """what the case exercises (for the printed distribution / nontriviality)"""
    f = set()
    srcs = {}
    for t in spec["tasks"]:
        defaults = {p["n"] for p in t["params"] if "default" in p}
        npe = 0
        for b in t["bind"]:
            if "src" in b:
                srcs[tuple(b["src"])] = srcs.get(tuple(b["src"]), 0) + 1
                if b["how"] == "kw":
                    f.add("kw-edge")
                    if b["p"] in defaults:
                        f.add("kw-edge-into-default")
                else:
                    npe += 1
                    f.add("pos-edge")
            else:
                f.add("static-" + b["how"])
                if b["how"] == "kw" and b["p"] in defaults:
                    f.add("static-kw-overrides-default")
        if npe >= 2:
            f.add("pos-edges>=2")
        npos = sum(1 for b in t["bind"] if b["how"] == "pos")
        if npos >= 11:
            f.add("positional-arguments>=11")
            if any(b["how"] == "pos" and "src" in b for b in t["bind"]):
                f.add("positional-arguments>=11-some-fed-by-edges")
        if any(b["how"] == "pos" and "val" in b and any(c["how"] == "pos" and "src" in c and c["idx"] < b["idx"] for c in t["bind"]) for b in t["bind"]):
            f.add("static-pos-after-edge")
        if defaults - {b["p"] for b in t["bind"]}:
            f.add("default-left")
        if len(t["outs"]) > 1:
            f.add("multi-output")
            if t["outs"] != sorted(t["outs"]):
                f.add("outputs-declared-unsorted")
        if "." in t["name"]:
            f.add("dotted-task-name")
        if t.get("gpu"):
            f.add("gpu-task")
        if t["ret"] == "ndm":
            f.add("value-nd")
            f.add("value-nd-with-2-or-more-elements")
            if [t["name"]] in [e[:1] for e in spec["ext"]] and any("src" in b and tuple(b["src"])[0] == t["name"] for u in spec["tasks"] for b in u["bind"]):
                f.add("requested-nd-value-consumed-downstream")
        if t["ret"] in ("hugebytes", "hugend"):
            f.add("value-8MiB..24MiB")
            f.add("value-" + t["ret"])
        if t["ret"] in ("bigbytes", "bignd"):
            f.add("value-64KiB..2MiB")
            f.add("value-" + t["ret"])
            if [t["name"]] in [e[:1] for e in spec["ext"]]:
                f.add("value-64KiB..2MiB-requested")
            if any("src" in b and tuple(b["src"])[0] == t["name"] for u in spec["tasks"] for b in u["bind"]):
                f.add("value-64KiB..2MiB-consumed-downstream")
        for r in (t.get("rets") or [t["ret"]]):
            if r in ZERO_KINDS:
                f.add("value-zero-length" if r != "nd0" else "value-nd-0-d")
                f.add("value-" + r)
        if t.get("sleep"):
            f.add("body-takes-0.2-1.5s")
        if t["ret"] in ("nd", "bytes", "box", "tbox"):
            f.add("value-" + t["ret"])
            if any("src" in b and tuple(b["src"])[0] == t["name"] for u in spec["tasks"] for b in u["bind"]):
                f.add("value-" + t["ret"] + "-consumed-downstream")
    if spec.get("serdes"):
        f.add("job-registers-serde")
    if spec.get("gpus") is not None:
        f.add("gpu-count-set")
    if spec.get("theme"):
        f.add("theme-" + spec["theme"])
    outs = {t["name"]: t["outs"] for t in spec["tasks"]}
    if any(o != outs[t][-1] and len(outs[t]) > 1 for (t, o) in srcs):
        f.add("consumer-of-non-last-output")
    if any(c >= 2 for c in srcs.values()):
        f.add("fan-out")
    if any(tuple(e) in srcs for e in spec["ext"]):
        f.add("ext-non-sink")
    if len(spec["ext"]) < sum(len(o) for o in outs.values()):
        f.add("ext-proper-subset")
    return sorted(f)


# ----------------------------------------------------------------------------- spec -> JobInstance (project's own builders)

def func_source(t):
    sig, star = [], False
    for p in t["params"]:
        if p["kind"] in ("kwreq", "kwdef") and not star:
            sig.append("*")
            star = True
        sig.append(p["n"] if "default" not in p else f"{p['n']}={_dec_static(p['default'])!r}")
    bound = "[" + ", ".join(f"({p['n']!r}, {p['n']})" for p in t["params"]) + "]"
    ann = {"int": " -> int", "str": " -> str", "tuple": " -> tuple", "bytes": " -> bytes"}.get(t["ret"], "") if len(t["outs"]) == 1 else ""
    nap = f"    _nap({float(t['sleep'])!r})\n" if t.get("sleep") else ""
    if len(t["outs"]) == 1:
        body = f"    _trace({t['name']!r})\n{nap}    return _val({t['ret']!r}, {t['name']!r}, 0, {bound})\n"
    else:
        rets = t.get("rets") or [t["ret"]] * len(t["outs"])
        body = f"    _trace({t['name']!r})\n{nap}    _b = {bound}\n    for _i, _r in enumerate({list(rets)!r}):\n        yield _val(_r, {t['name']!r}, _i, _b)\n"
    return f"def f({', '.join(sig)}){ann}:\n{body}"


def make_func(t):
    g = {"__name__": "c01_generated", "_val": _val, "_trace": _trace, "_nap": _nap}
    exec(func_source(t), g)
    return g["f"]


def make_job(spec):
    """-> (JobInstance, {task: callable}); built with TaskBuilder.from_callable / JobBuilder of the tree under test."""
    from cascade.low.builders import JobBuilder, TaskBuilder
    from cascade.low.core import DatasetId
    jb = JobBuilder()
    funcs = {}
    for t in spec["tasks"]:
        f = make_func(t)
        funcs[t["name"]] = f
        tb = TaskBuilder.from_callable(f)          # defaults become static keyword inputs here
        kw = {b["p"]: _dec_static(b["val"]) for b in t["bind"] if b["how"] == "kw" and "val" in b}
        ps = {str(b["idx"]): _dec_static(b["val"]) for b in t["bind"] if b["how"] == "pos" and "val" in b}
        if kw:
            tb = tb.with_values(**kw)
        if ps and sorted(ps, key=int) == [str(i) for i in range(len(ps))]:
            tb = tb.with_values(*[ps[str(i)] for i in range(len(ps))])
        elif ps:
            tb = tb.model_copy(update={"static_input_ps": ps})
        if list(tb.definition.output_schema) != t["outs"]:
            tb = tb.model_copy(update={"definition": tb.definition.model_copy(update={"output_schema": {o: "Any" for o in t["outs"]}})})
        if t.get("gpu"):
            tb = tb.model_copy(update={"definition": tb.definition.model_copy(update={"needs_gpu": True})})
        jb = jb.with_node(t["name"], tb)
    for t in spec["tasks"]:
        for b in t["bind"]:
            if "src" in b:
                jb = jb.with_edge(b["src"][0], t["name"], b["idx"] if b["how"] == "pos" else b["p"], b["src"][1])
    job = jb.build().get_or_raise()
    job.ext_outputs = [DatasetId(t, o) for t, o in spec["ext"]]
    if spec.get("serdes"):
        from cascade.low.core import type_enc
        job.serdes = {type_enc(Box): (MOD + ".ser_box", MOD + ".des_box")}
    return job, funcs


# ----------------------------------------------------------------------------- reference: sequential interpreter

def seq_eval(job, funcs):
    """Sequential denotation of a JobInstance: {(task, output): value}. Written from the JobInstance semantics
    (static inputs, then upstream values by position / keyword, generator results bound in declaration order)."""
    vals, done = {}, set()
    ins = {t: [e for e in job.edges if e.sink_task == t] for t in job.tasks}
    while len(done) < len(job.tasks):
        ready = [t for t in job.tasks if t not in done and all(e.source.task in done for e in ins[t])]
        if not ready:
            raise ValueError("job is not a DAG")
        for t in ready:
            inst = job.tasks[t]
            args = {int(i): v for i, v in inst.static_input_ps.items()}
            kwargs = dict(inst.static_input_kw)
            for e in ins[t]:
                v = vals[(e.source.task, e.source.output)]
                if e.sink_input_kw is not None:
                    kwargs[e.sink_input_kw] = v
                else:
                    args[e.sink_input_ps] = v
            res = funcs[t](*[args[i] for i in range(len(args))], **kwargs)
            names = list(inst.definition.output_schema)
            res = [res] if len(names) == 1 else list(res)
            if len(res) != len(names):
                raise ValueError(f"{t}: {len(res)} results for {len(names)} outputs")
            vals.update({(t, o): v for o, v in zip(names, res)})
            done.add(t)
    return vals


def reference(spec):
    job, funcs = make_job(spec)
    ref = seq_eval(job, funcs)
    return {f"{t}|{o}": enc(ref[(t, o)]) for t, o in spec["ext"]}


# ----------------------------------------------------------------------------- runner (subprocess)

def _launch_executor(job, controller_address, workers, port_base, host, pidq):
    """Harness-side executor launcher (forked from the runner): the real Executor; records the pids of the worker
    processes it started (which pid is which worker is the executor's own business: `Executor.workers`)."""
    import logging
    logging.disable(logging.CRITICAL)
    from cascade.executor.executor import Executor
    ex = Executor(job, controller_address, workers, host, port_base, None)
    pidq.put((host, {"exec": os.getpid(), "daddress": str(getattr(ex, "daddress", ""))}))
    ex.register()
    try:
        rec = {"host": host, "exec": os.getpid(), "workers": {repr(w): (p.pid if p is not None else None) for w, p in ex.workers.items()},
               "order": [repr(w) for w in ex.workers]}
        tmp = os.path.join(TRACE_DIR, f".exec.{host}.tmp")
        with open(tmp, "w") as f:
            json.dump(rec, f)
        os.rename(tmp, os.path.join(TRACE_DIR, f"exec.{host}.json"))
    except Exception:
        pass
    ex.recv_loop()


INFRA_ERRNOS = ("EAGAIN", "ENOMEM", "EMFILE", "ENFILE", "EADDRINUSE", "EADDRNOTAVAIL", "ENOSPC", "ENOBUFS", "EINTR")
REPO_STEPS = ("import", "make_job", "precompute", "bridge", "environment")     # set-up steps that run code of the tree under test in the runner itself


def _repo_src():
    """<clone>/src of the tree under test, as the runner imports it"""
    try:
        import cascade
        return os.path.dirname(os.path.dirname(os.path.realpath(cascade.__file__)))
    except Exception:
        return None


def _setup_exc_info(e, step):
    """An exception that ended the runner's SET-UP phase -> what decides whether it is a verdict about the tree or trouble of
    the machine: the step, the Python frames of its traceback that lie under <clone>/src, where it was raised, and whether its
    type / errno is one that the machine produces (cannot fork, no memory / descriptors / port, a time-out of the harness)."""
    import errno as _errno
    import queue
    import traceback
    root = _repo_src()
    try:
        frames = [(os.path.realpath(f.filename), f.lineno, f.name) for f in traceback.extract_tb(e.__traceback__)]
    except Exception:
        frames = []
    here = os.path.realpath(__file__)
    rel = [(fn[len(root) + 1:] if root and fn.startswith(root + os.sep) else fn, ln, name) for fn, ln, name in frames]
    in_repo = [f"{r[0]}:{r[1]} in {r[2]}" for r, f in zip(rel, frames) if root and f[0].startswith(root + os.sep)]
    site = f"{rel[-1][0]}:{rel[-1][1]} in {rel[-1][2]}" if rel else "?"
    en = getattr(e, "errno", None)
    ename = _errno.errorcode.get(en, str(en)) if isinstance(en, int) else None
    machine = (isinstance(e, (queue.Empty, MemoryError, KeyboardInterrupt, SystemExit, TimeoutError))
               or (isinstance(e, OSError) and ename in INFRA_ERRNOS)
               or (type(e).__name__ == "ZMQError" and ename in INFRA_ERRNOS)
               or (isinstance(e, RuntimeError) and str(e).startswith("start-up:") and bool(frames) and frames[-1][0] == here))
    return {"step": step, "type": type(e).__name__, "errno": ename, "machine": bool(machine), "in_repo": in_repo[-6:], "site": site,
            "site_in_repo": bool(frames) and bool(root) and frames[-1][0].startswith(root + os.sep),
            "tail": [f"{r[0]}:{r[1]} in {r[2]}" for r in rel[-4:]]}


def runner_main(case):
    """Runs in the subprocess (`python -m ekw.c01_real <case json>`): executors (fork), Bridge, controller.impl.run."""
    import logging
    import socket
    import warnings
    global TRACE_DIR
    warnings.filterwarnings("ignore")
    logging.disable(logging.CRITICAL)
    from multiprocessing import get_context
    from ekw import c05_cluster as cl
    t0 = time.time()
    out = {"ended": None, "error": None, "outputs": {}, "phase": "setup"}
    spec = case["spec"]
    TRACE_DIR = case.get("trace")
    try:
        # the processes of the cluster (they mostly wait) are scheduled before the machine's batch work when the check may ask for
        # that: below the executor a message that is not handed over within 1 s is lost (comms.callback), and a machine with several
        # runnable processes per core starves a process for longer than that
        os.setpriority(os.PRIO_PROCESS, 0, RUNNER_NICE)
    except (OSError, AttributeError):
        pass

    startup_s = float(case.get("startup_s") or STARTUP_S)
    job_s = float(case.get("job_s") or JOB_S)

    def _startup_timeout():
        # the cluster did not come up (under heavy machine load a forked helper can deadlock in zmq/fork-with-threads): not a
        # verdict about the job -- `run_real` starts the case again; only a cluster that NEVER comes up is reported
        out["ended"] = "infra"
        out["error"] = f"start-up: cluster of {spec['hosts']} host(s) x {spec['workers']} worker(s) not up within {startup_s:.0f} s (phase {out['phase']})"
        cl._emit(out)
        os._exit(0)
    wd = threading.Timer(startup_s, _startup_timeout)
    wd.daemon = True
    wd.start()
    try:
        if spec.get("gpus") is not None:
            os.environ["CASCADE_GPU_COUNT"] = str(spec["gpus"])      # read by every Executor at construction
        else:
            os.environ.pop("CASCADE_GPU_COUNT", None)
        out["step"] = "import"
        from cascade.controller.impl import run
        from cascade.executor.bridge import Bridge
        from cascade.scheduler.graph import precompute
        out["step"] = "make_job"
        job, _ = make_job(spec)
        out["step"] = "precompute"
        pre = precompute(job)
        out["step"] = "fork-executors"
        port, uid = case["port"], case["uid"]
        c = f"tcp://localhost:{port}"
        ctx = get_context("fork")
        pidq = ctx.Queue()
        hosts = [f"{uid}h{i}" for i in range(spec["hosts"])]
        for i, h in enumerate(hosts):
            ctx.Process(target=_launch_executor, args=(job, c, spec["workers"], port + 1 + i * 10, h, pidq)).start()
        pids = {}
        out["step"] = "wait-executors"
        for _ in hosts:
            h, d = pidq.get(timeout=startup_s)
            pids[h] = d
        out["step"] = "data-servers"
        # START-UP gate (as in ekw.c05_cluster): every host's data server listens before the job starts, so that a hang seen
        # after the first task body was entered is never excused as the fork-with-threads start-up deadlock
        for h, d in pids.items():
            addr = d.get("daddress", "")
            if addr.startswith("tcp://"):
                hp = addr[len("tcp://"):].rsplit(":", 1)
                tend, ok = time.time() + 0.75 * startup_s, False
                while time.time() < tend and not ok:
                    try:
                        socket.create_connection((hp[0], int(hp[1])), timeout=1.0).close()
                        ok = True
                    except OSError:
                        time.sleep(0.1)
                if not ok:
                    raise RuntimeError(f"start-up: data server of {h} is not listening on {addr}")
        out["phase"] = out["step"] = "bridge"
        bridge = Bridge(c, len(hosts))
        out["step"] = "environment"
        env_workers = bridge.get_environment().workers
        out["step"] = "wrap"
        try:
            with open(os.path.join(TRACE_DIR, "env.json"), "w") as f:
                json.dump({repr(w): {"gpu": v.gpu, "cpu": v.cpu} for w, v in env_workers.items()}, f)
        except Exception:
            pass

        def _wrap(name, describe):
            orig = getattr(bridge, name)

            def w(*a, **k):
                try:
                    _log_ctrl(dict(describe(*a, **k), cmd=name))
                except Exception:
                    _log_ctrl({"cmd": name})
                return orig(*a, **k)
            setattr(bridge, name, w)
        _wrap("task_sequence", lambda ts: {"worker": repr(ts.worker), "host": ts.worker.host, "tasks": list(ts.tasks), "publish": sorted(_ds(d) for d in ts.publish)})
        _wrap("transmit", lambda ds, source, target: {"ds": _ds(ds), "source": source, "target": target, "idx": bridge.transmit_idx_counter})
        _wrap("fetch", lambda ds, source: {"ds": _ds(ds), "source": source, "idx": bridge.transmit_idx_counter})
        _wrap("purge", lambda host, ds: {"ds": _ds(ds), "host": host})
        _wrap("shutdown", lambda: {})
        _recv = bridge.recv_events

        def recv_events():
            evs = _recv()
            for e in evs:
                try:
                    if hasattr(e, "header"):      # DatasetTransmitPayload: a fetched value
                        _log_ctrl({"cmd": "event", "type": "payload", "ds": _ds(e.header.ds), "idx": getattr(e.header, "confirm_idx", None)})
                    else:                         # DatasetPublished by a worker, or by a data server after a transfer
                        o = e.origin
                        _log_ctrl({"cmd": "event", "type": "published", "ds": _ds(e.ds), "host": o if isinstance(o, str) else o.host,
                                   "worker": None if isinstance(o, str) else repr(o), "idx": e.transmit_idx})
                except Exception:
                    _log_ctrl({"cmd": "event", "type": "?"})
            return evs
        bridge.recv_events = recv_events
        wd.cancel()
        out["phase"] = "run"
        out["t_setup"] = round(time.time() - t0, 2)

        def _job_timeout():
            out["ended"] = "hang"
            out["error"] = f"controller.impl.run did not return within {job_s:.0f} s"
            out["t_run"] = round(time.time() - t1, 2)
            cl._emit(out)
            os._exit(0)
        t1 = time.time()
        wd2 = threading.Timer(job_s, _job_timeout)
        wd2.daemon = True
        wd2.start()
    except BaseException as e:
        # not every exception of the set-up phase is trouble of the machine: make_job / precompute / Bridge(...) are code of the
        # tree under test. What was raised where travels to the check process (run_real decides)
        wd.cancel()
        out["ended"] = "infra"
        out["error"] = f"{type(e).__name__}: {str(e)[:300]}"
        try:
            out["outputs"] = {"values": {}, "setup": _setup_exc_info(e, out.get("step"))}
        except BaseException:
            pass
        cl._emit(out)
        os._exit(0)
    t1 = time.time()
    try:
        state = run(job, bridge, pre)
        wd2.cancel()
        out["ended"] = "ok"
        out["outputs"] = {"values": {f"{k.task}|{k.output}": enc(v) for k, v in state.outputs.items()}}
    except BaseException as e:
        wd2.cancel()
        out["ended"] = "error"
        out["error"] = f"{type(e).__name__}: {str(e)[:300]}"
        out["outputs"] = {"values": {}}
    out["t_run"] = round(time.time() - t1, 2)
    cl._emit(out)
    os._exit(0)


# ----------------------------------------------------------------------------- check-process side

_start_lock = threading.Lock()


class _Gate:
    """First runs of a batch go on side by side (shared); a DECIDING run goes on alone (exclusive): it waits until the runs under
    way have ended and keeps new ones from starting, so that the check does not starve the run that decides a hang verdict."""

    def __init__(self):
        self.c = threading.Condition()
        self.shared, self.excl, self.waiting = 0, False, 0

    def acquire(self, exclusive):
        with self.c:
            if exclusive:
                self.waiting += 1
                while self.excl or self.shared:
                    self.c.wait(1.0)
                self.waiting -= 1
                self.excl = True
            else:
                # side by side: three clusters on a machine that has cores to spare, two when it has more runnable processes than
                # cores, one when it has more than twice as many (seen at 2.5-3.5 per core: three healthy runs side by side each
                # took more than 75 s in controller.impl.run, the same cases 2-10 s alone)
                while self.excl or self.waiting or self.shared >= (3 if (ld := machine_load()) <= 1.0 else 2 if ld <= 2.0 else 1):
                    self.c.wait(1.0)
                self.shared += 1

    def release(self, exclusive):
        with self.c:
            if exclusive:
                self.excl = False
            else:
                self.shared -= 1
            self.c.notify_all()


_gate = _Gate()


def _ncpu():
    try:
        return len(os.sched_getaffinity(0)) or 1
    except Exception:
        return os.cpu_count() or 1


def machine_load():
    """1-minute load average per core available to this process."""
    try:
        return os.getloadavg()[0] / _ncpu()
    except OSError:
        return 0.0


_calm = {"gave_up_at": 0.0}


def wait_for_calm(max_s=CALM_WAIT_S):
    """Re-runs that decide a hang verdict start when the machine is not oversubscribed (the 1-minute load is below the number of
    cores), or after max_s -- after 20 s when such a wait has run out within the last ten minutes (a machine that did not calm down in
    three minutes will not in the next three; the verdict rule for a loaded machine applies then). Returns the seconds waited."""
    t = time.time()
    if t - _calm["gave_up_at"] < 600.0:
        max_s = min(max_s, 20.0)
    while machine_load() > 0.9 and time.time() - t < max_s:
        time.sleep(5.0)
    if machine_load() > 0.9:
        _calm["gave_up_at"] = time.time()
    return round(time.time() - t, 1)


def run_real(spec, deadline_s=DEADLINE_S, settle_s=1.5, job_s=JOB_S, exclusive=False):
    """One real run. Returns c05_cluster's observation dict (ended: ok|error|hang) + "trace" (read_trace) + "stats" +
    "job_started" (a task body was entered). Infrastructure trouble raises InfraError."""
    from ekw import c05_cluster as cl
    from ekw.core import InfraError
    obs, startup_fail, machine_fail = None, [], []
    # patience grows with the attempt: a cluster of 11-13 forked workers needs > 20 s of wall clock when the machine is
    # loaded well beyond its cores (seen: load 20 on 16 cores, three attempts of 20 s each all too short on a healthy tree);
    # a cluster that really cannot come up does not come up in 160 s either
    for _attempt, startup_s in enumerate(STARTUP_LADDER):
        tdir = tempfile.mkdtemp(prefix="c01r_")
        try:
            # run ids / port ranges of c05_cluster derive from (pid, millisecond, call counter): starts of concurrent runs are spaced
            _start_lock.acquire()
            threading.Timer(0.12, _start_lock.release).start()
            _gate.acquire(exclusive)
            try:
                load0 = round(machine_load(), 2)
                obs = cl.run_case({"spec": spec, "trace": tdir, "startup_s": startup_s, "job_s": job_s},
                                  deadline_s=deadline_s + (startup_s - STARTUP_S) + (job_s - JOB_S), settle_s=settle_s, module=MOD)
                obs["load_per_core"] = [load0, round(machine_load(), 2)]
                obs["job_s"] = job_s
                obs["alone"] = bool(exclusive)
            except (OSError, RuntimeError) as e:          # cannot fork / no free port range
                raise InfraError(f"real-cluster run could not be started: {type(e).__name__}: {e}")
            finally:
                _gate.release(exclusive)
            tr = read_trace(tdir)
        finally:
            shutil.rmtree(tdir, ignore_errors=True)
        obs["trace"] = tr
        obs["job_started"] = bool(tr["bodies"])
        obs["stats"] = stats_of(tr)
        if obs["ended"] != "infra":
            obs["startup_retries"] = len(startup_fail)
            return obs
        su = (obs.get("outputs") or {}).get("setup") if isinstance(obs.get("outputs"), dict) else None
        if su and not su.get("machine"):
            # the set-up phase ended with an exception that no machine trouble explains (a KeyError out of precompute, a TypeError
            # out of Bridge.__init__, an AttributeError of the harness on the tree's builders ...): a result of running the tree's
            # code on this case -- ended "error", where "set-up" -- which check_case confirms by running the case once more
            obs.update(ended="error", where="set-up", setup=su, startup_retries=len(startup_fail))
            return obs
        if su:
            machine_fail.append(su)
        if str(obs.get("error") or "").startswith("start-up:"):
            startup_fail.append(f"{obs['error']}; executors that registered their workers: {sorted(tr['execs'])}")
        time.sleep(0.5)
    if len(startup_fail) == len(STARTUP_LADDER):
        # the cluster never came up, four times in a row with growing patience: that is a verdict (e.g. address collisions that only some shapes have)
        obs.update(ended="hang", startup_never=True, error=" || ".join(startup_fail), startup_retries=len(startup_fail))
        return obs
    if (len(machine_fail) == len(STARTUP_LADDER) and all(m.get("in_repo") for m in machine_fail)
            and len({(m.get("type"), m.get("errno"), m.get("step"), tuple(m.get("in_repo") or ())) for m in machine_fail}) == 1):
        # an exception of a kind the machine can produce (errno EADDRINUSE, EMFILE, ...), but raised below the SAME frames of the
        # tree in every one of the attempts, each with a fresh port range and run id: the tree asks for something it cannot have
        su = dict(machine_fail[-1], every_attempt=len(machine_fail))
        obs.update(ended="error", where="set-up", setup=su, startup_retries=len(startup_fail))
        return obs
    raise InfraError(f"real-cluster run could not be set up ({len(STARTUP_LADDER)} attempts): {obs.get('error')}")


def stats_of(tr):
    st = {"sequences": 0, "transmits": 0, "fetches": 0, "purges": 0, "shutdown_calls": 0, "bodies": len(tr["bodies"])}
    key = {"task_sequence": "sequences", "transmit": "transmits", "fetch": "fetches", "purge": "purges", "shutdown": "shutdown_calls"}
    for c in tr["ctrl"]:
        if c.get("cmd") in key:
            st[key[c["cmd"]]] += 1
    return st


def _progress(spec, obs):
    st, tr = obs.get("stats") or {}, obs.get("trace") or {"ctrl": []}
    fetched = {c["ds"] for c in tr["ctrl"] if c.get("cmd") == "fetch"}
    want = {f"{t}|{o}" for t, o in spec["ext"]}
    return (f"job started: {obs.get('job_started')}; {st.get('sequences', 0)} of {len(spec['tasks'])} tasks dispatched, {st.get('bodies', 0)} task bodies entered, "
            f"{st.get('transmits', 0)} transfers, {st.get('purges', 0)} purges and fetches for {len(fetched & want)} of the {len(want)} requested outputs commanded, "
            f"Bridge.shutdown entered: {bool(st.get('shutdown_calls'))}")


def _devices(cuda, gpus):
    """CUDA_VISIBLE_DEVICES -> the set of EXISTING devices (0..gpus-1) the process can use (unset: all of them)"""
    if cuda is None:
        return set(range(gpus))
    out = set()
    for x in str(cuda).split(","):
        x = x.strip()
        if not x.isdigit():
            break                          # CUDA stops at the first entry it cannot parse
        if int(x) < gpus:
            out.add(int(x))
    return out


def judge_trace(spec, tr):
    """Oracle over the trace of one run (any ending); nothing here reads the controller's State.
      * a task body is entered at most once, and in the process of the worker the controller dispatched the task to
        (C02's "dispatched exactly once, to that worker", which only a real cluster can show below the Bridge);
      * a task that needs a GPU runs in a process that can use an existing device, and no other worker of that host that
        ran a GPU task can use the same device ("at most one GPU per task": a device of its own);
      * purges reach the workers: a task body entered after the controller had commanded purge(h, d) -- its task sequence
        was issued later than the purge -- no longer finds d among the datasets its worker believes available on h.
        Commands travel through separate sockets below the executor, so a single stale sighting proves nothing; the
        verdict needs >= 3 sightings in the run with >= 3/4 of them stale;
      * C04's clauses at the real Bridge (commands issued / events returned, in the controller's order): a transfer or fetch names
        a source from which a DatasetPublished had arrived and whose purge had not been commanded; a purge is commanded only
        after every consumer (from the job) has announced all its outputs, after the value of a requested dataset has arrived,
        and not while a transfer / fetch commanded from that host is unanswered."""
    v = []
    info = {"purge_sightings": 0, "purge_stale": 0, "gpu_bodies": 0, "bodies_on_dispatch_worker": 0}
    pid2w = {}
    for h, e in tr["execs"].items():
        for w, pid in (e.get("workers") or {}).items():
            if pid is not None:
                pid2w[pid] = (w, h)
    for b in tr["bodies"]:                                    # launcher record missing (killed before it wrote): the worker's own word
        if b["pid"] not in pid2w and b.get("worker"):
            pid2w[b["pid"]] = (b["worker"], b["worker"].rsplit(".", 1)[0])
    disp, seq_at = {}, {}
    for i, c in enumerate(tr["ctrl"]):
        if c.get("cmd") == "task_sequence":
            for t in c.get("tasks", []):
                disp.setdefault(t, []).append(c["worker"])
                seq_at.setdefault(t, i)
    by_task = {}
    for b in tr["bodies"]:
        by_task.setdefault(b["task"], []).append(b)
    for t, bs in sorted(by_task.items()):
        if len(bs) > 1:
            v.append(("real-cluster-task-ran-twice", f"the body of task {t} was entered {len(bs)} times (processes {[b['pid'] for b in bs]}, workers {[pid2w.get(b['pid'], ('?',))[0] for b in bs]}); "
                                                     f"the controller dispatched it {len(disp.get(t, []))} time(s)"))
        for b in bs:
            w = pid2w.get(b["pid"])
            if w is None or t not in disp:
                continue
            if w[0] in disp[t]:
                info["bodies_on_dispatch_worker"] += 1
            else:
                v.append(("real-cluster-wrong-worker", f"task {t} was dispatched to worker {disp[t]} (Bridge.task_sequence) but its body ran in process {b['pid']} = worker {w[0]}"
                          + (f" (that worker's own entrypoint says it is {b['worker']})" if b.get("worker") else "")))
    # GPU
    gpus = spec.get("gpus")
    gpu_tasks = {t["name"] for t in spec["tasks"] if t.get("gpu")}
    if gpus is not None and gpu_tasks:
        seen = []                                             # (host, pid, worker, task, devices)
        for b in tr["bodies"]:
            if b["task"] in gpu_tasks:
                w = pid2w.get(b["pid"], (b.get("worker") or f"pid{b['pid']}", b.get("ppid")))
                seen.append((w[1], b["pid"], w[0], b["task"], _devices(b.get("cuda"), gpus), b.get("cuda")))
        info["gpu_bodies"] = len(seen)
        for h, pid, w, t, dev, raw in seen:
            if not dev:
                v.append(("real-cluster-gpu-task-without-device", f"task {t} needs a GPU but ran on worker {w} with CUDA_VISIBLE_DEVICES={raw!r}: none of the host's {gpus} device(s) 0..{gpus - 1} is visible there"))
        shared = set()
        for i, (h, pid, w, t, dev, raw) in enumerate(seen):
            for h2, pid2, w2, t2, dev2, raw2 in seen[i + 1:]:
                if h == h2 and pid != pid2 and dev & dev2 and (w, w2) not in shared:
                    shared.add((w, w2))
                    v.append(("real-cluster-gpu-device-shared", f"GPU tasks {t} on worker {w} (CUDA_VISIBLE_DEVICES={raw!r}) and {t2} on worker {w2} (CUDA_VISIBLE_DEVICES={raw2!r}) of one host "
                                                                f"can both use device(s) {sorted(dev & dev2)}: the workers of a host with {gpus} devices do not get a device each"))
    # what crossed the Bridge, in the controller's order (C04's clauses, seen on a real cluster)
    cons = {}                                                 # dataset -> tasks that read it
    nouts = {t["name"]: len(t["outs"]) for t in spec["tasks"]}
    for t in spec["tasks"]:
        for b in t["bind"]:
            if "src" in b:
                cons.setdefault(f"{b['src'][0]}|{b['src'][1]}", set()).add(t["name"])
    ext = {f"{t}|{o}" for t, o in spec["ext"]}
    held, outs_seen, delivered, pending, purged_at = set(), {}, set(), {}, set()
    for c in tr["ctrl"]:
        k = c.get("cmd")
        if k == "event" and c.get("type") == "published":
            held.add((c["host"], c["ds"]))
            if c.get("idx") is None:
                outs_seen.setdefault(c["ds"].split("|", 1)[0], set()).add(c["ds"])
            else:
                pending.pop(c["idx"], None)
        elif k == "event" and c.get("type") == "payload":
            delivered.add(c["ds"])
            pending.pop(c.get("idx"), None)
        elif k in ("transmit", "fetch"):
            info["log_transfers_fetches"] = info.get("log_transfers_fetches", 0) + 1
            if (c["source"], c["ds"]) not in held or (c["source"], c["ds"]) in purged_at:
                v.append(("real-cluster-source-does-not-hold", f"{k} of {c['ds']} commanded from host {c['source']}: " + ("the controller had commanded its purge there before" if (c["source"], c["ds"]) in purged_at
                          else "no DatasetPublished for it from that host had reached the controller")))
            pending[c.get("idx")] = (c["source"], c["ds"], k)
        elif k == "purge":
            info["log_purges"] = info.get("log_purges", 0) + 1
            d, h = c["ds"], c["host"]
            late = sorted(t for t in cons.get(d, ()) if len(outs_seen.get(t, ())) < nouts.get(t, 1))
            if late:
                v.append(("real-cluster-purge-before-consumers-done", f"purge of {d} on {h} commanded while its consumer(s) {late} had not completed (not all of their outputs had been announced to the controller)"))
            if d in ext and d not in delivered:
                v.append(("real-cluster-purge-before-delivered", f"purge of the requested output {d} on {h} commanded before its value had reached the caller (no payload event yet)"))
            un = sorted(f"{kk} #{i}" for i, (src, dd, kk) in pending.items() if src == h and dd == d)
            if un:
                v.append(("real-cluster-purge-while-unanswered", f"purge of {d} on {h} commanded while {un} commanded from that host was still unanswered"))
            purged_at.add((h, d))
    # purges
    stale = []
    for b in tr["bodies"]:
        if "avail" not in b or b["task"] not in seq_at:
            continue
        host = pid2w.get(b["pid"], (None, None))[1] or (b.get("worker") or "").rsplit(".", 1)[0]
        purged = {c["ds"] for c in tr["ctrl"][:seq_at[b["task"]]] if c.get("cmd") == "purge" and c.get("host") == host}
        info["purge_sightings"] += len(purged)
        for d in sorted(purged & set(b["avail"])):
            stale.append((b["task"], b.get("worker"), d))
    info["purge_stale"] = len(stale)
    if len(stale) >= 3 and 4 * len(stale) >= 3 * info["purge_sightings"]:
        v.append(("real-cluster-purge-not-applied", f"{len(stale)} of {info['purge_sightings']} times a task body, dispatched after the controller had commanded the purge of a dataset on its host, "
                                                    f"found that dataset still among those its worker believes available (entrypoint's availab_ds): e.g. task {stale[0][0]} on {stale[0][1]} still sees {stale[0][2]}; "
                                                    "purge commands do not reach the workers"))
    capped, n = [], {}
    for k, w in v:                                            # at most 3 witnesses of a kind per run
        n[k] = n.get(k, 0) + 1
        if n[k] <= 3:
            capped.append((k, w))
    return capped, info


def judge(spec, ref, obs):
    """Oracle from the property text (+ judge_trace). -> list of (kind, what)."""
    shape = f"{spec['hosts']} host(s) x {spec['workers']} worker(s)" + (f", {spec['gpus']} GPU(s) per host" if spec.get("gpus") is not None else "")
    v = []
    if obs.get("startup_never"):
        v.append(("real-cluster-hang", f"the cluster of {shape} did not come up in {len(STARTUP_LADDER)} attempts of {_LADDER_TXT} s: {obs.get('error')}"))
    elif obs["ended"] == "hang":
        v.append(("real-cluster-hang", f"run on {shape}: controller.impl.run did not return within {obs.get('job_s') or JOB_S:.0f} s of its start (cluster start-up took {obs.get('t_setup')} s; {_progress(spec, obs)})"))
    elif obs["ended"] == "error" and obs.get("where") == "set-up":
        su = obs.get("setup") or {}
        v.append(("real-cluster-error", f"setting up the run on {shape} raised {obs.get('error')} in step {su.get('step')} (raised at {su.get('site')}; frames of the tree under test below it: "
                                        f"{su.get('in_repo') or 'none'}" + (f"; errno {su.get('errno')}, the same in each of {su.get('every_attempt')} attempts with fresh ports" if su.get("every_attempt") else "")
                                        + ") although the job builds and evaluates sequentially: no task was dispatched"))
    elif obs["ended"] == "error":
        v.append(("real-cluster-error", f"run on {shape} raised {obs.get('error')} although no task fails under sequential evaluation ({_progress(spec, obs)})"))
    else:
        got = (obs.get("outputs") or {}).get("values", {})
        for key, want in ref.items():
            if got.get(key) is None:
                v.append(("real-cluster-missing-output", f"requested output {key} was not delivered by the run on {shape} (sequential value {want!r}); delivered: {sorted(got)}"))
            elif got[key] != want:
                v.append(("real-cluster-wrong-value", f"requested output {key}: run on {shape} delivered {got[key]!r}, sequential evaluation gives {want!r}"))
    tv, info = judge_trace(spec, obs.get("trace") or {"bodies": [], "ctrl": [], "execs": {}})
    obs["trace_info"] = info
    return v + tv


def summary(obs):
    return dict({k: obs.get(k) for k in ("ended", "error", "t_setup", "t_run", "wall", "job_started", "alive_at_deadline", "stats", "trace_info", "load_per_core", "job_s", "alone", "where", "setup", "startup_retries")},
                delivered=sorted(((obs.get("outputs") or {}).get("values") or {})))


STARVATION_WORDS = ("heartbeat", "timeout", "timed out", "time out", "grace", "exited during", "did not return", "not up within", "temporarily unavailable",
                    "connection", "eagain", "deadline")


def _starvation_explains(kind, error):
    """Can a machine that starves processes for seconds produce this verdict on a healthy tree? A hang: yes (the tree's local
    messaging loses a message that is not handed over within 1 s). An error: only when its text speaks of a heartbeat, a time-out,
    a grace period or a connection; an exception object raised inside the tree's code and reported up (TaskFailure(... detail=
    'TypeError(...)'), DatasetTransmitFailure(... -> BufferError(...)), KeyError ...) is not made by a slow machine."""
    if kind != "real-cluster-error":
        return True
    t = str(error or "").lower()
    return (not t) or any(w in t for w in STARVATION_WORDS)


def check_case(spec, ref=None, deadline_s=DEADLINE_S, on_first=None, confirm=True):
    """run + judge -> (obs, [verdict dict(kind, what, sig)], runs | None).
    Wrong / missing values and the trace verdicts always count (one witness is enough). A hang / error verdict is decided by
    further runs of the same case -- patient (3 x JOB_S), started when the machine is calm (or after CALM_WAIT_S), and alone (_gate):
      * machine NOT loaded (load per core <= 1.0 around the first run and when the deciding run starts):
          shows again in the second run                                         -> reported;
          does not, but the job HAD STARTED in the failing run (a task body entered) -> reported with "reproduced": false;
          does not, and no task body had been entered                            -> dropped (counted): the fork-with-threads
                                                                                    deadlock at cluster start-up is outside C01;
      * machine LOADED, and the verdict is one a starved machine can produce on a healthy tree (_starvation_explains: every hang; an
        error that speaks of heartbeat / time-out / grace / connection): reported only when it shows in the second AND in a third
        deciding run (a deterministic failure always reproduces; the tree's local messaging loses messages when a process is starved
        for a second); clean in either -> dropped, counted. Any other error (an exception of the tree's code reported up) follows the
        rules of the machine that is not loaded.
    The loads and the summaries of all runs go into the replay record.
    An exception out of the SET-UP of a run that is not of a kind the machine produces (run_real) is a real-cluster-error
    where=set-up: reported when a second run raises the same type in the same step, or -- "reproduced": false -- when it was raised by
    a line under <clone>/src or in make_job / precompute (no sockets, no processes); otherwise dropped and counted.
    `confirm=False`: no deciding re-runs of a hang / error (the verdict carries "first_run_only").
    `on_first(kinds)` (used by Batch): called with the hang / error kinds of the first run; when it returns a number n > 0, n OTHER
    cases of the batch have shown the same kind in their first runs, which stands in for the re-run of this one."""
    if ref is None:
        ref = reference(spec)
    # a machine with more runnable processes than cores: the first run gets the patience of the deciding runs at once (a healthy run
    # took 20-45 s in controller.impl.run at 2-3 processes per core, 0.3-6 s on a quiet machine; a deadlock does not end in 75 s either)
    obs = run_real(spec, deadline_s, job_s=RERUN_JOB_S if machine_load() > 1.0 else JOB_S)
    vs = [{"kind": k, "what": w, "sig": {"kind": k}} for k, w in judge(spec, ref, obs)]
    runs = None
    bad = [x for x in vs if x["kind"] in ("real-cluster-hang", "real-cluster-error")]
    if bad and obs.get("startup_never"):
        for x in bad:
            x["sig"] = {"kind": x["kind"], "where": "start-up"}
    elif bad and obs.get("where") == "set-up":
        # an exception out of the tree's code while the run was set up (no machine trouble explains it, see run_real): run once
        # more (fresh ports, fresh run id, same hash seed; no need to wait for a calm machine -- nothing here depends on timing)
        su = obs.get("setup") or {}
        obs2 = run_real(spec, deadline_s)
        su2 = obs2.get("setup") or {}
        runs = [summary(obs), summary(obs2)]
        obs["second_run"] = runs[1]
        again = obs2.get("where") == "set-up" and (su2.get("type"), su2.get("step")) == (su.get("type"), su.get("step"))
        keep = [x for x in vs if x not in bad]
        for x in bad:
            if again:
                x["sig"] = {"kind": x["kind"], "where": "set-up"}
                x["what"] += " [the same exception in the same step on a second run with fresh ports and run id]"
                keep.append(x)
            elif su.get("site_in_repo") or su.get("step") in ("import", "make_job", "precompute"):
                # raised by a line of the tree itself, or in a step that touches neither sockets nor processes
                x["sig"] = {"kind": x["kind"], "where": "set-up", "reproduced": False}
                x["what"] += f" [a second run of the same case ended {runs[1]['ended']}" + (f" ({runs[1]['error']})" if runs[1].get("error") else "") + "]"
                keep.append(x)
            else:
                obs.setdefault("dropped", []).append(x["kind"] + "-in-set-up")
        vs = keep + [{"kind": k, "what": w + " [seen in the second run of the case; its first run raised while it was set up]", "sig": {"kind": k}}
                     for k, w in judge(spec, ref, obs2) if again is False and k not in ("real-cluster-hang", "real-cluster-error") and k not in {y["kind"] for y in keep}]
    elif bad and not confirm:
        # (Batch, after it has two failing inputs) first run only; finish_real decides what becomes of a hang / error seen once
        for x in bad:
            x["sig"] = {"kind": x["kind"], "first_run_only": True}
            x["starvation"] = _starvation_explains(x["kind"], obs.get("error")) or not obs.get("job_started")
        obs["unconfirmed"] = sorted({x["kind"] for x in bad})
    elif bad and on_first is not None and (n_other := on_first({x["kind"] for x in bad})) and max(obs.get("load_per_core") or [0.0]) <= 1.0:
        # (on an oversubscribed machine other cases' first runs prove nothing: the deciding runs below are made)
        for x in bad:
            x["what"] += f" [not run again: {n_other} other case(s) of this batch showed the same verdict in their first run]"
    elif bad:
        # the deciding runs: on a calm machine (or after CALM_WAIT_S), with three times the patience -- a starved process is slow, a
        # deadlocked one stays deadlocked -- and ALONE: no other real run of this check goes on meanwhile (_gate)
        waited = wait_for_calm()
        load_decide = round(machine_load(), 2)
        # more runnable processes than cores around the FIRST run, or still when the deciding run starts
        loaded = max(obs.get("load_per_core") or [0.0]) > 1.0 or load_decide > 1.0
        obs2 = run_real(spec, deadline_s, job_s=RERUN_JOB_S, exclusive=True)
        kinds2 = {k for k, _ in judge(spec, ref, obs2)}
        runs = [summary(obs), summary(obs2)]
        obs["second_run"] = runs[1]
        obs["calm_wait_s"] = waited
        obs["loads"] = {"first_run": obs.get("load_per_core"), "calm_wait_s": waited, "at_second_run": load_decide, "loaded": loaded}
        kinds3 = None
        keep = []
        for x in vs:
            if x not in bad:
                keep.append(x)
            elif loaded and _starvation_explains(x["kind"], obs.get("error")):
                # oversubscribed machine: the tree's local messaging (comms.callback: fresh PUSH socket per message, 1 s linger, no
                # acknowledgement) loses a message when a process is starved for a second, so a healthy tree hangs with noticeable
                # probability per run. A deterministic failure shows in EVERY run: reported only when it shows in the patient second run
                # AND in a patient third one; clean in either -> dropped and counted
                if x["kind"] in kinds2 and kinds3 is None:
                    wait_for_calm()
                    obs["loads"]["at_third_run"] = round(machine_load(), 2)
                    obs3 = run_real(spec, deadline_s, job_s=RERUN_JOB_S, exclusive=True)
                    kinds3 = {k for k, _ in judge(spec, ref, obs3)}
                    runs.append(summary(obs3))
                if x["kind"] in kinds2 and x["kind"] in kinds3:
                    x["what"] += " [machine oversubscribed; the verdict showed again in both patient deciding runs, made while no other run of this check was going on]"
                    keep.append(x)
                else:
                    obs.setdefault("dropped_under_load", []).append(x["kind"])
            elif x["kind"] in kinds2:
                keep.append(x)
            elif obs.get("job_started"):
                # machine not oversubscribed -- or an error that a slow machine does not explain (an exception raised inside a worker, a
                # data server or the controller and reported as such: TaskFailure / DatasetTransmitFailure with the exception in its
                # detail, a KeyError of the controller ...); seen once after the job had started, not seen on the patient re-run:
                # reported as it stands
                x["sig"] = {"kind": x["kind"], "reproduced": False}
                if loaded:
                    x["what"] += " [machine oversubscribed, but the error is an exception of the tree's code that starvation does not explain]"
                x["what"] += f" [the job HAD started; the re-run of the same case ended {runs[1]['ended']}" + (f" ({runs[1]['error']})" if runs[1].get("error") else "") + "]"
                keep.append(x)
            else:
                obs.setdefault("dropped", []).append(x["kind"])
        vs = keep
    if runs is not None:
        obs.setdefault("loads", {"first_run": obs.get("load_per_core")})
    return obs, vs, runs


# ----- the batch of runs of one check: planned from one seed, executed by a few threads while the check goes on

def plan(seed, quick):
    """-> [(seed_i, spec)]: the quick tier runs one case of every family (13); the thorough tier 59 cases (incl. two on 4 hosts)."""
    rng = random.Random(seed)
    if quick:
        fam = [("dense", None), ("dense+ambiguous", None), ("dense", "three-hosts"), ("dense", "gpu"), ("dense", "serde"), ("any", "wide-gpu"), ("any", "chain"), ("any", None),
               ("any", "many-pos"), ("any", "nd-replicated"), ("any", "big-values"), ("any", "slow-bodies"), ("any", "zero-length")]
    else:
        cyc = [("dense", None), ("dense+ambiguous", None), ("dense", "three-hosts"), ("dense", "gpu"), ("dense", "serde"), ("any", "chain"), ("any", None), ("any", "three-hosts"),
               ("dense", None), ("any+ambiguous", None), ("any", "gpu"), ("any", "serde")]
        fam = [cyc[i % len(cyc)] for i in range(40)] + [("any", "wide-gpu"), ("any", "wide-gpu")] + [("any", "many-pos"), ("any", "nd-replicated")] * 3 + [("any", "big-values"), ("any", "slow-bodies"), ("any", "zero-length")] * 3 + [("dense", "four-hosts"), ("any", "four-hosts")]
    out = []
    for kind, theme in fam:
        s = rng.randrange(1 << 30)
        out.append((s, build_spec(s, kind, theme)))
    return out


def build_spec(seed, kind, theme):
    grng = random.Random(seed)
    spec = gen_spec(grng, dense=kind.startswith("dense"), theme=theme)
    if kind.endswith("+ambiguous"):
        spec = ambiguate(spec, grng)
    spec["seed"] = seed
    spec["family"] = kind + ("/" + theme if theme else "")
    spec["hashseed"] = seed % 4294967295      # the scheduler iterates sets of strings: placement is a function of the hash seed
    return spec


class Batch:
    def __init__(self, items, conc=3):
        self.items = list(items)                  # [(seed, spec)]
        # the sequential references are computed here, in the caller's thread (the project's builders run in-process; the
        # threads below only wait for subprocesses and judge)
        self.refs = []
        for _seed, spec in self.items:
            try:
                self.refs.append((True, reference(spec)))
            except Exception as e:
                self.refs.append((False, f"{type(e).__name__}: {str(e)[:300]}"))
        self.results = {}                         # index -> (ref, obs, verdicts, runs) | ("build-error", text) | ("crash", exc)
        self._next = 0
        self.first_bad = {}                       # index -> hang / error kinds its first run showed
        self._lock = threading.Lock()
        self.stop = threading.Event()
        self.t0 = self.t_done = time.time()
        self.threads = [threading.Thread(target=self._work, daemon=True) for _ in range(min(conc, len(self.items)))]
        for th in self.threads:
            th.start()

    def _work(self):
        while True:
            with self._lock:
                i = self._next
                self._next += 1
            if i >= len(self.items):
                self.t_done = time.time()
                return
            seed, spec = self.items[i]
            try:
                ok, ref = self.refs[i]
                if not ok:
                    self.results[i] = ("build-error", ref)
                    continue
                def on_first(kinds, i=i):
                    with self._lock:
                        self.first_bad[i] = set(kinds)
                        n_other = sum(1 for j, k in self.first_bad.items() if j != i and k & set(kinds))
                        if len(self.first_bad) >= 2:
                            self.stop.set()       # two cases with a hang / error in their first run: the cases started from now on get their first run only
                    return n_other
                # no family is skipped because others failed (one broken thing must not hide a second): after two failing inputs the
                # remaining cases still run, once each; what a hang / error seen in such a single run is worth is decided in finish_real
                first_only = self.stop.is_set()
                obs, vs, runs = check_case(spec, ref, on_first=on_first, confirm=not first_only)
                if first_only:
                    obs["first_run_only"] = True
                self.results[i] = (ref, obs, vs, runs)
            except BaseException as e:            # InfraError included: re-raised in the check's own thread
                self.results[i] = ("crash", e)

    def join(self):
        for th in self.threads:
            th.join(len(self.items) * (2 * DEADLINE_S + 60.0))


def start_real(ctx, conc=3):
    """Starts the real-cluster runs of this check in background threads (they mostly wait for subprocesses) and returns at
    once; `finish_real` collects. Seeds derive from the check's seed (VERIF_SEED) without consuming ctx.rng, so the cases of
    the SimBridge part are the same whether or not the real runs take place."""
    seed = int.from_bytes(hashlib.sha256(f"C01-real-{ctx.seed}-{ctx.tier}".encode()).digest()[:6], "big")
    return Batch(plan(seed, ctx.quick), conc)


def _account(ctx, seed, spec, res, deferred=None):
    case = {"real": spec}
    feats = features(spec)
    ctx.case(case, nontrivial=True)
    ctx.count("real:runs")
    ctx.count(f"real:family={spec.get('family')}")
    ctx.count(f"real:shape={spec['hosts']}x{spec['workers']}")
    ctx.count(f"real:hosts={spec['hosts']}")
    ctx.count(f"real:tasks={len(spec['tasks'])}")
    for f in feats:
        ctx.count("real:has:" + f)
    if res[0] == "build-error":
        ctx.violation({"kind": "real-cluster-error", "where": "build"}, case, f"building / evaluating the job with the project's builders raised {res[1]}")
        return None
    ref, obs, vs, runs = res
    ctx.traces += 1
    ctx.count("real:ended=" + obs["ended"])
    st, ti = obs.get("stats") or {}, obs.get("trace_info") or {}
    for k in ("sequences", "transmits", "fetches", "purges", "bodies"):
        ctx.count("real:" + k, st.get(k, 0))
    if st.get("transmits", 0) > 0:
        ctx.count("real:runs-with-inter-host-transfer")
    if st.get("purges", 0) > 0:
        ctx.count("real:runs-with-purge")
    for k in ("purge_sightings", "purge_stale", "gpu_bodies", "bodies_on_dispatch_worker", "log_transfers_fetches", "log_purges"):
        ctx.count("real:trace:" + k, ti.get(k, 0))
    if runs is not None:
        ctx.count("real:confirm-runs")
    if obs.get("startup_retries"):
        ctx.count("real:start-up-retries", obs["startup_retries"])
    for k in obs.get("dropped_under_load", []):
        ctx.count("real:hang-under-load-not-reproduced-" + k)
        ends = [(r.get("ended"), r.get("load_per_core")) for r in (runs or [])]
        ctx.notes.append(f"real-cluster {k} on an oversubscribed machine (loads per core: {obs.get('loads')}), not seen in every patient deciding run (runs ended / load per core before, after: {ends}): "
                         f"dropped, seed {seed}, family {spec.get('family')}")
        ctx.extra.setdefault("real_dropped_under_load", []).append({"seed": seed, "family": spec.get("family"), "kind": k, "loads": obs.get("loads"), "runs": runs})
    for k in obs.get("dropped", []):
        ctx.count("real:flaky-startup-" + k)
        ctx.notes.append(f"real-cluster {k} before any task body was entered, not reproduced on re-run (start-up flake, ignored), seed {seed}, family {spec.get('family')}, loads {obs.get('loads')}")
        ctx.extra.setdefault("real_dropped_startup", []).append({"seed": seed, "family": spec.get("family"), "kind": k, "loads": obs.get("loads"), "runs": runs})
    ctx.extra.setdefault("real_runs", []).append({"seed": seed, "family": spec.get("family"), "shape": [spec["hosts"], spec["workers"]], "gpus": spec.get("gpus"), "tasks": len(spec["tasks"]),
                                                  "ext": len(spec["ext"]), "ended": obs["ended"], "t_setup": obs.get("t_setup"), "t_run": obs.get("t_run"), "wall": obs.get("wall"),
                                                  "stats": st, "verdicts": sorted({x["kind"] for x in vs}),
                                                  **({"first_run_only": True} if obs.get("first_run_only") else {}), **({"where": obs["where"]} if obs.get("where") else {})})
    if obs.get("first_run_only"):
        ctx.count("real:first-run-only-after-two-failing-inputs")
    seen = set()
    for x in vs:
        key = json.dumps(x["sig"], sort_keys=True)
        if key in seen:
            continue
        seen.add(key)
        if x["sig"].get("first_run_only"):
            if deferred is not None:
                deferred.append((seed, spec, ref, x))
            continue
        if x["sig"].get("reproduced") is False:
            ctx.count("real:unreproduced-after-start-" + x["kind"])
        ctx.violation(x["sig"], dict(case, runs=runs, loads=obs.get("loads")) if runs else case,
                      f"{x['what']} [job of {len(spec['tasks'])} tasks, family {spec.get('family')}, generator seed {seed}; features: {', '.join(feats)}]")
    return st


MAX_DEFERRED_CONFIRM = 2


def _settle_deferred(ctx, batch, deferred):
    """After two cases of a batch had a hang / error in their first run, the remaining cases are still run -- once each, without the
    deciding re-runs (75 s of patience each). A hang / error seen in such a single run is
      * reported with its own failing input when it is an error that starvation does not explain (_starvation_explains) seen after the
        job had started, or when a verdict of the same kind has been CONFIRMED on another case of this batch (reproduced there, or
        reported there under the rules of check_case);
      * otherwise decided now by the usual deciding runs (check_case), for at most MAX_DEFERRED_CONFIRM cases;
      * beyond that recorded -- evidence (`real_unconfirmed`) and a note -- and not reported.
    Either way every family has run, and the evidence says which families were run once only."""
    if batch.stop.is_set():
        once = [batch.items[i][1].get("family") for i, r in sorted(batch.results.items()) if len(r) == 4 and isinstance(r[1], dict) and r[1].get("first_run_only")]
        ctx.extra["real_first_run_only_families"] = once
        ctx.notes.append(f"real-cluster runs: two cases had a hang / error in their first run; the {len(once)} case(s) started after that were run ONCE each, without deciding re-runs "
                         f"(families: {once}); no family was skipped")
    if not deferred:
        return
    confirmed = {v["signature"].get("kind") for v in ctx.violations if str(v["signature"].get("kind", "")).startswith("real-cluster-")}
    done = 0
    for seed, spec, ref, x in deferred:
        case = {"real": spec}
        tail = f" [job of {len(spec['tasks'])} tasks, family {spec.get('family')}, generator seed {seed}; features: {', '.join(features(spec))}]"
        if not x.get("starvation", True):
            # an exception of the tree's code reported up, after the job had started: nothing a slow machine makes; counts as it stands
            ctx.count("real:first-run-only-verdict-reported-" + x["kind"])
            ctx.violation({"kind": x["kind"], "first_run_only": True}, case, x["what"] + " [seen in the single run of this case; an exception of the tree's code that starvation does not explain]" + tail)
            confirmed.add(x["kind"])
        elif x["kind"] in confirmed:
            ctx.count("real:first-run-only-verdict-reported-" + x["kind"])
            ctx.violation({"kind": x["kind"], "first_run_only": True}, case, x["what"] + " [seen in the single run of this case; not run again: the same verdict is confirmed on another case of this batch]" + tail)
        elif done < MAX_DEFERRED_CONFIRM:
            done += 1
            ctx.count("real:first-run-only-verdict-decided-by-re-runs")
            obs, vs, runs = check_case(spec, ref)
            for y in vs:
                if y["kind"] == x["kind"] or y["kind"] not in ("real-cluster-hang", "real-cluster-error"):
                    ctx.violation(y["sig"], dict(case, runs=runs, loads=obs.get("loads")) if runs else case, y["what"] + " [decided after the batch: the single run of this case had shown " + x["kind"] + "]" + tail)
                    confirmed.add(y["kind"])
            if not any(y["kind"] == x["kind"] for y in vs):
                ctx.notes.append(f"real-cluster {x['kind']} in the single run of seed {seed} (family {spec.get('family')}) did not show again in the deciding runs: dropped")
        else:
            ctx.count("real:first-run-only-verdict-left-undecided-" + x["kind"])
            ctx.extra.setdefault("real_unconfirmed", []).append({"seed": seed, "family": spec.get("family"), "kind": x["kind"], "what": x["what"][:400]})
            ctx.notes.append(f"real-cluster {x['kind']} seen in the single run of seed {seed} (family {spec.get('family')}), neither confirmed elsewhere nor run again (limit {MAX_DEFERRED_CONFIRM}): NOT reported, see evidence real_unconfirmed")


def finish_real(ctx, batch):
    from ekw.core import InfraError
    batch.join()
    t_top = time.time()
    tot = {"transmits": 0, "purges": 0}
    deferred = []                                 # (seed, spec, ref, verdict): hang / error seen in the single run of a case started after two failing inputs
    for i, (seed, spec) in enumerate(batch.items):
        res = batch.results.get(i)
        if res is None:
            raise InfraError(f"real-cluster run {i} (seed {seed}) did not come back from its thread")
        if res[0] == "crash":
            if isinstance(res[1], InfraError):
                raise res[1]
            raise RuntimeError(f"real-cluster harness crashed on seed {seed}: {type(res[1]).__name__}: {res[1]}")
        st = _account(ctx, seed, spec, res, deferred)
        for k in tot:
            tot[k] += (st or {}).get(k, 0)
    _settle_deferred(ctx, batch, deferred)
    # the tier must have seen at least one inter-host transfer and one purge on a real cluster: top up with dense 2-host cases
    extra = random.Random(batch.items[0][0] ^ 0x5EED if batch.items else 0)
    tries = 0
    while not batch.stop.is_set() and (tot["transmits"] == 0 or tot["purges"] == 0) and tries < 4:
        tries += 1
        seed = extra.randrange(1 << 30)
        spec = build_spec(seed, "dense", "three-hosts")       # 3 hosts x 1-3 workers, workers+1 sources: ~7 of 8 such runs transfer
        ctx.count("real:top-up-runs")
        try:
            ref = reference(spec)
            res = (ref,) + check_case(spec, ref)
        except InfraError:
            raise
        except Exception as e:
            res = ("build-error", f"{type(e).__name__}: {str(e)[:300]}")
        st = _account(ctx, seed, spec, res)
        for k in tot:
            tot[k] += (st or {}).get(k, 0)
    if tot["transmits"] == 0 or tot["purges"] == 0:
        if not batch.stop.is_set():
            ctx.notes.append(f"real-cluster runs of this tier saw {tot['transmits']} inter-host transfers and {tot['purges']} purges")
    # wall of the real-cluster part itself: the batch (it ran beside the SimBridge part) + the top-up runs done here
    ctx.extra["real_wall_s"] = round((batch.t_done - batch.t0) + (time.time() - t_top), 2)


def correspond_real(ctx):
    """all real-cluster runs of the tier, synchronously (see start_real / finish_real)"""
    finish_real(ctx, start_real(ctx))


def replay(case):
    spec = case["real"]
    print(f"real-cluster case: {spec['hosts']} host(s) x {spec['workers']} worker(s)" + (f", CASCADE_GPU_COUNT={spec['gpus']}" if spec.get("gpus") is not None else "")
          + (", job registers a serde for Box" if spec.get("serdes") else "") + f", family {spec.get('family')}, generator seed {spec.get('seed')}, features: {features(spec)}")
    for t in spec["tasks"]:
        print(f"--- task {t['name']}  outputs (declaration order) {t['outs']}" + ("  needs_gpu" if t.get("gpu") else ""))
        print(func_source(t), end="")
        for b in t["bind"]:
            where = f"position {b['idx']}" if b["how"] == "pos" else f"keyword {b['p']}"
            print(f"    {where} <- " + (f"dataset {b['src'][0]}|{b['src'][1]}" if "src" in b else f"static {_dec_static(b['val'])!r}"))
    if case.get("runs"):
        print("recorded: the runs of the case the check made (first run, then the deciding run(s)); loads per core:", case.get("loads"))
        for r in case["runs"]:
            print("   ", r)
    ref = reference(spec)
    print("requested + sequential reference:", json.dumps(ref))
    obs, vs, runs = check_case(spec, ref)
    print("real run:", summary(obs))
    print("delivered:", json.dumps((obs.get("outputs") or {}).get("values")))
    tr = obs.get("trace") or {}
    print("commands (in the controller's order):", [(c.get("cmd"), c.get("worker") or c.get("host") or c.get("source"), c.get("tasks") or c.get("ds")) for c in tr.get("ctrl", [])])
    print("task bodies:", [(b["task"], b.get("worker"), b["pid"], b.get("cuda")) for b in tr.get("bodies", [])])
    for x in vs:
        print("ORACLE:", x["kind"], "--", x["what"])
    if not vs:
        print("oracle: ok")
    return 1 if vs else 0


def _main(argv):
    if argv[1:2] == ["--stats"]:
        # development aid: python -m ekw.c01_real --stats N [seed0] [--dense] [--theme=T] [--dry] -> runs N random cases, prints shape/feature distribution + timings
        n, s0 = int(argv[2]), int(argv[3]) if len(argv) > 3 and argv[3].isdigit() else 0
        theme = ([a.split("=", 1)[1] for a in argv if a.startswith("--theme=")] or [None])[0]
        dist, bad = {}, 0
        for i in range(n):
            spec = build_spec(s0 + i, "dense" if "--dense" in argv else "any", theme)
            if "--dry" in argv:
                reference(spec)
                obs, vs = {"ended": "dry", "outputs": {}}, []
            else:
                obs, vs, _ = check_case(spec)
            st = obs.get("stats") or {}
            for f in features(spec) + [f"shape={spec['hosts']}x{spec['workers']}", f"tasks={len(spec['tasks'])}"] + (["run-with-transfer"] if st.get("transmits") else []) + (["run-with-purge"] if st.get("purges") else []):
                dist[f] = dist.get(f, 0) + 1
            bad += bool(vs)
            print(s0 + i, obs["ended"], obs.get("t_setup"), obs.get("t_run"), obs.get("wall"), st, obs.get("trace_info"), [x["kind"] for x in vs], flush=True)
            for x in vs:
                print("   ", x["what"][:400])
        print(json.dumps(dist, sort_keys=True, indent=1), "failing:", bad)
    elif argv[1:2] == ["--batch"]:
        # development aid: python -m ekw.c01_real --batch SEED [thorough] -> the real-cluster part of one check run, verdicts printed
        from ekw.core import Ctx
        ctx = Ctx("C01", "thorough" if "thorough" in argv else "quick", int(argv[2]))
        correspond_real(ctx)
        for r in ctx.extra.get("real_runs", []):
            print(r)
        for v in ctx.violations:
            print("VIOLATION", v["signature"], v["what"][:700])
        print({k: v for k, v in sorted(ctx.dist.items()) if not k.startswith("real:has:")})
        print("notes:", ctx.notes, "wall:", ctx.extra.get("real_wall_s"), "violations:", len(ctx.violations))
    else:
        case = json.loads(argv[1])
        hs = str(case.get("spec", {}).get("hashseed", 0))
        if os.environ.get("PYTHONHASHSEED") != hs:
            # same pid / session / stdout: the runner starts over with the hash seed recorded in the case, so that the re-run of a
            # case (and its replay) meets the same set iteration orders in the scheduler, i.e. the same placement decisions
            os.environ["PYTHONHASHSEED"] = hs
            os.execv(sys.executable, [sys.executable, "-m", MOD, argv[1]])
        runner_main(case)


if __name__ == "__main__":
    # re-enter under the importable name: Box, ser_box, des_box and TRACE_DIR must be those of `ekw.c01_real` (the serde
    # functions are resolved by that name in every process; task functions are pickled with references to it)
    import importlib
    importlib.import_module(MOD)._main(sys.argv)
