"""C01 helper: end-to-end runs of random small jobs with REAL callables on a REAL local cluster.

The SimBridge part of the C01 check (ctrl_check / sim_ctrl) drives the real controller against abstract
executors with uninterpreted task values; what lies between the controller and the execution of a task --
executor/runner/runner.py (argument binding, output publication), runner/memory.py, runner/entrypoint.py,
executor/executor.py, data_server.py, the zmq/shm transport -- is exercised HERE:

    spec (JSON, derived from one random.Random(seed))
      ├─ make_job(spec): callables with real signatures -> TaskBuilder.from_callable / JobBuilder  -> JobInstance
      ├─ seq_eval(job):  ~20-line sequential interpreter of the JobInstance in the check process    -> reference
      └─ run_real(spec): runner subprocess (own session) = executors (fork) + Bridge + controller.impl.run
                         (infrastructure of ekw.c05_cluster: port allocator, unique host ids / shm prefix,
                         deadline enforced from outside, session kill + unlink, reaper)              -> State.outputs
    oracle: every requested output delivered, with the reference value; the run ends before the deadline; no error.

Values are ints / strings / (nested) tuples / bytes / NumPy arrays (several dtypes, 0-d to 2-d, non-contiguous views) /
`Box`es (a type that refuses pickle and travels only through the serde pair registered in `JobInstance.serdes`), built
injectively from (task, output index, every bound parameter with its name), so a value bound to the wrong parameter, a
default winning over an upstream value, outputs published under the wrong names, or a stale / foreign copy all change
some requested value.

Besides the values, every run leaves a TRACE in a private directory (no hook in /repo): each task body appends
(task, pid, CUDA_VISIBLE_DEVICES, what the worker's own `entrypoint` frame holds at that moment) when it is entered, the
harness-side executor launcher records the pids of the workers it started, and the runner logs every Bridge command
(task_sequence / transmit / fetch / purge / shutdown) in the order the controller issued them. From that trace, and from
nothing the controller keeps in `State`, the oracle additionally decides: each task body ran at most once and in the
process of the worker the controller had dispatched it to; a task that needs a GPU ran where a device of its own exists;
purges reach the workers; and it tells a hang at start-up (no task body entered) from a hang of the job.
"""
from __future__ import annotations

import hashlib
import json
import os
import random
import re
import shutil
import sys
import tempfile
import threading
import time
import zlib

DEFAULT_OUT = "0"          # earthkit.workflows.graph.Node.DEFAULT_OUTPUT, the single output from_callable declares
# declaration order of the output names differs from their sorted order (but for the last of each list)
OUT_NAMES = {2: [["b", "a"], ["z", "y"], ["1", "0"], ["out", "aux"], ["lo", "hi"], ["a", "b"]],
             3: [["b", "c", "a"], ["z", "a", "m"], ["2", "0", "1"], ["mid", "hi", "lo"], ["a", "b", "c"]]}
KINDS = ("real-cluster-wrong-value", "real-cluster-missing-output", "real-cluster-hang", "real-cluster-error",
         "real-cluster-wrong-worker", "real-cluster-task-ran-twice", "real-cluster-gpu-task-without-device",
         "real-cluster-gpu-device-shared", "real-cluster-purge-not-applied", "real-cluster-source-does-not-hold",
         "real-cluster-purge-before-consumers-done", "real-cluster-purge-before-delivered", "real-cluster-purge-while-unanswered")
RETS = ("int", "tuple", "str", "sum")                 # the plain kinds (every family)
RETS_RICH = ("nd", "nd", "bytes")                     # + with `rich`: ndarray / bytes values
# "ndm" (family nd-replicated only): an ndarray with >= 2 elements for sure -- `==`/`!=` on it are element-wise and its truth value raises
STARTUP_S = 20.0           # executors forked, data servers listening, every host registered at the Bridge (healthy: 1-3 s, under load up to ~11 s)
JOB_S = 25.0               # controller.impl.run from its first line to its return, shutdown of the executors included (healthy: 0.3-2 s, under load up to ~8 s)
STARTUP_LADDER = (STARTUP_S, 40.0, 80.0, 160.0)      # start-up patience per attempt (run_real)
_LADDER_TXT = "/".join(str(int(x)) for x in STARTUP_LADDER)
RERUN_JOB_S = 3 * JOB_S     # patience of the runs that decide whether a hang is real: a deadlock does not end after 75 s either
CALM_WAIT_S = 180.0        # those runs wait for the machine's load to fall below its number of cores, at most this long
DEADLINE_S = STARTUP_S + JOB_S + 5.0      # outer deadline of the runner subprocess; the two inner ones are enforced by the runner itself
TRACE_DIR = None           # set in the runner before the executors are forked (inherited by every worker)


# ----------------------------------------------------------------------------- values (run inside the workers too)

MOD = "ekw.c01_real"       # the importable name of this module (the runner re-enters it under that name, see the bottom)


class Box:
    """A value type with a custom serde: it REFUSES pickle, so it can leave a worker only through the (ser, des) pair the
    job registers in `JobInstance.serdes` (controller: impl.py `SerdeRegistry.register`, worker: entrypoint.py)."""
    __slots__ = ("payload",)

    def __init__(self, payload):
        self.payload = payload

    def __repr__(self):
        return f"Box({self.payload!r})"

    def __eq__(self, other):
        return type(other) is Box and other.payload == self.payload

    def __hash__(self):
        return hash(("Box", self.payload))

    def __reduce_ex__(self, protocol):
        raise TypeError("c01 Box travels only through the serde registered in JobInstance.serdes")


class TBox(Box):
    """A SUBCLASS of Box with state of its own that pickles normally: no serde is registered for it, so it must travel by
    pickle and come back as a TBox with its tag (a serde registered for Box is for Box only)."""
    __slots__ = ("tag",)

    def __init__(self, payload, tag):
        Box.__init__(self, payload)
        self.tag = tag

    def __repr__(self):
        return f"TBox({self.payload!r}, {self.tag!r})"

    def __eq__(self, other):
        return type(other) is TBox and other.payload == self.payload and other.tag == self.tag

    def __hash__(self):
        return hash(("TBox", self.payload, self.tag))

    def __reduce_ex__(self, protocol):
        return (TBox, (self.payload, self.tag))


def ser_box(b):
    return b"BOX1" + b.payload.encode("utf-8")


def des_box(raw):
    raw = bytes(raw)                      # shm hands out a (read-only) memoryview
    if raw[:4] != b"BOX1":
        raise ValueError(f"not a serialised Box: {raw[:16]!r}")
    return Box(raw[4:].decode("utf-8"))


def _is_nd(v):
    return type(v).__module__ == "numpy" and type(v).__name__ == "ndarray"


def _fmt(v):
    """injective rendering of an input value inside the value of a downstream task"""
    if isinstance(v, str):
        return "<" + v + ">"
    if isinstance(v, tuple):
        return "(" + ",".join(_fmt(x) for x in v) + ")"
    if isinstance(v, bytes):
        return "b<" + v.hex() + ">"
    if type(v) is TBox:
        return "TBox<" + v.tag + "|" + v.payload + ">"
    if isinstance(v, Box):
        return "Box<" + v.payload + ">"
    if _is_nd(v):
        return f"nd<{v.dtype.str};{list(v.shape)};{v.tolist()!r}>"
    return repr(v)


def _nd(s):
    """A NumPy array determined by the string s: dtype, rank, byte order and memory layout vary with s."""
    import numpy as np
    n = zlib.crc32(s.encode())
    base = [n % (1 << 31)] + [(n >> j) % 1009 for j in range(0, 22, 2)]      # 12 ints
    k = (n >> 5) % 8
    if k == 0:
        return np.array(base[:1 + n % 5], dtype=np.int64)
    if k == 1:
        return np.array(base[:6], dtype=np.float64).reshape(2, 3) / 8.0
    if k == 2:
        return np.array(base[0], dtype=np.int64)                             # 0-d
    if k == 3:
        return np.array(base, dtype=np.int64)[::2]                           # non-contiguous view
    if k == 4:
        return np.array(base[:4], dtype=">i8")                               # big-endian
    if k == 5:
        return np.asfortranarray(np.array(base[:6], dtype=np.float64).reshape(3, 2))
    if k == 6:
        return np.array(list(n.to_bytes(4, "big")) + base[1:3], dtype=np.uint16)
    return np.array(base[:6], dtype=np.int64).reshape(2, 3).T                # transposed view


def _val(ret, tag, i, bound):
    """The value of output `i` of task `tag` whose parameters were bound as `bound` = [(name, value)...]."""
    if ret == "tuple":
        return (tag, i) + tuple((("TBox", x.tag, x.payload) if type(x) is TBox else ("Box", x.payload)) if isinstance(x, Box) else x for pair in bound for x in pair)
    if ret == "sum" and all(type(v) is int for _, v in bound):
        return 1000 * (i + 1) + sum((j + 2) * v for j, (_, v) in enumerate(bound))
    s = f"{tag}#{i}[" + ";".join(f"{n}={_fmt(v)}" for n, v in bound) + "]"
    if ret == "str":
        return s
    if ret == "bytes":
        return s.encode()
    if ret == "box":
        return Box(s)
    if ret == "tbox":
        return TBox(s, "t%d" % (zlib.crc32(s.encode()) % 97))
    if ret == "nd":
        return _nd(s)
    if ret == "ndm":
        a = _nd(s)
        if a.size < 2:
            import numpy as np
            n = zlib.crc32(s.encode())
            a = np.array([n % 1009, (n >> 3) % 1013, (n >> 7) % 1019], dtype=np.int64)
        return a
    return zlib.crc32(s.encode())


def _canon(v):
    if type(v) is str:
        return repr(v)
    if type(v) is int or v is None:
        return repr(v)
    if type(v) is tuple:
        return "(" + ", ".join(_canon(x) for x in v) + ("," if len(v) == 1 else "") + ")"
    if type(v) is bytes:
        return "bytes:" + v.hex()
    if type(v) is Box:
        return "Box:" + repr(v.payload)
    if type(v) is TBox:
        return "TBox:" + repr(v.tag) + ":" + repr(v.payload)
    if _is_nd(v):
        return f"nd:{v.dtype.str}:{list(v.shape)}:{v.tolist()!r}"
    return f"{type(v).__module__}.{type(v).__qualname__}:{v!r}"


def enc(v):
    """value -> what travels in the runner's JSON result line (exactly comparable; type, dtype and shape are part of it)"""
    return v if (type(v) is int or v is None) else _canon(v)


def _dec_static(v):
    return tuple(_dec_static(x) for x in v) if isinstance(v, list) else v


# ----------------------------------------------------------------------------- trace (written inside the workers / the runner)

def _ds(d):
    return f"{d.task}|{d.output}"


def _worker_view():
    """What the worker process this code runs in holds right now, read from the locals of its own `entrypoint` frame
    (no hook in /repo): its identity, the datasets it believes available on its host, its Memory."""
    try:
        f = sys._getframe(2)
        while f is not None:
            if f.f_code.co_name == "entrypoint" and "availab_ds" in f.f_locals and "runnerContext" in f.f_locals:
                loc = f.f_locals
                mem = loc.get("memory")
                return {"worker": repr(loc["runnerContext"].workerId), "avail": sorted(_ds(d) for d in loc["availab_ds"]),
                        "local": sorted(_ds(d) for d in getattr(mem, "local", {})), "bufs": sorted(_ds(d) for d in getattr(mem, "bufs", {}))}
            f = f.f_back
    except Exception:
        pass
    return {}


def _trace(task):
    """First statement of every generated task body."""
    d = TRACE_DIR
    if not d:
        return
    try:
        rec = {"task": task, "pid": os.getpid(), "ppid": os.getppid(), "cuda": os.environ.get("CUDA_VISIBLE_DEVICES"), "t": time.time()}
        rec.update(_worker_view())
        with open(os.path.join(d, f"body.{os.getpid()}.jsonl"), "a") as f:
            f.write(json.dumps(rec) + "\n")
    except Exception:
        pass


def _log_ctrl(rec):
    d = TRACE_DIR
    if not d:
        return
    try:
        rec["t"] = time.time()
        with open(os.path.join(d, "ctrl.jsonl"), "a") as f:
            f.write(json.dumps(rec) + "\n")
    except Exception:
        pass


def read_trace(d):
    """-> {"bodies": [...], "ctrl": [...], "execs": {host: {...}}, "env": {...}} (whatever the run left behind)"""
    tr = {"bodies": [], "ctrl": [], "execs": {}, "env": None}
    try:
        names = sorted(os.listdir(d))
    except OSError:
        return tr
    for n in names:
        try:
            with open(os.path.join(d, n)) as f:
                txt = f.read()
            if n.startswith("body."):
                tr["bodies"] += [json.loads(l) for l in txt.splitlines() if l.strip()]
            elif n == "ctrl.jsonl":
                tr["ctrl"] = [json.loads(l) for l in txt.splitlines() if l.strip()]
            elif n.startswith("exec."):
                e = json.loads(txt)
                tr["execs"][e["host"]] = e
            elif n == "env.json":
                tr["env"] = json.loads(txt)
        except (OSError, ValueError):
            continue                       # a line cut off by the session kill
    tr["bodies"].sort(key=lambda b: b.get("t", 0))
    return tr


# ----------------------------------------------------------------------------- generator

def _rand_value(rng):
    r = rng.random()
    if r < 0.4:
        return rng.randint(-50, 99)
    if r < 0.7:
        return rng.choice(["x", "yy", "q7", "", "ab c", "0"])
    return [rng.randint(0, 9) for _ in range(rng.randint(1, 3))]


def _pick_src(rng, up, consumed, avoid=()):
    pool = [d for d in up if d[0] not in {t for t, _ in avoid}] or [d for d in up if (d[0], d[1]) not in avoid] or up
    w = []
    for t, o, last in pool:
        c = consumed.get((t, o), 0)
        w.append((3.0 if not last else 2.0) if c == 0 else 1.5)
    return rng.choices(pool, weights=w)[0]


def _gen_task(rng, name, up, consumed, force=None, rets=RETS):
    npos = rng.choice([0, 1, 1, 2, 2, 3])
    ndef = rng.choice([0, 1, 1, 2])
    kwo = rng.choice(["", "", "", "r", "s", "rs"])
    nout = rng.choice([1, 1, 1, 2, 2, 3])
    if not up and rng.random() < 0.5:
        npos = 0
    if force == "src" or (force is None and rng.random() < 0.3):
        up = []                           # a further source task: only static inputs (several sources -> work for several hosts)
    if force == "gen-src":
        nout = rng.choice([2, 3])
    if force == "kw-default":
        ndef = max(ndef, 1)
    if force == "pos2":
        npos = max(npos, 2)
    params = [{"n": "abc"[j], "kind": "pos"} for j in range(npos)]
    params += [{"n": "km"[j], "kind": "def", "default": _rand_value(rng)} for j in range(ndef)]
    if "r" in kwo:
        params.append({"n": "r", "kind": "kwreq"})
    if "s" in kwo:
        params.append({"n": "s", "kind": "kwdef", "default": _rand_value(rng)})
    q = npos if (rng.random() < 0.7 or force == "pos2") else rng.randint(0, npos)   # a..: the first q positionally, the rest by keyword
    bind = []
    used = []

    def source(p_edge, avoid=()):
        if up and rng.random() < p_edge:
            t, o, _ = _pick_src(rng, up, consumed, avoid)
            consumed[(t, o)] = consumed.get((t, o), 0) + 1
            used.append((t, o))
            return {"src": [t, o]}
        return {"val": _rand_value(rng)}
    for j, p in enumerate(params):
        if p["kind"] == "pos":
            forced = force == "pos2" and j < 2
            b = source(1.0 if forced else 0.75, avoid=used if forced else ())
            bind.append(dict(b, p=p["n"], how="pos" if j < q else "kw", **({"idx": j} if j < q else {})))
        elif p["kind"] in ("def", "kwdef"):
            forced = force == "kw-default" and p["n"] == "k"
            r = 0.0 if forced else rng.random()
            if r < 0.45 and up:
                bind.append(dict(source(1.0), p=p["n"], how="kw"))      # keyword edge into a parameter that has a default
            elif r < 0.65:
                bind.append({"val": _rand_value(rng), "p": p["n"], "how": "kw"})
        else:
            bind.append(dict(source(0.6), p=p["n"], how="kw"))
    outs = list(rng.choice(OUT_NAMES[nout])) if nout > 1 else [rng.choice([DEFAULT_OUT, DEFAULT_OUT, DEFAULT_OUT, "o", "res"])]
    return {"name": name, "ret": rng.choice(list(rets)), "outs": outs, "params": params, "bind": bind}


SHAPES_DENSE = [(2, 1), (2, 2), (1, 2), (2, 1), (2, 3), (1, 3)]
SHAPES_3H = [(3, 1), (3, 2), (3, 3), (3, 1)]
SHAPES_ANY = [(1, 1), (1, 2), (2, 1), (2, 2), (2, 1), (3, 1), (1, 3), (2, 3), (3, 2)]
THEMES = ("three-hosts", "gpu", "serde", "wide-gpu", "chain", "many-pos", "nd-replicated")


def gen_spec(rng, dense=False, theme=None):
    """One random job + cluster shape. `dense`: 4-7 tasks, the features the quick tier must not miss are forced
    (multi-output generator source, further source tasks, keyword edge into a defaulted parameter, >=2 positional
    edges from different tasks, >=2 workers in total), every sink task's outputs requested.
    `theme`: three-hosts (3 hosts x 1-3 workers) | gpu (CASCADE_GPU_COUNT set, some tasks need a GPU) | serde (the job
    registers a custom serde, Box / ndarray / bytes values) | wide-gpu (1 host x 11-13 GPU workers, one GPU task for each)
    | chain (a linear chain on one host: every intermediate is purged while later tasks still run).
    Independently of the theme any job may draw GPU needs, rich values and the serde with a small probability."""
    if theme == "wide-gpu":
        return _gen_wide(rng)
    if theme == "chain":
        return _gen_chain(rng)
    if theme == "many-pos":
        return _gen_manypos(rng)
    if theme == "nd-replicated":
        return _gen_ndrep(rng)
    three = theme == "three-hosts"
    if dense:
        hosts, workers = rng.choice(SHAPES_3H if three else SHAPES_DENSE)
        n = 0                             # set below, from the number of forced sources
    else:
        n = rng.choice([2, 3, 3, 4, 4, 5, 5, 6, 6])
        hosts, workers = rng.choice(SHAPES_3H if three else SHAPES_ANY)
    serdes = theme == "serde" or rng.random() < 0.25
    rich = theme == "serde" or rng.random() < 0.3
    gpus = None
    if theme == "gpu":
        hosts, workers = rng.choice([(1, 2), (1, 3), (2, 2), (2, 3), (2, 2)])
        gpus = rng.randint(1, workers)
        nsrc = 2
    elif rng.random() < 0.2:
        gpus = rng.randint(1, workers)
    rets = RETS + (RETS_RICH if rich else ()) + (("box", "box", "tbox") if serdes else ())
    # one host's workers take every source of a component they can: a second host joins in (and inter-host transfers happen)
    # only when more tasks are computable at once than one host has workers -> workers + 1 sources on several hosts
    nsrc = max(2, min(workers + 1, 4)) if hosts > 1 else 2
    if dense:
        n = nsrc + rng.choice([2, 3, 4] if nsrc < 4 else [2, 3])
    perm = list(range(n))
    rng.shuffle(perm)                     # topological order != order of the names
    names = [f"t{p}" for p in perm]
    if rng.random() < 0.3:
        i = rng.randrange(n)
        names[i] = names[i] + ".v"        # dotted task name (DatasetId repr is "<task>.<output>")
    force = {}
    if dense:
        force = {0: "gen-src", nsrc: "kw-default", nsrc + 1: "pos2"}
        force.update({i: "src" for i in range(1, nsrc)})
    tasks, up, consumed = [], [], {}
    for i in range(n):
        t = _gen_task(rng, names[i], up, consumed, force.get(i), rets)
        if gpus is not None and rng.random() < (0.5 if theme == "gpu" else 0.35):
            t["gpu"] = True
        tasks.append(t)
        up += [(t["name"], o, j == len(t["outs"]) - 1) for j, o in enumerate(t["outs"])]
    if theme == "gpu" and not any(t.get("gpu") for t in tasks):
        rng.choice(tasks)["gpu"] = True
    if theme == "serde" and not any(t["ret"] == "box" for t in tasks):
        tasks[0]["ret"] = "box"           # the generator source: several Boxes, consumed downstream
    if theme == "serde" and len(tasks) > 1 and not any(t["ret"] == "tbox" for t in tasks):
        tasks[1]["ret"] = "tbox"          # a picklable SUBCLASS of the type the serde is registered for
    if theme == "serde" and not any(t["ret"] == "nd" for t in tasks):
        tasks[1]["ret"] = "nd"
    has_consumer = {t for (t, _o) in consumed}
    ext = []
    for t, o, _last in up:
        if dense and t not in has_consumer:
            ext.append([t, o])
        elif rng.random() < (0.3 if dense else 0.4):
            ext.append([t, o])
    if not ext:
        ext.append(list(rng.choice(up)[:2]))
    rng.shuffle(ext)
    spec = {"tasks": tasks, "ext": ext, "hosts": hosts, "workers": workers}
    if gpus is not None:
        spec["gpus"] = gpus
    if serdes:
        spec["serdes"] = True
    if theme:
        spec["theme"] = theme
    return spec


def _gen_wide(rng):
    """1 host x W workers (W = 11..13, every one a GPU worker), W..W+2 independent GPU source tasks and one GPU join that
    consumes an output of every one of them (ONE component: all sources are computable at once and every worker gets one):
    worker numbers with two digits, devices 10.."""
    w = rng.choice([11, 12, 13])
    n = w + rng.randint(0, 2)
    tasks, up, consumed = [], [], {}
    for i in range(n):
        t = _gen_task(rng, f"g{i}", [], consumed, "src", ("int", "str", "int"))
        t["gpu"] = True
        tasks.append(t)
        up.append((t["name"], rng.choice(t["outs"])))
    join = {"name": "join", "ret": rng.choice(["int", "str"]), "outs": [DEFAULT_OUT], "gpu": True,
            "params": [{"n": f"p{j}", "kind": "pos"} for j in range(n)],
            "bind": [{"src": list(up[j]), "p": f"p{j}", "how": "pos", "idx": j} for j in range(n)]}
    tasks.append(join)
    ext = [["join", DEFAULT_OUT]] + [list(d) for d in rng.sample(up, 2)]
    return {"tasks": tasks, "ext": ext, "hosts": 1, "workers": w, "gpus": w, "theme": "wide-gpu"}


def _gen_chain(rng):
    """A linear chain c0 -> c1 -> ... of 5-7 single-output tasks on ONE host (1-2 workers), only the end requested: the
    controller purges c(k-2)'s output while c(k) runs, so every task from the fourth on starts after purges of datasets
    its worker had been told about."""
    n = rng.choice([5, 6, 7])
    tasks = []
    for i in range(n):
        params = [{"n": "a", "kind": "pos"}] if i else []
        bind = [{"src": [f"c{i - 1}", DEFAULT_OUT], "p": "a", "how": "pos", "idx": 0}] if i else []
        if rng.random() < 0.5:
            params.append({"n": "k", "kind": "def", "default": _rand_value(rng)})
        tasks.append({"name": f"c{i}", "ret": rng.choice(["int", "str", "tuple"]), "outs": [DEFAULT_OUT], "params": params, "bind": bind})
    return {"tasks": tasks, "ext": [[f"c{n - 1}", DEFAULT_OUT]], "hosts": 1, "workers": rng.choice([1, 1, 2]), "theme": "chain"}


def _gen_manypos(rng):
    """Tasks called with 11-13 POSITIONAL arguments (positions with two digits: "10" < "2" as strings): polyA gets all of
    them as statics (TaskBuilder.with_values(*args)); polyB has one position below 10 and (when it has 12-13) one from 10 on
    fed by edges, statics everywhere else, at least one static at a position >= 10. No two static values of a task are
    equal and the result is injective in (parameter name, value), so statics bound in any other order than the numeric
    one change the requested values."""
    def statics(n):
        pool = rng.sample(range(-50, 100), n)
        return [v if rng.random() < 0.6 else f"s{v}" for v in pool]
    rets = ("str", "tuple", "int")
    na, nb = rng.choice([11, 12, 13]), rng.choice([11, 12, 13])
    u = _gen_task(rng, "u", [], {}, "src", ("int", "str"))
    va = statics(na)
    poly_a = {"name": "polyA", "ret": rng.choice(rets), "outs": [DEFAULT_OUT],
              "params": [{"n": f"p{j}", "kind": "pos"} for j in range(na)],
              "bind": [{"val": va[j], "p": f"p{j}", "how": "pos", "idx": j} for j in range(na)]}
    edges = {rng.randrange(0, 10): ["polyA", DEFAULT_OUT]}
    if nb >= 12 and rng.random() < 0.6:
        edges[rng.randrange(10, nb - 1)] = ["u", rng.choice(u["outs"])]        # position nb-1 stays static
    else:
        edges[rng.choice([j for j in range(0, 10) if j not in edges])] = ["u", rng.choice(u["outs"])]
    vb = statics(nb)
    poly_b = {"name": "polyB", "ret": rng.choice(rets), "outs": [DEFAULT_OUT],
              "params": [{"n": f"p{j}", "kind": "pos"} for j in range(nb)],
              "bind": [dict({"src": edges[j]} if j in edges else {"val": vb[j]}, p=f"p{j}", how="pos", idx=j) for j in range(nb)]}
    tail = {"name": "tail", "ret": rng.choice(rets), "outs": [DEFAULT_OUT], "params": [{"n": "a", "kind": "pos"}],
            "bind": [{"src": ["polyB", DEFAULT_OUT], "p": "a", "how": "pos", "idx": 0}]}
    ext = [["polyA", DEFAULT_OUT], ["polyB", DEFAULT_OUT], ["tail", DEFAULT_OUT]]
    rng.shuffle(ext)
    hosts, workers = rng.choice([(1, 1), (1, 2), (2, 1)])
    return {"tasks": [u, poly_a, poly_b, tail], "ext": ext, "hosts": hosts, "workers": workers, "theme": "many-pos"}


def _gen_ndrep(rng):
    """Requested outputs whose VALUE is an ndarray of several elements and which are ALSO consumed on another host
    (replication + fetch of the same dataset): 2-3 hosts x 1 worker, one array-valued source per host (all requested), and
    joins that each consume two of them in different orders -- wherever a join is placed, an array the caller asked for
    travels host-to-host while its value is fetched (or has been delivered) to the controller. A controller that looks at a
    delivered value with ==/!= instead of identity meets an element-wise comparison here."""
    hosts = rng.choice([2, 2, 3])
    ns = hosts + rng.choice([0, 0, 1])
    tasks, up = [], []
    for i in range(ns):
        t = {"name": f"a{i}", "ret": "ndm", "outs": [DEFAULT_OUT], "params": [{"n": "k", "kind": "def", "default": rng.randint(0, 99)}], "bind": []}
        if rng.random() < 0.5:
            t["bind"].append({"val": rng.randint(100, 199), "p": "k", "how": "kw"})
        tasks.append(t)
        up.append([t["name"], DEFAULT_OUT])
    nj = rng.choice([2, 3])
    for j in range(nj):
        x, y = up[j % ns], up[(j + 1) % ns]
        if j % 2:
            x, y = y, x
        tasks.append({"name": f"j{j}", "ret": rng.choice(["str", "tuple", "ndm"]), "outs": [DEFAULT_OUT],
                      "params": [{"n": "a", "kind": "pos"}, {"n": "b", "kind": "pos"}],
                      "bind": [{"src": x, "p": "a", "how": "pos", "idx": 0}, {"src": y, "p": "b", "how": "pos", "idx": 1}]})
    ext = [list(d) for d in up] + [[f"j{j}", DEFAULT_OUT] for j in range(nj) if rng.random() < 0.7]
    rng.shuffle(ext)
    return {"tasks": tasks, "ext": ext, "hosts": hosts, "workers": 1, "theme": "nd-replicated"}


def ambiguate(spec, rng):
    """Rename two tasks and one output of each so that task-name + output-name of two DIFFERENT datasets is the same
    string ("q"+"xy" == "qx"+"y"): every per-dataset key the implementation derives from the two names must still differ."""
    ts = spec["tasks"]
    if len(ts) < 2:
        return spec
    i, j = rng.sample(range(len(ts)), 2)
    ren_t = {ts[i]["name"]: "q", ts[j]["name"]: "qx"}
    oi, oj = rng.randrange(len(ts[i]["outs"])), rng.randrange(len(ts[j]["outs"]))
    ren_o = {(ts[i]["name"], ts[i]["outs"][oi]): "xy", (ts[j]["name"], ts[j]["outs"][oj]): "y"}

    def ds(t, o):
        return [ren_t.get(t, t), ren_o.get((t, o), o)]
    for t in ts:
        for b in t["bind"]:
            if "src" in b:
                b["src"] = ds(*b["src"])
    spec["ext"] = [ds(t, o) for t, o in spec["ext"]]
    for t in ts:
        t["outs"] = [ren_o.get((t["name"], o), o) for o in t["outs"]]
        t["name"] = ren_t.get(t["name"], t["name"])
    if rng.random() < 0.6:
        spec["hosts"] = 1                 # both datasets in one host's store for sure
        spec["workers"] = max(spec["workers"], 2) if rng.random() < 0.5 else spec["workers"]
    spec["ambiguous_names"] = True
    return spec


def features(spec):
    """what the case exercises (for the printed distribution / nontriviality)"""
    f = set()
    srcs = {}
    for t in spec["tasks"]:
        defaults = {p["n"] for p in t["params"] if "default" in p}
        npe = 0
        for b in t["bind"]:
            if "src" in b:
                srcs[tuple(b["src"])] = srcs.get(tuple(b["src"]), 0) + 1
                if b["how"] == "kw":
                    f.add("kw-edge")
                    if b["p"] in defaults:
                        f.add("kw-edge-into-default")
                else:
                    npe += 1
                    f.add("pos-edge")
            else:
                f.add("static-" + b["how"])
                if b["how"] == "kw" and b["p"] in defaults:
                    f.add("static-kw-overrides-default")
        if npe >= 2:
            f.add("pos-edges>=2")
        npos = sum(1 for b in t["bind"] if b["how"] == "pos")
        if npos >= 11:
            f.add("positional-arguments>=11")
            if any(b["how"] == "pos" and "src" in b for b in t["bind"]):
                f.add("positional-arguments>=11-some-fed-by-edges")
        if any(b["how"] == "pos" and "val" in b and any(c["how"] == "pos" and "src" in c and c["idx"] < b["idx"] for c in t["bind"]) for b in t["bind"]):
            f.add("static-pos-after-edge")
        if defaults - {b["p"] for b in t["bind"]}:
            f.add("default-left")
        if len(t["outs"]) > 1:
            f.add("multi-output")
            if t["outs"] != sorted(t["outs"]):
                f.add("outputs-declared-unsorted")
        if "." in t["name"]:
            f.add("dotted-task-name")
        if t.get("gpu"):
            f.add("gpu-task")
        if t["ret"] == "ndm":
            f.add("value-nd")
            f.add("value-nd-with-2-or-more-elements")
            if [t["name"]] in [e[:1] for e in spec["ext"]] and any("src" in b and tuple(b["src"])[0] == t["name"] for u in spec["tasks"] for b in u["bind"]):
                f.add("requested-nd-value-consumed-downstream")
        if t["ret"] in ("nd", "bytes", "box", "tbox"):
            f.add("value-" + t["ret"])
            if any("src" in b and tuple(b["src"])[0] == t["name"] for u in spec["tasks"] for b in u["bind"]):
                f.add("value-" + t["ret"] + "-consumed-downstream")
    if spec.get("serdes"):
        f.add("job-registers-serde")
    if spec.get("gpus") is not None:
        f.add("gpu-count-set")
    if spec.get("theme"):
        f.add("theme-" + spec["theme"])
    outs = {t["name"]: t["outs"] for t in spec["tasks"]}
    if any(o != outs[t][-1] and len(outs[t]) > 1 for (t, o) in srcs):
        f.add("consumer-of-non-last-output")
    if any(c >= 2 for c in srcs.values()):
        f.add("fan-out")
    if any(tuple(e) in srcs for e in spec["ext"]):
        f.add("ext-non-sink")
    if len(spec["ext"]) < sum(len(o) for o in outs.values()):
        f.add("ext-proper-subset")
    return sorted(f)


# ----------------------------------------------------------------------------- spec -> JobInstance (project's own builders)

def func_source(t):
    sig, star = [], False
    for p in t["params"]:
        if p["kind"] in ("kwreq", "kwdef") and not star:
            sig.append("*")
            star = True
        sig.append(p["n"] if "default" not in p else f"{p['n']}={_dec_static(p['default'])!r}")
    bound = "[" + ", ".join(f"({p['n']!r}, {p['n']})" for p in t["params"]) + "]"
    ann = {"int": " -> int", "str": " -> str", "tuple": " -> tuple", "bytes": " -> bytes"}.get(t["ret"], "") if len(t["outs"]) == 1 else ""
    if len(t["outs"]) == 1:
        body = f"    _trace({t['name']!r})\n    return _val({t['ret']!r}, {t['name']!r}, 0, {bound})\n"
    else:
        body = f"    _trace({t['name']!r})\n    _b = {bound}\n    for _i in range({len(t['outs'])}):\n        yield _val({t['ret']!r}, {t['name']!r}, _i, _b)\n"
    return f"def f({', '.join(sig)}){ann}:\n{body}"


def make_func(t):
    g = {"__name__": "c01_generated", "_val": _val, "_trace": _trace}
    exec(func_source(t), g)
    return g["f"]


def make_job(spec):
    """-> (JobInstance, {task: callable}); built with TaskBuilder.from_callable / JobBuilder of the tree under test."""
    from cascade.low.builders import JobBuilder, TaskBuilder
    from cascade.low.core import DatasetId
    jb = JobBuilder()
    funcs = {}
    for t in spec["tasks"]:
        f = make_func(t)
        funcs[t["name"]] = f
        tb = TaskBuilder.from_callable(f)          # defaults become static keyword inputs here
        kw = {b["p"]: _dec_static(b["val"]) for b in t["bind"] if b["how"] == "kw" and "val" in b}
        ps = {str(b["idx"]): _dec_static(b["val"]) for b in t["bind"] if b["how"] == "pos" and "val" in b}
        if kw:
            tb = tb.with_values(**kw)
        if ps and sorted(ps, key=int) == [str(i) for i in range(len(ps))]:
            tb = tb.with_values(*[ps[str(i)] for i in range(len(ps))])
        elif ps:
            tb = tb.model_copy(update={"static_input_ps": ps})
        if list(tb.definition.output_schema) != t["outs"]:
            tb = tb.model_copy(update={"definition": tb.definition.model_copy(update={"output_schema": {o: "Any" for o in t["outs"]}})})
        if t.get("gpu"):
            tb = tb.model_copy(update={"definition": tb.definition.model_copy(update={"needs_gpu": True})})
        jb = jb.with_node(t["name"], tb)
    for t in spec["tasks"]:
        for b in t["bind"]:
            if "src" in b:
                jb = jb.with_edge(b["src"][0], t["name"], b["idx"] if b["how"] == "pos" else b["p"], b["src"][1])
    job = jb.build().get_or_raise()
    job.ext_outputs = [DatasetId(t, o) for t, o in spec["ext"]]
    if spec.get("serdes"):
        from cascade.low.core import type_enc
        job.serdes = {type_enc(Box): (MOD + ".ser_box", MOD + ".des_box")}
    return job, funcs


# ----------------------------------------------------------------------------- reference: sequential interpreter

def seq_eval(job, funcs):
    """Sequential denotation of a JobInstance: {(task, output): value}. Written from the JobInstance semantics
    (static inputs, then upstream values by position / keyword, generator results bound in declaration order)."""
    vals, done = {}, set()
    ins = {t: [e for e in job.edges if e.sink_task == t] for t in job.tasks}
    while len(done) < len(job.tasks):
        ready = [t for t in job.tasks if t not in done and all(e.source.task in done for e in ins[t])]
        if not ready:
            raise ValueError("job is not a DAG")
        for t in ready:
            inst = job.tasks[t]
            args = {int(i): v for i, v in inst.static_input_ps.items()}
            kwargs = dict(inst.static_input_kw)
            for e in ins[t]:
                v = vals[(e.source.task, e.source.output)]
                if e.sink_input_kw is not None:
                    kwargs[e.sink_input_kw] = v
                else:
                    args[e.sink_input_ps] = v
            res = funcs[t](*[args[i] for i in range(len(args))], **kwargs)
            names = list(inst.definition.output_schema)
            res = [res] if len(names) == 1 else list(res)
            if len(res) != len(names):
                raise ValueError(f"{t}: {len(res)} results for {len(names)} outputs")
            vals.update({(t, o): v for o, v in zip(names, res)})
            done.add(t)
    return vals


def reference(spec):
    job, funcs = make_job(spec)
    ref = seq_eval(job, funcs)
    return {f"{t}|{o}": enc(ref[(t, o)]) for t, o in spec["ext"]}


# ----------------------------------------------------------------------------- runner (subprocess)

def _launch_executor(job, controller_address, workers, port_base, host, pidq):
    """Harness-side executor launcher (forked from the runner): the real Executor; records the pids of the worker
    processes it started (which pid is which worker is the executor's own business: `Executor.workers`)."""
    import logging
    logging.disable(logging.CRITICAL)
    from cascade.executor.executor import Executor
    ex = Executor(job, controller_address, workers, host, port_base, None)
    pidq.put((host, {"exec": os.getpid(), "daddress": str(getattr(ex, "daddress", ""))}))
    ex.register()
    try:
        rec = {"host": host, "exec": os.getpid(), "workers": {repr(w): (p.pid if p is not None else None) for w, p in ex.workers.items()},
               "order": [repr(w) for w in ex.workers]}
        tmp = os.path.join(TRACE_DIR, f".exec.{host}.tmp")
        with open(tmp, "w") as f:
            json.dump(rec, f)
        os.rename(tmp, os.path.join(TRACE_DIR, f"exec.{host}.json"))
    except Exception:
        pass
    ex.recv_loop()


def runner_main(case):
    """Runs in the subprocess (`python -m ekw.c01_real <case json>`): executors (fork), Bridge, controller.impl.run."""
    import logging
    import socket
    import warnings
    global TRACE_DIR
    warnings.filterwarnings("ignore")
    logging.disable(logging.CRITICAL)
    from multiprocessing import get_context
    from ekw import c05_cluster as cl
    t0 = time.time()
    out = {"ended": None, "error": None, "outputs": {}, "phase": "setup"}
    spec = case["spec"]
    TRACE_DIR = case.get("trace")

    startup_s = float(case.get("startup_s") or STARTUP_S)
    job_s = float(case.get("job_s") or JOB_S)

    def _startup_timeout():
        # the cluster did not come up (under heavy machine load a forked helper can deadlock in zmq/fork-with-threads): not a
        # verdict about the job -- `run_real` starts the case again; only a cluster that NEVER comes up is reported
        out["ended"] = "infra"
        out["error"] = f"start-up: cluster of {spec['hosts']} host(s) x {spec['workers']} worker(s) not up within {startup_s:.0f} s (phase {out['phase']})"
        cl._emit(out)
        os._exit(0)
    wd = threading.Timer(startup_s, _startup_timeout)
    wd.daemon = True
    wd.start()
    try:
        if spec.get("gpus") is not None:
            os.environ["CASCADE_GPU_COUNT"] = str(spec["gpus"])      # read by every Executor at construction
        else:
            os.environ.pop("CASCADE_GPU_COUNT", None)
        from cascade.controller.impl import run
        from cascade.executor.bridge import Bridge
        from cascade.scheduler.graph import precompute
        job, _ = make_job(spec)
        pre = precompute(job)
        port, uid = case["port"], case["uid"]
        c = f"tcp://localhost:{port}"
        ctx = get_context("fork")
        pidq = ctx.Queue()
        hosts = [f"{uid}h{i}" for i in range(spec["hosts"])]
        for i, h in enumerate(hosts):
            ctx.Process(target=_launch_executor, args=(job, c, spec["workers"], port + 1 + i * 10, h, pidq)).start()
        pids = {}
        for _ in hosts:
            h, d = pidq.get(timeout=startup_s)
            pids[h] = d
        # START-UP gate (as in ekw.c05_cluster): every host's data server listens before the job starts, so that a hang seen
        # after the first task body was entered is never excused as the fork-with-threads start-up deadlock
        for h, d in pids.items():
            addr = d.get("daddress", "")
            if addr.startswith("tcp://"):
                hp = addr[len("tcp://"):].rsplit(":", 1)
                tend, ok = time.time() + 0.75 * startup_s, False
                while time.time() < tend and not ok:
                    try:
                        socket.create_connection((hp[0], int(hp[1])), timeout=1.0).close()
                        ok = True
                    except OSError:
                        time.sleep(0.1)
                if not ok:
                    raise RuntimeError(f"start-up: data server of {h} is not listening on {addr}")
        out["phase"] = "bridge"
        bridge = Bridge(c, len(hosts))
        try:
            with open(os.path.join(TRACE_DIR, "env.json"), "w") as f:
                json.dump({repr(w): {"gpu": v.gpu, "cpu": v.cpu} for w, v in bridge.get_environment().workers.items()}, f)
        except Exception:
            pass

        def _wrap(name, describe):
            orig = getattr(bridge, name)

            def w(*a, **k):
                try:
                    _log_ctrl(dict(describe(*a, **k), cmd=name))
                except Exception:
                    _log_ctrl({"cmd": name})
                return orig(*a, **k)
            setattr(bridge, name, w)
        _wrap("task_sequence", lambda ts: {"worker": repr(ts.worker), "host": ts.worker.host, "tasks": list(ts.tasks), "publish": sorted(_ds(d) for d in ts.publish)})
        _wrap("transmit", lambda ds, source, target: {"ds": _ds(ds), "source": source, "target": target, "idx": bridge.transmit_idx_counter})
        _wrap("fetch", lambda ds, source: {"ds": _ds(ds), "source": source, "idx": bridge.transmit_idx_counter})
        _wrap("purge", lambda host, ds: {"ds": _ds(ds), "host": host})
        _wrap("shutdown", lambda: {})
        _recv = bridge.recv_events

        def recv_events():
            evs = _recv()
            for e in evs:
                try:
                    if hasattr(e, "header"):      # DatasetTransmitPayload: a fetched value
                        _log_ctrl({"cmd": "event", "type": "payload", "ds": _ds(e.header.ds), "idx": getattr(e.header, "confirm_idx", None)})
                    else:                         # DatasetPublished by a worker, or by a data server after a transfer
                        o = e.origin
                        _log_ctrl({"cmd": "event", "type": "published", "ds": _ds(e.ds), "host": o if isinstance(o, str) else o.host,
                                   "worker": None if isinstance(o, str) else repr(o), "idx": e.transmit_idx})
                except Exception:
                    _log_ctrl({"cmd": "event", "type": "?"})
            return evs
        bridge.recv_events = recv_events
        wd.cancel()
        out["phase"] = "run"
        out["t_setup"] = round(time.time() - t0, 2)

        def _job_timeout():
            out["ended"] = "hang"
            out["error"] = f"controller.impl.run did not return within {job_s:.0f} s"
            out["t_run"] = round(time.time() - t1, 2)
            cl._emit(out)
            os._exit(0)
        t1 = time.time()
        wd2 = threading.Timer(job_s, _job_timeout)
        wd2.daemon = True
        wd2.start()
    except BaseException as e:
        out["ended"] = "infra"
        out["error"] = f"{type(e).__name__}: {e}"
        cl._emit(out)
        os._exit(0)
    t1 = time.time()
    try:
        state = run(job, bridge, pre)
        wd2.cancel()
        out["ended"] = "ok"
        out["outputs"] = {"values": {f"{k.task}|{k.output}": enc(v) for k, v in state.outputs.items()}}
    except BaseException as e:
        wd2.cancel()
        out["ended"] = "error"
        out["error"] = f"{type(e).__name__}: {str(e)[:300]}"
        out["outputs"] = {"values": {}}
    out["t_run"] = round(time.time() - t1, 2)
    cl._emit(out)
    os._exit(0)


# ----------------------------------------------------------------------------- check-process side

_start_lock = threading.Lock()


def _ncpu():
    try:
        return len(os.sched_getaffinity(0)) or 1
    except Exception:
        return os.cpu_count() or 1


def machine_load():
    """1-minute load average per core available to this process."""
    try:
        return os.getloadavg()[0] / _ncpu()
    except OSError:
        return 0.0


def wait_for_calm(max_s=CALM_WAIT_S):
    """Re-runs that decide a hang verdict start when the machine is not oversubscribed (the 1-minute load is below the number of
    cores), or after max_s. Returns the seconds waited."""
    t = time.time()
    while machine_load() > 0.9 and time.time() - t < max_s:
        time.sleep(5.0)
    return round(time.time() - t, 1)


def run_real(spec, deadline_s=DEADLINE_S, settle_s=1.5, job_s=JOB_S):
    """One real run. Returns c05_cluster's observation dict (ended: ok|error|hang) + "trace" (read_trace) + "stats" +
    "job_started" (a task body was entered). Infrastructure trouble raises InfraError."""
    from ekw import c05_cluster as cl
    from ekw.core import InfraError
    obs, startup_fail = None, []
    # patience grows with the attempt: a cluster of 11-13 forked workers needs > 20 s of wall clock when the machine is
    # loaded well beyond its cores (seen: load 20 on 16 cores, three attempts of 20 s each all too short on a healthy tree);
    # a cluster that really cannot come up does not come up in 160 s either
    for _attempt, startup_s in enumerate(STARTUP_LADDER):
        tdir = tempfile.mkdtemp(prefix="c01r_")
        try:
            # run ids / port ranges of c05_cluster derive from (pid, millisecond, call counter): starts of concurrent runs are spaced
            _start_lock.acquire()
            threading.Timer(0.12, _start_lock.release).start()
            try:
                load0 = round(machine_load(), 2)
                obs = cl.run_case({"spec": spec, "trace": tdir, "startup_s": startup_s, "job_s": job_s},
                                  deadline_s=deadline_s + (startup_s - STARTUP_S) + (job_s - JOB_S), settle_s=settle_s, module=MOD)
                obs["load_per_core"] = [load0, round(machine_load(), 2)]
                obs["job_s"] = job_s
            except (OSError, RuntimeError) as e:          # cannot fork / no free port range
                raise InfraError(f"real-cluster run could not be started: {type(e).__name__}: {e}")
            tr = read_trace(tdir)
        finally:
            shutil.rmtree(tdir, ignore_errors=True)
        obs["trace"] = tr
        obs["job_started"] = bool(tr["bodies"])
        obs["stats"] = stats_of(tr)
        if obs["ended"] != "infra":
            obs["startup_retries"] = len(startup_fail)
            return obs
        if str(obs.get("error") or "").startswith("start-up:"):
            startup_fail.append(f"{obs['error']}; executors that registered their workers: {sorted(tr['execs'])}")
        time.sleep(0.5)
    if len(startup_fail) == len(STARTUP_LADDER):
        # the cluster never came up, four times in a row with growing patience: that is a verdict (e.g. address collisions that only some shapes have)
        obs.update(ended="hang", startup_never=True, error=" || ".join(startup_fail), startup_retries=len(startup_fail))
        return obs
    raise InfraError(f"real-cluster run could not be set up ({len(STARTUP_LADDER)} attempts): {obs.get('error')}")


def stats_of(tr):
    st = {"sequences": 0, "transmits": 0, "fetches": 0, "purges": 0, "shutdown_calls": 0, "bodies": len(tr["bodies"])}
    key = {"task_sequence": "sequences", "transmit": "transmits", "fetch": "fetches", "purge": "purges", "shutdown": "shutdown_calls"}
    for c in tr["ctrl"]:
        if c.get("cmd") in key:
            st[key[c["cmd"]]] += 1
    return st


def _progress(spec, obs):
    st, tr = obs.get("stats") or {}, obs.get("trace") or {"ctrl": []}
    fetched = {c["ds"] for c in tr["ctrl"] if c.get("cmd") == "fetch"}
    want = {f"{t}|{o}" for t, o in spec["ext"]}
    return (f"job started: {obs.get('job_started')}; {st.get('sequences', 0)} of {len(spec['tasks'])} tasks dispatched, {st.get('bodies', 0)} task bodies entered, "
            f"{st.get('transmits', 0)} transfers, {st.get('purges', 0)} purges and fetches for {len(fetched & want)} of the {len(want)} requested outputs commanded, "
            f"Bridge.shutdown entered: {bool(st.get('shutdown_calls'))}")


def _devices(cuda, gpus):
    """CUDA_VISIBLE_DEVICES -> the set of EXISTING devices (0..gpus-1) the process can use (unset: all of them)"""
    if cuda is None:
        return set(range(gpus))
    out = set()
    for x in str(cuda).split(","):
        x = x.strip()
        if not x.isdigit():
            break                          # CUDA stops at the first entry it cannot parse
        if int(x) < gpus:
            out.add(int(x))
    return out


def judge_trace(spec, tr):
    """Oracle over the trace of one run (any ending); nothing here reads the controller's State.
      * a task body is entered at most once, and in the process of the worker the controller dispatched the task to
        (C02's "dispatched exactly once, to that worker", which only a real cluster can show below the Bridge);
      * a task that needs a GPU runs in a process that can use an existing device, and no other worker of that host that
        ran a GPU task can use the same device ("at most one GPU per task": a device of its own);
      * purges reach the workers: a task body entered after the controller had commanded purge(h, d) -- its task sequence
        was issued later than the purge -- no longer finds d among the datasets its worker believes available on h.
        Commands travel through separate sockets below the executor, so a single stale sighting proves nothing; the
        verdict needs >= 3 sightings in the run with >= 3/4 of them stale;
      * C04's clauses at the real Bridge (commands issued / events returned, in the controller's order): a transfer or fetch names
        a source from which a DatasetPublished had arrived and whose purge had not been commanded; a purge is commanded only
        after every consumer (from the job) has announced all its outputs, after the value of a requested dataset has arrived,
        and not while a transfer / fetch commanded from that host is unanswered."""
    v = []
    info = {"purge_sightings": 0, "purge_stale": 0, "gpu_bodies": 0, "bodies_on_dispatch_worker": 0}
    pid2w = {}
    for h, e in tr["execs"].items():
        for w, pid in (e.get("workers") or {}).items():
            if pid is not None:
                pid2w[pid] = (w, h)
    for b in tr["bodies"]:                                    # launcher record missing (killed before it wrote): the worker's own word
        if b["pid"] not in pid2w and b.get("worker"):
            pid2w[b["pid"]] = (b["worker"], b["worker"].rsplit(".", 1)[0])
    disp, seq_at = {}, {}
    for i, c in enumerate(tr["ctrl"]):
        if c.get("cmd") == "task_sequence":
            for t in c.get("tasks", []):
                disp.setdefault(t, []).append(c["worker"])
                seq_at.setdefault(t, i)
    by_task = {}
    for b in tr["bodies"]:
        by_task.setdefault(b["task"], []).append(b)
    for t, bs in sorted(by_task.items()):
        if len(bs) > 1:
            v.append(("real-cluster-task-ran-twice", f"the body of task {t} was entered {len(bs)} times (processes {[b['pid'] for b in bs]}, workers {[pid2w.get(b['pid'], ('?',))[0] for b in bs]}); "
                                                     f"the controller dispatched it {len(disp.get(t, []))} time(s)"))
        for b in bs:
            w = pid2w.get(b["pid"])
            if w is None or t not in disp:
                continue
            if w[0] in disp[t]:
                info["bodies_on_dispatch_worker"] += 1
            else:
                v.append(("real-cluster-wrong-worker", f"task {t} was dispatched to worker {disp[t]} (Bridge.task_sequence) but its body ran in process {b['pid']} = worker {w[0]}"
                          + (f" (that worker's own entrypoint says it is {b['worker']})" if b.get("worker") else "")))
    # GPU
    gpus = spec.get("gpus")
    gpu_tasks = {t["name"] for t in spec["tasks"] if t.get("gpu")}
    if gpus is not None and gpu_tasks:
        seen = []                                             # (host, pid, worker, task, devices)
        for b in tr["bodies"]:
            if b["task"] in gpu_tasks:
                w = pid2w.get(b["pid"], (b.get("worker") or f"pid{b['pid']}", b.get("ppid")))
                seen.append((w[1], b["pid"], w[0], b["task"], _devices(b.get("cuda"), gpus), b.get("cuda")))
        info["gpu_bodies"] = len(seen)
        for h, pid, w, t, dev, raw in seen:
            if not dev:
                v.append(("real-cluster-gpu-task-without-device", f"task {t} needs a GPU but ran on worker {w} with CUDA_VISIBLE_DEVICES={raw!r}: none of the host's {gpus} device(s) 0..{gpus - 1} is visible there"))
        shared = set()
        for i, (h, pid, w, t, dev, raw) in enumerate(seen):
            for h2, pid2, w2, t2, dev2, raw2 in seen[i + 1:]:
                if h == h2 and pid != pid2 and dev & dev2 and (w, w2) not in shared:
                    shared.add((w, w2))
                    v.append(("real-cluster-gpu-device-shared", f"GPU tasks {t} on worker {w} (CUDA_VISIBLE_DEVICES={raw!r}) and {t2} on worker {w2} (CUDA_VISIBLE_DEVICES={raw2!r}) of one host "
                                                                f"can both use device(s) {sorted(dev & dev2)}: the workers of a host with {gpus} devices do not get a device each"))
    # what crossed the Bridge, in the controller's order (C04's clauses, seen on a real cluster)
    cons = {}                                                 # dataset -> tasks that read it
    nouts = {t["name"]: len(t["outs"]) for t in spec["tasks"]}
    for t in spec["tasks"]:
        for b in t["bind"]:
            if "src" in b:
                cons.setdefault(f"{b['src'][0]}|{b['src'][1]}", set()).add(t["name"])
    ext = {f"{t}|{o}" for t, o in spec["ext"]}
    held, outs_seen, delivered, pending, purged_at = set(), {}, set(), {}, set()
    for c in tr["ctrl"]:
        k = c.get("cmd")
        if k == "event" and c.get("type") == "published":
            held.add((c["host"], c["ds"]))
            if c.get("idx") is None:
                outs_seen.setdefault(c["ds"].split("|", 1)[0], set()).add(c["ds"])
            else:
                pending.pop(c["idx"], None)
        elif k == "event" and c.get("type") == "payload":
            delivered.add(c["ds"])
            pending.pop(c.get("idx"), None)
        elif k in ("transmit", "fetch"):
            info["log_transfers_fetches"] = info.get("log_transfers_fetches", 0) + 1
            if (c["source"], c["ds"]) not in held or (c["source"], c["ds"]) in purged_at:
                v.append(("real-cluster-source-does-not-hold", f"{k} of {c['ds']} commanded from host {c['source']}: " + ("the controller had commanded its purge there before" if (c["source"], c["ds"]) in purged_at
                          else "no DatasetPublished for it from that host had reached the controller")))
            pending[c.get("idx")] = (c["source"], c["ds"], k)
        elif k == "purge":
            info["log_purges"] = info.get("log_purges", 0) + 1
            d, h = c["ds"], c["host"]
            late = sorted(t for t in cons.get(d, ()) if len(outs_seen.get(t, ())) < nouts.get(t, 1))
            if late:
                v.append(("real-cluster-purge-before-consumers-done", f"purge of {d} on {h} commanded while its consumer(s) {late} had not completed (not all of their outputs had been announced to the controller)"))
            if d in ext and d not in delivered:
                v.append(("real-cluster-purge-before-delivered", f"purge of the requested output {d} on {h} commanded before its value had reached the caller (no payload event yet)"))
            un = sorted(f"{kk} #{i}" for i, (src, dd, kk) in pending.items() if src == h and dd == d)
            if un:
                v.append(("real-cluster-purge-while-unanswered", f"purge of {d} on {h} commanded while {un} commanded from that host was still unanswered"))
            purged_at.add((h, d))
    # purges
    stale = []
    for b in tr["bodies"]:
        if "avail" not in b or b["task"] not in seq_at:
            continue
        host = pid2w.get(b["pid"], (None, None))[1] or (b.get("worker") or "").rsplit(".", 1)[0]
        purged = {c["ds"] for c in tr["ctrl"][:seq_at[b["task"]]] if c.get("cmd") == "purge" and c.get("host") == host}
        info["purge_sightings"] += len(purged)
        for d in sorted(purged & set(b["avail"])):
            stale.append((b["task"], b.get("worker"), d))
    info["purge_stale"] = len(stale)
    if len(stale) >= 3 and 4 * len(stale) >= 3 * info["purge_sightings"]:
        v.append(("real-cluster-purge-not-applied", f"{len(stale)} of {info['purge_sightings']} times a task body, dispatched after the controller had commanded the purge of a dataset on its host, "
                                                    f"found that dataset still among those its worker believes available (entrypoint's availab_ds): e.g. task {stale[0][0]} on {stale[0][1]} still sees {stale[0][2]}; "
                                                    "purge commands do not reach the workers"))
    capped, n = [], {}
    for k, w in v:                                            # at most 3 witnesses of a kind per run
        n[k] = n.get(k, 0) + 1
        if n[k] <= 3:
            capped.append((k, w))
    return capped, info


def judge(spec, ref, obs):
    """Oracle from the property text (+ judge_trace). -> list of (kind, what)."""
    shape = f"{spec['hosts']} host(s) x {spec['workers']} worker(s)" + (f", {spec['gpus']} GPU(s) per host" if spec.get("gpus") is not None else "")
    v = []
    if obs.get("startup_never"):
        v.append(("real-cluster-hang", f"the cluster of {shape} did not come up in {len(STARTUP_LADDER)} attempts of {_LADDER_TXT} s: {obs.get('error')}"))
    elif obs["ended"] == "hang":
        v.append(("real-cluster-hang", f"run on {shape}: controller.impl.run did not return within {obs.get('job_s') or JOB_S:.0f} s of its start (cluster start-up took {obs.get('t_setup')} s; {_progress(spec, obs)})"))
    elif obs["ended"] == "error":
        v.append(("real-cluster-error", f"run on {shape} raised {obs.get('error')} although no task fails under sequential evaluation ({_progress(spec, obs)})"))
    else:
        got = (obs.get("outputs") or {}).get("values", {})
        for key, want in ref.items():
            if got.get(key) is None:
                v.append(("real-cluster-missing-output", f"requested output {key} was not delivered by the run on {shape} (sequential value {want!r}); delivered: {sorted(got)}"))
            elif got[key] != want:
                v.append(("real-cluster-wrong-value", f"requested output {key}: run on {shape} delivered {got[key]!r}, sequential evaluation gives {want!r}"))
    tv, info = judge_trace(spec, obs.get("trace") or {"bodies": [], "ctrl": [], "execs": {}})
    obs["trace_info"] = info
    return v + tv


def summary(obs):
    return dict({k: obs.get(k) for k in ("ended", "error", "t_setup", "t_run", "wall", "job_started", "alive_at_deadline", "stats", "trace_info", "load_per_core", "job_s")},
                delivered=sorted(((obs.get("outputs") or {}).get("values") or {})))


def check_case(spec, ref=None, deadline_s=DEADLINE_S, on_first=None):
    """run + judge -> (obs, [verdict dict(kind, what, sig)], runs | None).
    Wrong / missing values and the trace verdicts always count (one witness is enough). A hang / error verdict:
      * shows again on an immediate re-run of the same case                     -> reported;
      * does not show again, but the job HAD STARTED in the failing run (the cluster had passed the start-up gate and a
        task body had been entered)                                             -> reported with "reproduced": false
                                                                                    and both runs in the replay -- unless the
        machine was oversubscribed around the first run (1-minute load > cores) and a third run is clean too: dropped, counted;
      * does not show again and no task body had been entered                   -> dropped (counted): the fork-with-threads
        deadlock at cluster start-up under heavy machine load is outside C01.
    `on_first(kinds)` (used by Batch): called with the hang / error kinds of the first run; when it returns a number n > 0, n OTHER
    cases of the batch have shown the same kind in their first runs, which stands in for the re-run of this one."""
    if ref is None:
        ref = reference(spec)
    obs = run_real(spec, deadline_s)
    vs = [{"kind": k, "what": w, "sig": {"kind": k}} for k, w in judge(spec, ref, obs)]
    runs = None
    bad = [x for x in vs if x["kind"] in ("real-cluster-hang", "real-cluster-error")]
    if bad and obs.get("startup_never"):
        for x in bad:
            x["sig"] = {"kind": x["kind"], "where": "start-up"}
    elif bad and on_first is not None and (n_other := on_first({x["kind"] for x in bad})) and max(obs.get("load_per_core") or [0.0]) <= 1.0:
        # (on an oversubscribed machine other cases' first runs prove nothing: the deciding runs below are made)
        for x in bad:
            x["what"] += f" [not run again: {n_other} other case(s) of this batch showed the same verdict in their first run]"
    elif bad:
        # the deciding runs: on a calm machine (or after CALM_WAIT_S) and with three times the patience -- a starved process is
        # slow, a deadlocked one stays deadlocked
        waited = wait_for_calm()
        obs2 = run_real(spec, deadline_s, job_s=RERUN_JOB_S)
        kinds2 = {k for k, _ in judge(spec, ref, obs2)}
        runs = [summary(obs), summary(obs2)]
        obs["second_run"] = runs[1]
        obs["calm_wait_s"] = waited
        loaded = max(obs.get("load_per_core") or [0.0]) > 1.0       # more runnable processes than cores around the FIRST run
        kinds3 = None
        keep = []
        for x in vs:
            if x not in bad or x["kind"] in kinds2:
                keep.append(x)
            elif obs.get("job_started"):
                # seen once after the job had started, not seen on the patient re-run. On a machine that was not oversubscribed
                # that is reported as it stands; on an oversubscribed one (messages between local processes are sent with a
                # 1 s linger and no acknowledgement: comms.callback) a third run decides
                if loaded and kinds3 is None:
                    wait_for_calm()
                    obs3 = run_real(spec, deadline_s, job_s=RERUN_JOB_S)
                    kinds3 = {k for k, _ in judge(spec, ref, obs3)}
                    runs.append(summary(obs3))
                if loaded and x["kind"] not in kinds3:
                    obs.setdefault("dropped_under_load", []).append(x["kind"])
                    continue
                x["sig"] = {"kind": x["kind"], "reproduced": False}
                x["what"] += f" [the job HAD started; the immediate re-run of the same case ended {runs[1]['ended']}" + (f" ({runs[1]['error']})" if runs[1].get("error") else "") + "]"
                keep.append(x)
            else:
                obs.setdefault("dropped", []).append(x["kind"])
        vs = keep
    return obs, vs, runs


# ----- the batch of runs of one check: planned from one seed, executed by a few threads while the check goes on

def plan(seed, quick):
    """-> [(seed_i, spec)]: the quick tier runs one case of every family; the thorough tier 48 cases."""
    rng = random.Random(seed)
    if quick:
        fam = [("dense", None), ("dense+ambiguous", None), ("dense", "three-hosts"), ("dense", "gpu"), ("dense", "serde"), ("any", "wide-gpu"), ("any", "chain"), ("any", None),
               ("any", "many-pos"), ("any", "nd-replicated")]
    else:
        cyc = [("dense", None), ("dense+ambiguous", None), ("dense", "three-hosts"), ("dense", "gpu"), ("dense", "serde"), ("any", "chain"), ("any", None), ("any", "three-hosts"),
               ("dense", None), ("any+ambiguous", None), ("any", "gpu"), ("any", "serde")]
        fam = [cyc[i % len(cyc)] for i in range(40)] + [("any", "wide-gpu"), ("any", "wide-gpu")] + [("any", "many-pos"), ("any", "nd-replicated")] * 3
    out = []
    for kind, theme in fam:
        s = rng.randrange(1 << 30)
        out.append((s, build_spec(s, kind, theme)))
    return out


def build_spec(seed, kind, theme):
    grng = random.Random(seed)
    spec = gen_spec(grng, dense=kind.startswith("dense"), theme=theme)
    if kind.endswith("+ambiguous"):
        spec = ambiguate(spec, grng)
    spec["seed"] = seed
    spec["family"] = kind + ("/" + theme if theme else "")
    spec["hashseed"] = seed % 4294967295      # the scheduler iterates sets of strings: placement is a function of the hash seed
    return spec


class Batch:
    def __init__(self, items, conc=3):
        self.items = list(items)                  # [(seed, spec)]
        # the sequential references are computed here, in the caller's thread (the project's builders run in-process; the
        # threads below only wait for subprocesses and judge)
        self.refs = []
        for _seed, spec in self.items:
            try:
                self.refs.append((True, reference(spec)))
            except Exception as e:
                self.refs.append((False, f"{type(e).__name__}: {str(e)[:300]}"))
        self.results = {}                         # index -> (ref, obs, verdicts, runs) | ("build-error", text) | ("skipped",) | ("crash", exc)
        self._next = 0
        self.first_bad = {}                       # index -> hang / error kinds its first run showed
        self._lock = threading.Lock()
        self.stop = threading.Event()
        self.t0 = self.t_done = time.time()
        self.threads = [threading.Thread(target=self._work, daemon=True) for _ in range(min(conc, len(self.items)))]
        for th in self.threads:
            th.start()

    def _work(self):
        while True:
            with self._lock:
                i = self._next
                self._next += 1
            if i >= len(self.items):
                self.t_done = time.time()
                return
            if self.stop.is_set():
                self.results[i] = ("skipped",)
                continue
            seed, spec = self.items[i]
            try:
                ok, ref = self.refs[i]
                if not ok:
                    self.results[i] = ("build-error", ref)
                    continue
                def on_first(kinds, i=i):
                    with self._lock:
                        self.first_bad[i] = set(kinds)
                        n_other = sum(1 for j, k in self.first_bad.items() if j != i and k & set(kinds))
                        if len(self.first_bad) >= 2:
                            self.stop.set()       # two cases with a hang / error in their first run: no further case is started
                    return n_other
                obs, vs, runs = check_case(spec, ref, on_first=on_first)
                self.results[i] = (ref, obs, vs, runs)
            except BaseException as e:            # InfraError included: re-raised in the check's own thread
                self.results[i] = ("crash", e)

    def join(self):
        for th in self.threads:
            th.join(len(self.items) * (2 * DEADLINE_S + 60.0))


def start_real(ctx, conc=3):
    """Starts the real-cluster runs of this check in background threads (they mostly wait for subprocesses) and returns at
    once; `finish_real` collects. Seeds derive from the check's seed (VERIF_SEED) without consuming ctx.rng, so the cases of
    the SimBridge part are the same whether or not the real runs take place."""
    seed = int.from_bytes(hashlib.sha256(f"C01-real-{ctx.seed}-{ctx.tier}".encode()).digest()[:6], "big")
    return Batch(plan(seed, ctx.quick), conc)


def _account(ctx, seed, spec, res):
    case = {"real": spec}
    feats = features(spec)
    ctx.case(case, nontrivial=True)
    ctx.count("real:runs")
    ctx.count(f"real:family={spec.get('family')}")
    ctx.count(f"real:shape={spec['hosts']}x{spec['workers']}")
    ctx.count(f"real:hosts={spec['hosts']}")
    ctx.count(f"real:tasks={len(spec['tasks'])}")
    for f in feats:
        ctx.count("real:has:" + f)
    if res[0] == "build-error":
        ctx.violation({"kind": "real-cluster-error", "where": "build"}, case, f"building / evaluating the job with the project's builders raised {res[1]}")
        return None
    ref, obs, vs, runs = res
    ctx.traces += 1
    ctx.count("real:ended=" + obs["ended"])
    st, ti = obs.get("stats") or {}, obs.get("trace_info") or {}
    for k in ("sequences", "transmits", "fetches", "purges", "bodies"):
        ctx.count("real:" + k, st.get(k, 0))
    if st.get("transmits", 0) > 0:
        ctx.count("real:runs-with-inter-host-transfer")
    if st.get("purges", 0) > 0:
        ctx.count("real:runs-with-purge")
    for k in ("purge_sightings", "purge_stale", "gpu_bodies", "bodies_on_dispatch_worker", "log_transfers_fetches", "log_purges"):
        ctx.count("real:trace:" + k, ti.get(k, 0))
    if runs is not None:
        ctx.count("real:confirm-runs")
    if obs.get("startup_retries"):
        ctx.count("real:start-up-retries", obs["startup_retries"])
    for k in obs.get("dropped_under_load", []):
        ctx.count("real:hang-under-load-not-reproduced-" + k)
        ctx.notes.append(f"real-cluster {k} after the job had started, on an oversubscribed machine (load per core {obs.get('load_per_core')}), not seen in two patient re-runs on the calmer machine: dropped, seed {seed}")
    for k in obs.get("dropped", []):
        ctx.count("real:flaky-startup-" + k)
        ctx.notes.append(f"real-cluster {k} before any task body was entered, not reproduced on re-run (start-up flake, ignored), seed {seed}")
    ctx.extra.setdefault("real_runs", []).append({"seed": seed, "family": spec.get("family"), "shape": [spec["hosts"], spec["workers"]], "gpus": spec.get("gpus"), "tasks": len(spec["tasks"]),
                                                  "ext": len(spec["ext"]), "ended": obs["ended"], "t_setup": obs.get("t_setup"), "t_run": obs.get("t_run"), "wall": obs.get("wall"),
                                                  "stats": st, "verdicts": sorted({x["kind"] for x in vs})})
    seen = set()
    for x in vs:
        key = json.dumps(x["sig"], sort_keys=True)
        if key in seen:
            continue
        seen.add(key)
        if x["sig"].get("reproduced") is False:
            ctx.count("real:unreproduced-after-start-" + x["kind"])
        ctx.violation(x["sig"], dict(case, runs=runs) if runs else case,
                      f"{x['what']} [job of {len(spec['tasks'])} tasks, family {spec.get('family')}, generator seed {seed}; features: {', '.join(feats)}]")
    return st


def finish_real(ctx, batch):
    from ekw.core import InfraError
    batch.join()
    t_top = time.time()
    tot = {"transmits": 0, "purges": 0}
    for i, (seed, spec) in enumerate(batch.items):
        res = batch.results.get(i)
        if res is None:
            raise InfraError(f"real-cluster run {i} (seed {seed}) did not come back from its thread")
        if res[0] == "skipped":
            ctx.count("real:skipped-after-enough-failing-inputs")
            continue
        if res[0] == "crash":
            if isinstance(res[1], InfraError):
                raise res[1]
            raise RuntimeError(f"real-cluster harness crashed on seed {seed}: {type(res[1]).__name__}: {res[1]}")
        st = _account(ctx, seed, spec, res)
        for k in tot:
            tot[k] += (st or {}).get(k, 0)
    if batch.stop.is_set():
        ctx.notes.append("real-cluster runs stopped early: enough failing inputs")
    # the tier must have seen at least one inter-host transfer and one purge on a real cluster: top up with dense 2-host cases
    extra = random.Random(batch.items[0][0] ^ 0x5EED if batch.items else 0)
    tries = 0
    while not batch.stop.is_set() and (tot["transmits"] == 0 or tot["purges"] == 0) and tries < 4:
        tries += 1
        seed = extra.randrange(1 << 30)
        spec = build_spec(seed, "dense", "three-hosts")       # 3 hosts x 1-3 workers, workers+1 sources: ~7 of 8 such runs transfer
        ctx.count("real:top-up-runs")
        try:
            ref = reference(spec)
            res = (ref,) + check_case(spec, ref)
        except InfraError:
            raise
        except Exception as e:
            res = ("build-error", f"{type(e).__name__}: {str(e)[:300]}")
        st = _account(ctx, seed, spec, res)
        for k in tot:
            tot[k] += (st or {}).get(k, 0)
    if tot["transmits"] == 0 or tot["purges"] == 0:
        if not batch.stop.is_set():
            ctx.notes.append(f"real-cluster runs of this tier saw {tot['transmits']} inter-host transfers and {tot['purges']} purges")
    # wall of the real-cluster part itself: the batch (it ran beside the SimBridge part) + the top-up runs done here
    ctx.extra["real_wall_s"] = round((batch.t_done - batch.t0) + (time.time() - t_top), 2)


def correspond_real(ctx):
    """all real-cluster runs of the tier, synchronously (see start_real / finish_real)"""
    finish_real(ctx, start_real(ctx))


def replay(case):
    spec = case["real"]
    print(f"real-cluster case: {spec['hosts']} host(s) x {spec['workers']} worker(s)" + (f", CASCADE_GPU_COUNT={spec['gpus']}" if spec.get("gpus") is not None else "")
          + (", job registers a serde for Box" if spec.get("serdes") else "") + f", family {spec.get('family')}, generator seed {spec.get('seed')}, features: {features(spec)}")
    for t in spec["tasks"]:
        print(f"--- task {t['name']}  outputs (declaration order) {t['outs']}" + ("  needs_gpu" if t.get("gpu") else ""))
        print(func_source(t), end="")
        for b in t["bind"]:
            where = f"position {b['idx']}" if b["how"] == "pos" else f"keyword {b['p']}"
            print(f"    {where} <- " + (f"dataset {b['src'][0]}|{b['src'][1]}" if "src" in b else f"static {_dec_static(b['val'])!r}"))
    if case.get("runs"):
        print("recorded: the verdict showed in the first of these two consecutive runs of the case only:")
        for r in case["runs"]:
            print("   ", r)
    ref = reference(spec)
    print("requested + sequential reference:", json.dumps(ref))
    obs, vs, runs = check_case(spec, ref)
    print("real run:", summary(obs))
    print("delivered:", json.dumps((obs.get("outputs") or {}).get("values")))
    tr = obs.get("trace") or {}
    print("commands (in the controller's order):", [(c.get("cmd"), c.get("worker") or c.get("host") or c.get("source"), c.get("tasks") or c.get("ds")) for c in tr.get("ctrl", [])])
    print("task bodies:", [(b["task"], b.get("worker"), b["pid"], b.get("cuda")) for b in tr.get("bodies", [])])
    for x in vs:
        print("ORACLE:", x["kind"], "--", x["what"])
    if not vs:
        print("oracle: ok")
    return 1 if vs else 0


def _main(argv):
    if argv[1:2] == ["--stats"]:
        # development aid: python -m ekw.c01_real --stats N [seed0] [--dense] [--theme=T] [--dry] -> runs N random cases, prints shape/feature distribution + timings
        n, s0 = int(argv[2]), int(argv[3]) if len(argv) > 3 and argv[3].isdigit() else 0
        theme = ([a.split("=", 1)[1] for a in argv if a.startswith("--theme=")] or [None])[0]
        dist, bad = {}, 0
        for i in range(n):
            spec = build_spec(s0 + i, "dense" if "--dense" in argv else "any", theme)
            if "--dry" in argv:
                reference(spec)
                obs, vs = {"ended": "dry", "outputs": {}}, []
            else:
                obs, vs, _ = check_case(spec)
            st = obs.get("stats") or {}
            for f in features(spec) + [f"shape={spec['hosts']}x{spec['workers']}", f"tasks={len(spec['tasks'])}"] + (["run-with-transfer"] if st.get("transmits") else []) + (["run-with-purge"] if st.get("purges") else []):
                dist[f] = dist.get(f, 0) + 1
            bad += bool(vs)
            print(s0 + i, obs["ended"], obs.get("t_setup"), obs.get("t_run"), obs.get("wall"), st, obs.get("trace_info"), [x["kind"] for x in vs], flush=True)
            for x in vs:
                print("   ", x["what"][:400])
        print(json.dumps(dist, sort_keys=True, indent=1), "failing:", bad)
    elif argv[1:2] == ["--batch"]:
        # development aid: python -m ekw.c01_real --batch SEED [thorough] -> the real-cluster part of one check run, verdicts printed
        from ekw.core import Ctx
        ctx = Ctx("C01", "thorough" if "thorough" in argv else "quick", int(argv[2]))
        correspond_real(ctx)
        for r in ctx.extra.get("real_runs", []):
            print(r)
        for v in ctx.violations:
            print("VIOLATION", v["signature"], v["what"][:700])
        print({k: v for k, v in sorted(ctx.dist.items()) if not k.startswith("real:has:")})
        print("notes:", ctx.notes, "wall:", ctx.extra.get("real_wall_s"), "violations:", len(ctx.violations))
    else:
        case = json.loads(argv[1])
        hs = str(case.get("spec", {}).get("hashseed", 0))
        if os.environ.get("PYTHONHASHSEED") != hs:
            # same pid / session / stdout: the runner starts over with the hash seed recorded in the case, so that the re-run of a
            # case (and its replay) meets the same set iteration orders in the scheduler, i.e. the same placement decisions
            os.environ["PYTHONHASHSEED"] = hs
            os.execv(sys.executable, [sys.executable, "-m", MOD, argv[1]])
        runner_main(case)


if __name__ == "__main__":
    # re-enter under the importable name: Box, ser_box, des_box and TRACE_DIR must be those of `ekw.c01_real` (the serde
    # functions are resolved by that name in every process; task functions are pickled with references to it)
    import importlib
    importlib.import_module(MOD)._main(sys.argv)
