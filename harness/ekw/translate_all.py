"""Run every translator (used by setup.sh so that Gen/*.lean exist before the first lake build)."""
import importlib
import pkgutil
import sys
import traceback

import ekw.props as props
from ekw.core import Ctx


def main():
    for m in pkgutil.iter_modules(props.__path__):
        mod = importlib.import_module("ekw.props." + m.name)
        if hasattr(mod, "translate"):
            try:
                mod.translate(Ctx(mod.PROPERTY, "quick", 0))
            except Exception:
                traceback.print_exc()


if __name__ == "__main__":
    main()
