"""C11 helpers: abstract graphs (AG) <-> real earthkit.workflows.graph objects, structural canonical
forms, the symbolic interpreter (oracle), generators and shrinking.

AG (also the JSON the Lean driver reads/writes):
    {"nodes": [{"name": str, "outputs": [str], "payload": int, "inputs": [[input name, node index, output name]]}],
     "sinks": [node index]}
Nodes are listed in the order in which Transformer.transform finishes them (topological).
"""
from __future__ import annotations

import collections

# ----------------------------------------------------------------------------- payloads

_BASE = {0: None, 1: 1, 2: "p2", 3: (3, "t"), 4: [4], 5: {"k": 5}, 6: 6.5, 7: "", 8: frozenset({8})}


def payload_value(pid):
    """Injective (under ==) map payload id -> Python value. Lists/dicts on purpose: unhashable payloads.
    ["fuse", child, cin, parent, pout, pins, pouts] <-> the tuple the harness' fusion callback builds."""
    if isinstance(pid, (list, tuple)) and pid and pid[0] == "fuse":
        _, c, cin, pp, pout, pins, pouts = pid
        return ("fuse", payload_value(c), cin, payload_value(pp), pout, tuple(pins), tuple(pouts))
    if isinstance(pid, int):
        if pid in _BASE:
            v = _BASE[pid]
            return list(v) if isinstance(v, list) else (dict(v) if isinstance(v, dict) else v)
        return ("P", pid)
    raise ValueError(pid)


def payload_id(v):
    if isinstance(v, tuple) and len(v) == 7 and v[0] == "fuse":
        return ["fuse", payload_id(v[1]), v[2], payload_id(v[3]), v[4], list(v[5]), list(v[6])]
    for k, b in _BASE.items():
        if type(v) is type(b) and v == b:
            return k
    if isinstance(v, tuple) and len(v) == 2 and v[0] == "P":
        return v[1]
    raise ValueError(f"unknown payload {v!r}")


# ----------------------------------------------------------------------------- real <-> AG

def build(ag):
    """AG -> (Graph, [Node objects by index]); fresh objects every time."""
    from earthkit.workflows.graph import Graph, Node
    objs = []
    for n in ag["nodes"]:
        ins = {k: objs[j].get_output(o) for k, j, o in n["inputs"]}
        objs.append(Node(n["name"], outputs=list(n["outputs"]), payload=payload_value(n["payload"]), **ins))
    return Graph([objs[i] for i in ag["sinks"]]), objs


def visit_order(sinks):
    """The order in which Transformer.transform finishes nodes (same stack discipline)."""
    done = set()
    order = []
    todo = list(sinks)
    while todo:
        node = todo[-1]
        if id(node) in done:
            todo.pop()
            continue
        complete = True
        for isrc in node.inputs.values():
            if id(isrc.parent) not in done:
                todo.append(isrc.parent)
                complete = False
                break
        if not complete:
            continue
        order.append(node)
        done.add(id(node))
        todo.pop()
    return order


class BadGraph(Exception):
    """The object graph returned by a transformation is not a graph of Nodes/Outputs."""


def extract(sinks, pid=payload_id):
    """Real node objects reachable from `sinks` -> AG (visit order). Raises BadGraph if some input is
    not an Output of a Node (e.g. the `(node, output)` tuple fall-back leaked into the result)."""
    from earthkit.workflows.graph import Node
    from earthkit.workflows.graph.nodes import Output
    for s in sinks:
        if not isinstance(s, Node):
            raise BadGraph(f"sink is {type(s).__name__}")
    # validate while walking (visit_order itself touches .inputs/.parent)
    seen = set()
    stack = list(sinks)
    while stack:
        n = stack.pop()
        if id(n) in seen:
            continue
        seen.add(id(n))
        if not isinstance(n.inputs, dict):
            raise BadGraph(f"inputs of {n.name!r} is {type(n.inputs).__name__}")
        for k, src in n.inputs.items():
            if not isinstance(src, Output) or not isinstance(src.parent, Node):
                raise BadGraph(f"input {k!r} of {n.name!r} is {type(src).__name__}")
            stack.append(src.parent)
    order = visit_order(sinks)
    idx = {id(n): i for i, n in enumerate(order)}
    nodes = []
    for n in order:
        nodes.append({"name": n.name, "outputs": list(n.outputs), "payload": pid(n.payload),
                      "inputs": [[k, idx[id(src.parent)], src.name] for k, src in n.inputs.items()]})
    return {"nodes": nodes, "sinks": [idx[id(s)] for s in sinks]}


def normalise(ag):
    """Re-list an AG in visit order, dropping unreachable nodes."""
    g, _ = build(ag)
    return extract(g.sinks)


def restrict(ag, sinks):
    """Sub-AG reachable from `sinks` (indices re-numbered, order kept)."""
    nodes = ag["nodes"]
    reach = set()
    stack = list(sinks)
    while stack:
        i = stack.pop()
        if i in reach:
            continue
        reach.add(i)
        stack += [j for _, j, _ in nodes[i]["inputs"]]
    keep = sorted(reach)
    ren = {i: k for k, i in enumerate(keep)}
    return {"nodes": [dict(nodes[i], inputs=[[k, ren[j], o] for k, j, o in nodes[i]["inputs"]]) for i in keep],
            "sinks": [ren[s] for s in sinks]}


# ----------------------------------------------------------------------------- canonical form

class Interner:
    def __init__(self):
        self.t = {}

    def __call__(self, key):
        v = self.t.get(key)
        if v is None:
            v = self.t[key] = len(self.t)
        return v


INTERN = Interner()


def hp(p):
    """hashable form of a payload id"""
    if isinstance(p, (list, tuple)):
        return tuple(hp(x) for x in p)
    return p


def canon(ag, sort_sinks=False, rename=None, ordered=True):
    """Isomorphism-invariant form of the part of an AG reachable from its sinks: multiset of node keys
    (forward key = name, payload, outputs, inputs -> parents' keys; refined by the keys of the consumers,
    so sharing is visible) + sink keys. No object identities, no hash-seeded names.
    ordered (default): the inputs of a node are compared IN THE ORDER of its `inputs` dict (the model's
    `Node.inputs` is a list and every transformer defines the order of the inputs it builds; fuse_nodes offers
    the inputs to the callback in that order), not as a set."""
    nodes = ag["nodes"]
    sinks = ag["sinks"]
    rename = rename or (lambda s: s)
    reach = set()
    stack = list(sinks)
    while stack:
        i = stack.pop()
        if i in reach:
            continue
        reach.add(i)
        stack += [j for _, j, _ in nodes[i]["inputs"]]
    fk = {}
    cons = {i: [] for i in reach}
    for i in sorted(reach):
        n = nodes[i]
        ins = [(k, o, fk[j]) for k, j, o in n["inputs"]]
        fk[i] = INTERN(("F", rename(n["name"]), hp(n["payload"]), tuple(n["outputs"]),
                        tuple(ins) if ordered else tuple(sorted(ins))))
        for k, j, o in n["inputs"]:
            cons[j].append((i, k, o))
    sc = collections.Counter(sinks)
    bk = {}
    for i in sorted(reach, reverse=True):
        bk[i] = INTERN(("B", fk[i], sc[i], tuple(sorted((k, o, bk[c]) for c, k, o in cons[i]))))
    sk = [bk[s] for s in sinks]
    return {"nodes": sorted(bk[i] for i in reach), "sinks": sorted(sk) if sort_sinks else sk}


# ----------------------------------------------------------------------------- symbolic interpreter (oracle)

class Sym:
    """Hash-consed terms over payloads, computed on REAL node objects. A term is
    (payload id, outputs, {(input name, output name of parent, term of parent)}); names do not occur."""

    def __init__(self, pid=payload_id, ordered=False):
        self.memo = {}
        self.pid = pid
        self.ordered = ordered      # True: the ORDER of the inputs dict is part of the term ("TO" terms, never equal to "T" terms)

    def node(self, n):
        t = self.memo.get(id(n))
        if t is None:
            ins = tuple((k, src.name, self.node(src.parent)) for k, src in n.inputs.items())
            if not self.ordered:
                ins = tuple(sorted(ins))
            t = self.memo[id(n)] = INTERN(("TO" if self.ordered else "T", hp(self.pid(n.payload)), tuple(n.outputs), ins))
            self.keep = getattr(self, "keep", [])
            self.keep.append(n)   # keep the object alive: id() must stay unique
        return t

    def sinks(self, g):
        return [self.node(s) for s in g.sinks]


def ag_terms(ag):
    """Same terms, computed on an AG (used for expected values of expansions)."""
    ts = []
    for n in ag["nodes"]:
        ts.append(INTERN(("T", hp(n["payload"]), tuple(n["outputs"]), tuple(sorted((k, o, ts[j]) for k, j, o in n["inputs"])))))
    return ts


# ----------------------------------------------------------------------------- generators

NAMES = ["main", "mean", "m", "a", "ab", "a.b", "b", "0", "n0", "x.", "ma", "in", "name", "node", "p", "n.a.m", "am.i",
         "leaf", "i", "nim", ".", "a b", "é", "payload"]
OUTPUT_SETS = [["0"], ["0"], ["0"], ["o1", "o2"], ["0", "1", "2"], [], [], ["name"], ["payload", "copy"], ["outputs", "0"],
               ["inputs"], ["get_output"], ["__class__"], ["leaves", "0"], ["main", "mean"], ["serialise"], ["x.y", "0"],
               # permuted pairs (same set, other order: different nodes for `a.outputs != b.outputs`) and 4-6 outputs
               ["0", "y"], ["y", "0"], ["o2", "o1"], ["1", "0", "2"], ["2", "1", "0"], ["0", "x.y"], ["mean", "main"],
               ["a", "b", "c", "d"], ["d", "c", "b", "a"], ["0", "1", "2", "3", "4"], ["o1", "o2", "o3", "o4", "o5", "o6"],
               ["3", "0", "1", "2"]]
INPUT_NAMES = ["in0", "in1", "in2", "input", "x", "y", "node", "n", "p", "s", "a.b", "0", "inputs", "copy", "input0", "k", "graph", "g"]
PLAIN_OUTPUT_SETS = [["0"], ["0"], ["o1", "o2"], ["0", "1", "2"], []]
PLAIN_INPUT_NAMES = ["in0", "in1", "in2", "input", "x", "y"]


SEGMENTS = ["lo", "hi", "0", "o1", "o2", "x", "y", "a", "b", "mean", "1", "name", "in0", "input", "main", "x.y"]
CLUSTER_BASES = ["split", "main", "a", "a.b", "n.a.m", "m", "p", "0", "x", "in0", "mean", "o1", "node", "é"]


def ref_str(nodes, j, o):
    """`str(Output)`: the default output renders as the bare node name, a named one as `<node>.<output>`."""
    return nodes[j]["name"] if o == "0" else nodes[j]["name"] + "." + o


def derived_name(rng, nodes):
    """A node name built from what is already in the graph: `<node>.<output>`, `<node>.<DEFAULT_OUTPUT>`,
    several dots, a dotted name's prefix, another node's output name or input name.
    Returns (name, output the new node should declare so that the collision is a real one | None)."""
    x = rng.choice(nodes)
    r = rng.random()
    outs_all = [o for n in nodes for o in n["outputs"]]
    ins_all = [k for n in nodes for k, _, _ in n["inputs"]]
    if r < 0.30 and x["outputs"]:
        return x["name"] + "." + rng.choice(x["outputs"]), "0"
    if r < 0.38:
        return x["name"] + ".0", rng.choice(["0", None])
    if r < 0.48:
        return x["name"] + "." + rng.choice(SEGMENTS), rng.choice(["0", None])
    if r < 0.56:
        return x["name"] + "." + rng.choice(SEGMENTS) + "." + rng.choice(SEGMENTS), rng.choice(["0", None])
    if r < 0.72 and "." in x["name"].strip("."):
        cut = rng.choice([i for i, c in enumerate(x["name"]) if c == "." and 0 < i < len(x["name"]) - 1])
        return x["name"][:cut], x["name"][cut + 1:]           # a prefix that has the rest as a named output
    if r < 0.86 and outs_all:
        return rng.choice(outs_all), None
    if ins_all:
        return rng.choice(ins_all), None
    return x["name"] + ".0", None


def _add_cluster(rng, nodes, used, inames, outsets, pool, unique_names):
    """A name-collision cluster: one dotted string `b.s1...sk` split in several ways into (node name, output
    name) — ("b.s1", default), ("b", "s1"), ("b", "s1.s2"), ... — so that str()/"<node>.<output>" renderings
    of DIFFERENT outputs coincide, plus consumers with equal payload, outputs and input names, one per
    producer (and possibly an exact duplicate): everything a name-based de-duplication / cache / cut key
    would confuse although the consumers denote different terms."""
    base = rng.choice(CLUSTER_BASES + pool[:6])
    segs = [rng.choice([s for s in SEGMENTS if "." not in s]) for _ in range(rng.choice([1, 1, 1, 2, 2, 3]))]
    parts = base.split(".") if all(base.split(".")) else [base]
    nbase = len(parts)
    full = parts + segs
    splits = list(range(1, len(full) + 1))
    rng.shuffle(splits)
    # always include one split inside the segments so that a named output is involved
    chosen = splits[:rng.randint(2, min(3, len(splits)))]
    if all(p == len(full) or p < nbase for p in chosen):
        chosen[0] = rng.randint(nbase, len(full) - 1)
    chosen = sorted(set(chosen))
    cands = [(j, o) for j, x in enumerate(nodes) for o in x["outputs"]]
    common = []
    if cands and rng.random() < 0.6:
        for kn in rng.sample(inames, rng.randint(1, min(2, len(cands)))):
            common.append([kn] + list(rng.choice(cands)))
    same_payload = rng.random() < 0.5
    pay = rng.randint(0, 4)
    extra_out = rng.choice([[], [], ["0"], [rng.choice(SEGMENTS)], ["0", rng.choice(SEGMENTS)]])
    prods = []
    if not unique_names and rng.random() < 0.6:
        chosen = chosen + [rng.choice(chosen)]     # two DIFFERENT nodes with the same name and the same output name
    for p in chosen:
        name = ".".join(full[:p])
        out = ".".join(full[p:]) or "0"
        if unique_names and name in used:
            continue
        outs = [out] + [o for o in extra_out if o != out]
        outs = list(dict.fromkeys(outs))
        rng.shuffle(outs)
        ins = [list(x) for x in common] if rng.random() < 0.8 else []
        used.add(name)
        nodes.append({"name": name, "outputs": outs, "payload": pay if same_payload else rng.randint(0, 4), "inputs": ins})
        prods.append((len(nodes) - 1, out))
    if len(prods) < 2:
        return
    if rng.random() < 0.3:
        prods.append(rng.choice(prods))          # an exact duplicate among the consumers: a merge that IS right
    rng.shuffle(prods)
    ks = rng.sample(inames, rng.randint(1, 2))
    cpay = rng.randint(0, 4)
    couts = list(rng.choice(outsets))
    cands = [(j, o) for j, x in enumerate(nodes) for o in x["outputs"]]
    second = list(rng.choice(cands)) if len(ks) > 1 else None
    for j, o in prods:
        ins = [[ks[0], j, o]]
        if second is not None:
            ins.append([ks[1]] + second)
            rng.shuffle(ins)
        nm = base_nm = rng.choice(pool)
        c = 0
        while unique_names and nm in used:
            nm = base_nm + str(c)
            c += 1
        used.add(nm)
        nodes.append({"name": nm, "outputs": list(couts), "payload": cpay, "inputs": ins})


def _confusable(nodes, j, o):
    """Outputs other than (j, o) that some name-based rendering cannot tell from it: equal str(Output),
    equally named parents with the same output name, `<node>.<output>` strings that are equal."""
    s = ref_str(nodes, j, o)
    full = nodes[j]["name"] + "." + o
    out = []
    for j2, x in enumerate(nodes):
        for o2 in x["outputs"]:
            if (j2, o2) == (j, o):
                continue
            if ref_str(nodes, j2, o2) == s or x["name"] + "." + o2 == full or (x["name"] == nodes[j]["name"] and j2 != j):
                out.append((j2, o2))
    return out


def gen_graph(rng, nmax, adversarial=True, unique_names=True, names=None, min_nodes=1, collide=None):
    """Random DAG: shared sub-expressions, multi-output nodes, exact duplicates (also with permuted input
    order), several sinks (also non-terminal ones), adversarial names; node names derived from other nodes'
    names / output names / input names, name-collision clusters and "twins" (equal payload, outputs and
    input names, inputs re-pointed to outputs that render alike)."""
    n = rng.randint(min_nodes, max(min_nodes, nmax))
    outsets = OUTPUT_SETS if adversarial else PLAIN_OUTPUT_SETS
    inames = INPUT_NAMES if adversarial else PLAIN_INPUT_NAMES
    pool = names or NAMES
    nodes = []
    used = set()
    if collide is None:
        collide = adversarial and rng.random() < 0.45
    cluster_at = rng.randint(0, max(0, n - 4)) if collide and rng.random() < 0.7 else None
    p_derived = 0.4 if collide else (0.08 if adversarial else 0.0)
    p_twin = 0.3 if collide else (0.06 if adversarial else 0.0)
    i = -1
    while len(nodes) < n:
        i += 1
        if cluster_at is not None and i == cluster_at:
            _add_cluster(rng, nodes, used, inames, outsets, pool, unique_names)
            continue
        want_out = None
        twin = None
        if nodes and rng.random() < p_twin:
            # twin: same payload / outputs / input names as an existing node, >= 1 input re-pointed to a confusable output
            opts = [(x, t, c) for x in nodes for t, (k, j, o) in enumerate(x["inputs"]) for c in [_confusable(nodes, j, o)] if c]
            if opts:
                src, t, conf = rng.choice(opts)
                ins = [list(x) for x in src["inputs"]]
                ins[t] = [ins[t][0]] + list(rng.choice(conf))
                for t2 in range(len(ins)):
                    c2 = _confusable(nodes, ins[t2][1], ins[t2][2])
                    if t2 != t and c2 and rng.random() < 0.3:
                        ins[t2] = [ins[t2][0]] + list(rng.choice(c2))
                rng.shuffle(ins)
                twin = {"name": None, "outputs": list(src["outputs"]), "payload": src["payload"], "inputs": ins}
        if twin is not None:
            node = twin
        elif nodes and rng.random() < 0.25:
            src = rng.choice(nodes)
            ins = [list(x) for x in src["inputs"]]
            rng.shuffle(ins)
            node = {"name": None, "outputs": list(src["outputs"]), "payload": src["payload"], "inputs": ins}
            if len(node["outputs"]) > 1 and rng.random() < 0.35:
                # equal payload, inputs and SET of outputs, but the outputs listed in another order: not a duplicate
                # (`a.outputs != b.outputs`), although a set-based comparison would say so
                outs = list(node["outputs"])
                while outs == node["outputs"]:
                    rng.shuffle(outs)
                node["outputs"] = outs
            if rng.random() < (0.6 if len(ins) >= 4 else 0.3) and ins:      # near-duplicate: one input re-pointed / payload changed
                if rng.random() < (0.2 if len(ins) >= 4 else 0.5):
                    node["payload"] = rng.randint(0, 4)
                else:
                    cands = [(j, o) for j, x in enumerate(nodes) for o in x["outputs"]]
                    j, o = rng.choice(cands)
                    ins[0] = [ins[0][0], j, o]
        else:
            cands = [(j, o) for j, x in enumerate(nodes) for o in x["outputs"]]
            k = rng.randint(0, min(3, len(cands))) if cands else 0
            if cands and rng.random() < 0.10:
                k = rng.randint(4, 6)              # wide node: 4-6 inputs (parents drawn with replacement)
            ks = rng.sample(inames, k)
            ins = []
            for kn in ks:
                j, o = rng.choice(cands)
                ins.append([kn, j, o])
            node = {"name": None, "outputs": list(rng.choice(outsets)), "payload": rng.randint(0, 4), "inputs": ins}
        nm = rng.choice(pool)
        if adversarial and rng.random() < 0.3:
            nm = nm + rng.choice(["", ".", "-1", "0", ".mean", "n"])
        if nodes and rng.random() < p_derived:
            nm, want_out = derived_name(rng, nodes)
        elif nodes and not unique_names and rng.random() < 0.25:
            nm = rng.choice(nodes)["name"]           # the very name of another node
        if unique_names:
            base = nm
            c = 0
            while nm in used:
                nm = base + str(c)
                c += 1
            if nm != base:
                want_out = None
        if want_out is not None and twin is None and want_out not in node["outputs"] and rng.random() < 0.8:
            node["outputs"] = node["outputs"] + [want_out] if node["outputs"] and rng.random() < 0.5 else [want_out]
        used.add(nm)
        node["name"] = nm
        nodes.append(node)
    n = len(nodes)
    consumed = {j for x in nodes for _, j, _ in x["inputs"]}
    sinks = [i for i in range(n) if i not in consumed]
    extra = [i for i in range(n) if i in consumed and rng.random() < 0.12]
    sinks += extra
    if rng.random() < 0.05 and sinks:
        sinks.append(rng.choice(sinks))
    rng.shuffle(sinks)
    return normalise({"nodes": nodes, "sinks": sinks})


def gen_chainy(rng, nmax, adversarial=True):
    """DAG with many single-consumer edges (chains, combs): what fusion is about."""
    n = rng.randint(2, max(2, nmax))
    outsets = [["0"], ["0"], ["0"], ["o1", "o2"]] + ([["name", "0"]] if adversarial else [])
    inames = INPUT_NAMES if adversarial else PLAIN_INPUT_NAMES
    nodes = []
    free = []      # (node, output) not yet consumed
    used = set()
    for i in range(n):
        k = 0 if not free else rng.choice([0, 1, 1, 1, 2, 2, 3] + ([4, 5] if rng.random() < 0.3 else []))
        ins = []
        for kn in rng.sample(inames, min(k, len(inames))):
            if free and rng.random() < 0.85:
                j, o = free.pop(rng.randrange(len(free)))
            else:
                cands = [(j, o) for j, x in enumerate(nodes) for o in x["outputs"]]
                if not cands:
                    break
                j, o = rng.choice(cands)
            ins.append([kn, j, o])
        outs = list(rng.choice(outsets)) if i < n - 1 or rng.random() < 0.5 else []
        nm = rng.choice(NAMES if adversarial else ["n", "p", "q"])
        if adversarial and nodes and rng.random() < 0.3:
            nm, want = derived_name(rng, nodes)
            if want is not None and outs and want not in outs and nm not in used and rng.random() < 0.7:
                outs = outs + [want] if rng.random() < 0.5 else [want]
        base, c = nm, 0
        while nm in used:
            nm = base + str(c)
            c += 1
        used.add(nm)
        nodes.append({"name": nm, "outputs": outs, "payload": rng.randint(0, 4), "inputs": ins})
        for o in outs:
            if rng.random() < 0.8:
                free.append((i, o))
    consumed = {j for x in nodes for _, j, _ in x["inputs"]}
    sinks = [i for i in range(n) if i not in consumed]
    sinks += [i for i in range(n) if i in consumed and rng.random() < 0.08]
    rng.shuffle(sinks)
    return normalise({"nodes": nodes, "sinks": sinks})


def features(ag):
    """Counters describing one AG (for the evidence distribution and the non-triviality rule)."""
    f = {}
    nodes = ag["nodes"]
    cons = collections.Counter(j for n in nodes for _, j, _ in n["inputs"])
    f["shared"] = any(v > 1 for v in cons.values())
    f["multi_output"] = any(len(n["outputs"]) > 1 for n in nodes)
    f["multi_sink"] = len(ag["sinks"]) > 1
    f["dup_names"] = len({n["name"] for n in nodes}) < len(nodes)
    attrs = _node_attrs()
    f["attr_output"] = any(o in attrs for n in nodes for o in n["outputs"])
    f["param_input"] = any(k in ("node", "n", "p", "s", "g", "graph") for n in nodes for k, _, _ in n["inputs"])
    f["terminal_with_outputs"] = any(nodes[s]["outputs"] for s in ag["sinks"])
    f["wide_inputs_4plus"] = any(len(n["inputs"]) >= 4 for n in nodes)
    f["wide_outputs_4plus"] = any(len(n["outputs"]) >= 4 for n in nodes)
    f["fourth_output_consumed"] = any(o in nodes[j]["outputs"][3:] for n in nodes for _, j, o in n["inputs"])
    perm = collections.defaultdict(set)
    for n in nodes:
        if len(n["outputs"]) > 1:
            perm[(hp(n["payload"]), tuple(sorted(n["outputs"])), tuple(sorted(map(tuple, n["inputs"]))))].add(tuple(n["outputs"]))
    f["permuted_output_twins"] = any(len(v) > 1 for v in perm.values())
    f["sink_twice"] = len(set(ag["sinks"])) < len(ag["sinks"])
    # names built from other names
    names = {n["name"] for n in nodes}
    f["name_is_node_dot_output"] = any(n["name"] + "." + o in names for n in nodes for o in n["outputs"])
    f["name_is_output_or_input_name"] = bool(names & ({o for n in nodes for o in n["outputs"]} | {k for n in nodes for k, _, _ in n["inputs"]}))
    f["name_many_dots"] = any(n["name"].count(".") >= 2 for n in nodes)
    rend = collections.defaultdict(set)
    for j, n in enumerate(nodes):
        for o in n["outputs"]:
            rend[ref_str(nodes, j, o)].add((j, o))
    f["outputs_render_alike"] = any(len(v) > 1 for v in rend.values())
    # two nodes a name-based comparison cannot tell apart although they read different outputs
    sig = collections.defaultdict(set)
    for n in nodes:
        if n["inputs"]:
            key = (hp(n["payload"]), tuple(n["outputs"]), tuple(sorted((k, ref_str(nodes, j, o)) for k, j, o in n["inputs"])))
            sig[key].add(tuple(sorted((k, j, o) for k, j, o in n["inputs"])))
    f["colliding_consumers"] = any(len(v) > 1 for v in sig.values())
    return f


_ATTRS = None


def _node_attrs():
    global _ATTRS
    if _ATTRS is None:
        from earthkit.workflows.graph import Node
        _ATTRS = set(dir(Node("x")))
    return _ATTRS


# ----------------------------------------------------------------------------- shrinking

def _drop_node(ag, i):
    """Remove node i if nothing consumes it."""
    nodes = ag["nodes"]
    if any(j == i for n in nodes for _, j, _ in n["inputs"]):
        return None
    ren = lambda j: j if j < i else j - 1
    new = [dict(n, inputs=[[k, ren(j), o] for k, j, o in n["inputs"]]) for t, n in enumerate(nodes) if t != i]
    if not new:
        return None
    sinks = [ren(s) for s in ag["sinks"] if s != i]
    return _resink({"nodes": new, "sinks": sinks})


def _with_node(ag, i, node):
    nodes = list(ag["nodes"])
    nodes[i] = node
    return {"nodes": nodes, "sinks": list(ag["sinks"])}


def _resink(ag):
    """Nodes that nothing consumes must be sinks to stay in the graph."""
    consumed = {j for n in ag["nodes"] for _, j, _ in n["inputs"]}
    sinks = list(ag["sinks"])
    for j in range(len(ag["nodes"])):
        if j not in consumed and j not in sinks:
            sinks.append(j)
    return {"nodes": ag["nodes"], "sinks": sinks}


def ag_neighbors(ag):
    """Smaller / simpler variants of an AG, as (new AG, change) pairs. change = None or
    ("rename-node", old, new) so that callers can adapt parameters keyed by node name."""
    nodes = ag["nodes"]
    for i in range(len(nodes) - 1, -1, -1):
        c = _drop_node(ag, i)
        if c is not None:
            yield c, None
    for i, n in enumerate(nodes):
        for t in range(len(n["inputs"])):
            yield _resink(_with_node(ag, i, dict(n, inputs=n["inputs"][:t] + n["inputs"][t + 1:]))), None
    if len(ag["sinks"]) > 1:
        for t in range(len(ag["sinks"])):
            c = _resink(dict(ag, sinks=ag["sinks"][:t] + ag["sinks"][t + 1:]))
            if sorted(c["sinks"]) != sorted(ag["sinks"]):
                yield c, None
    for i, n in enumerate(nodes):
        if n["payload"] != 0:
            yield _with_node(ag, i, dict(n, payload=0)), None
    names = {n["name"] for n in nodes}
    for i, n in enumerate(nodes):
        plain = "n%d" % i
        if n["name"] != plain and plain not in names:
            yield _with_node(ag, i, dict(n, name=plain)), ("rename-node", n["name"], plain)
    for i, n in enumerate(nodes):
        for t, (k, j, o) in enumerate(n["inputs"]):
            plain = "in%d" % t
            if k != plain and all(x[0] != plain for x in n["inputs"]):
                ins = [list(x) for x in n["inputs"]]
                ins[t][0] = plain
                yield _with_node(ag, i, dict(n, inputs=ins)), None
    for i, n in enumerate(nodes):
        for t, o in enumerate(n["outputs"]):
            plain = "0" if len(n["outputs"]) == 1 else "o%d" % t
            if o != plain and plain not in n["outputs"]:
                outs = list(n["outputs"])
                outs[t] = plain
                new = [dict(x, inputs=[[k, j, (plain if (j == i and oo == o) else oo)] for k, j, oo in x["inputs"]]) for x in nodes]
                new[i] = dict(new[i], outputs=outs)
                yield {"nodes": new, "sinks": list(ag["sinks"])}, ("rename-output", n["name"], o, plain)
