"""Core of the check machinery: Lean build/audit, line-protocol driver, evidence, decision.

Every property module (harness/ekw/props/cXX.py) exposes

    PROPERTY   = "Cxx"
    LEAN_PROPS = ["EkwVerif.Props.Cxx", ...]          # modules holding the property theorems
    def translate(ctx)            (optional)  regenerate lean/EkwVerif/Gen/*.lean from /repo
    def correspond(ctx)           runs model and implementation on the same inputs; uses
                                  ctx.disagree(...) for differences and ctx.violation(...) for
                                  oracle failures on the real code
    def search(ctx, why)          (optional) extra violation search when (P) or (T) is broken

The decision procedure is in `run_property` (DESIGN.md section 2.2).
"""
from __future__ import annotations

import fcntl
import hashlib
import json
import os
import random
import re
import subprocess
import sys
import time
import traceback
from pathlib import Path

VERIF = Path(__file__).resolve().parents[2]
LEAN_DIR = Path(os.environ.get("EKW_LEAN_DIR", str(VERIF / "lean")))
REPO = Path(os.environ.get("EKW_REPO", "/repo"))
EVIDENCE_DIR = Path(os.environ.get("EKW_EVIDENCE_DIR", str(VERIF / "evidence")))   # overridden only by tools/seed_eval.py
REPLAY_DIR = Path(os.environ.get("EKW_REPLAY_DIR", str(VERIF / "replays")))
CORPUS_DIR = VERIF / "corpus"
KNOWN_FILE = VERIF / "known_findings.json"

ALLOWED_AXIOMS = {"propext", "Classical.choice", "Quot.sound"}
FORBIDDEN_RE = re.compile(
    r"\bsorry\b|\badmit\b|^\s*axiom\s|native_decide|bv_decide|implemented_by|\bunsafe\s|maxHeartbeats\s+0\b",
    re.M,
)

TRUSTED_BASE = [
    "Lean 4.33.0 kernel + elaborator (thorough tier: leanchecker re-check of the .olean files)",
    "axioms allowed in property theorems: propext, Classical.choice, Quot.sound (audited with #print axioms on every run); no native_decide, no bv_decide, no own axioms, no sorry",
    "hand-written executable model (modelled, not verified) tied to /repo by the correspondence check of this run (sampling: generator distribution is printed in coverage)",
    "Python harness: generators, canonicalisers, translators (validated dynamically each run)",
    "CPython, NumPy, xarray, pydantic, orjson, pickle/cloudpickle, pyzmq, POSIX shm: given",
]


class InfraError(Exception):
    """Infrastructure trouble (lake crash, timeout): exit 2, never a VIOLATION."""


# --------------------------------------------------------------------------- lake / lean

class _LakeLock:
    def __enter__(self):
        self.f = open(LEAN_DIR / ".lake.lock", "w")
        fcntl.flock(self.f, fcntl.LOCK_EX)
        return self

    def __exit__(self, *a):
        fcntl.flock(self.f, fcntl.LOCK_UN)
        self.f.close()


def _run(cmd, cwd=None, input=None, timeout=3600, env=None):
    e = dict(os.environ)
    if env:
        e.update(env)
    try:
        p = subprocess.run(cmd, cwd=cwd, input=input, capture_output=True, text=True, timeout=timeout, env=e)
    except subprocess.TimeoutExpired as ex:
        raise InfraError(f"timeout running {cmd}: {ex}")
    return p.returncode, p.stdout, p.stderr


def lake_build(targets, timeout=3600):
    """Returns (ok, log). Serialised with a file lock so parallel checks do not corrupt .lake."""
    with _LakeLock():
        rc, out, err = _run(["lake", "build", *targets], cwd=LEAN_DIR, timeout=timeout)
    log = out + err
    if rc != 0 and ("error: " not in log and "error:" not in log):
        raise InfraError("lake build failed without a Lean error:\n" + log[-2000:])
    return rc == 0, log


def lean_file(path, timeout=1800):
    """`lake env lean <file>` (elaborates a file against the built library, no output files)."""
    rc, out, err = _run(["lake", "env", "lean", str(path)], cwd=LEAN_DIR, timeout=timeout)
    return rc == 0, out + err


_THEOREM_RE = re.compile(r"^\s*(?:@\[[^\]]*\]\s*)?(?:protected\s+|private\s+)?theorem\s+([A-Za-z_][\w.']*)", re.M)
_NS_RE = re.compile(r"^\s*namespace\s+([\w.]+)", re.M)


def strip_comments(src: str) -> str:
    src = re.sub(r"/-.*?-/", "", src, flags=re.S)
    src = re.sub(r"--[^\n]*", "", src)
    return src


def props_theorems(module: str):
    """List (fully qualified) theorem names declared in a Props module, by reading its source."""
    path = LEAN_DIR / (module.replace(".", "/") + ".lean")
    src = strip_comments(path.read_text())
    ns = _NS_RE.findall(src)
    prefix = (ns[0] + ".") if ns else ""
    return [prefix + n for n in _THEOREM_RE.findall(src) if re.match(r"c\d\d_", n)]


def module_deps(module: str, seen=None):
    """Transitive EkwVerif.* imports of a module (source level)."""
    seen = seen if seen is not None else []
    if module in seen:
        return seen
    seen.append(module)
    path = LEAN_DIR / (module.replace(".", "/") + ".lean")
    if not path.exists():
        return seen
    for m in re.findall(r"^import\s+(EkwVerif[\w.]*)", path.read_text(), re.M):
        module_deps(m, seen)
    return seen


def forbidden_scan(modules):
    hits = []
    for m in modules:
        path = LEAN_DIR / (m.replace(".", "/") + ".lean")
        if not path.exists():
            continue
        src = strip_comments(path.read_text())
        for mm in FORBIDDEN_RE.finditer(src):
            hits.append(f"{m}: {mm.group(0).strip()}")
    return hits


def audit_axioms(prop_modules, theorems):
    """#print axioms for every property theorem; returns {theorem: [axioms]} or raises."""
    tmp = LEAN_DIR / ".lake" / f"audit_{os.getpid()}.lean"
    tmp.parent.mkdir(exist_ok=True)
    body = "".join(f"import {m}\n" for m in prop_modules) + "".join(f"#print axioms {t}\n" for t in theorems)
    tmp.write_text(body)
    try:
        ok, log = lean_file(tmp)
    finally:
        try:
            tmp.unlink()
        except OSError:
            pass
    res = {}
    # "'name' depends on axioms: [a, b]" | "'name' does not depend on any axioms"
    for m in re.finditer(r"'([^']+)' depends on axioms: \[([^\]]*)\]", log.replace("\n ", " ")):
        res[m.group(1)] = [a.strip() for a in m.group(2).split(",") if a.strip()]
    for m in re.finditer(r"'([^']+)' does not depend on any axioms", log):
        res[m.group(1)] = []
    return ok, res, log


def lean_drive(drive_module: str, lines, timeout=1800):
    """Pipe `lines` to `lake env lean --run EkwVerif/Drive/<X>.lean`; returns output lines."""
    path = "EkwVerif/Drive/" + drive_module + ".lean"
    data = "".join(l.rstrip("\n") + "\n" for l in lines)
    rc, out, err = _run(["lake", "env", "lean", "--run", path], cwd=LEAN_DIR, input=data, timeout=timeout)
    if rc != 0:
        raise InfraError(f"lean driver {drive_module} failed rc={rc}:\n{err[-3000:]}\n{out[-1000:]}")
    return out.splitlines()


# --------------------------------------------------------------------------- context

class Ctx:
    def __init__(self, prop: str, tier: str, seed: int):
        self.prop = prop
        self.tier = tier
        self.seed = seed
        self.rng = random.Random(seed)
        self.t0 = time.time()
        self.evaluations = 0
        self.nontrivial_keys = set()
        self.samples = []
        self.dist = {}
        self.disagreements = []   # (T) broken: list of dict(case=..., model=..., impl=..., where=...)
        self.violations = []      # oracle failures on the real code: dict(signature=..., case=..., what=...)
        self.traces = 0
        self.notes = []
        self.assumptions = []
        self.rule = ""
        self.extra = {}

    @property
    def quick(self):
        return self.tier == "quick"

    def budget(self, quick, thorough):
        return quick if self.quick else thorough

    def count(self, key, n=1):
        self.dist[key] = self.dist.get(key, 0) + n

    def case(self, case, nontrivial=True, sample_every=0):
        """Register one generated case (for evidence)."""
        self.evaluations += 1
        if nontrivial:
            h = hashlib.sha1(json.dumps(case, sort_keys=True, default=str).encode()).hexdigest()
            self.nontrivial_keys.add(h)
        if len(self.samples) < 3 or (sample_every and self.evaluations % sample_every == 0 and len(self.samples) < 8):
            self.samples.append(case)

    def disagree(self, where, case, model, impl):
        self.disagreements.append({"where": where, "case": case, "model": model, "impl": impl})

    def violation(self, signature: dict, case, what: str):
        self.violations.append({"signature": signature, "case": case, "what": what})


# --------------------------------------------------------------------------- known findings

def load_known():
    out = []
    if KNOWN_FILE.exists():
        out += json.loads(KNOWN_FILE.read_text()).get("findings", [])
    return out


def match_known(prop, signature, known):
    for k in known:
        if k.get("property") != prop or k.get("status") != "known":
            continue
        m = k.get("match", {})
        # a list value = any of these (one mechanism seen through several oracles is ONE finding)
        if all((signature.get(a) in b) if isinstance(b, list) else (signature.get(a) == b) for a, b in m.items()):
            return k
    return None


# --------------------------------------------------------------------------- decision

def write_replay(prop, payload):
    REPLAY_DIR.mkdir(exist_ok=True)
    h = hashlib.sha1(json.dumps(payload, sort_keys=True, default=str).encode()).hexdigest()[:10]
    p = REPLAY_DIR / f"{prop}_{h}.json"
    p.write_text(json.dumps(payload, indent=1, default=str))
    return p


def _start_watchdog(prop, tier, seed, ctx, proof):
    """A check must return even if the code under test blocks for ever (a deadlock introduced by a change is a
    behaviour the models do not have). After a generous deadline a daemon thread reports the broken correspondence
    (VIOLATION ... no-failing-input-found: the replay names what was running) and ends the process with exit 1."""
    import threading
    deadline = float(os.environ.get("EKW_CHECK_DEADLINE_S", "1500" if tier == "quick" else "14400"))

    def fire():
        try:
            rp = write_replay(prop, {"property": prop, "kind": "no-failing-input-found", "seed": seed, "tier": tier,
                                     "correspondence_broken": [{"where": "check-deadline", "model": "every modelled operation returns",
                                                                "impl": f"the check did not finish within {deadline:.0f} s: the real code (or the harness driving it) blocks; "
                                                                        f"cases completed so far: {ctx.evaluations}", "case": (ctx.samples[-1:] or [None])[0]}],
                                     "proof_broken": proof.get("broken", []),
                                     "explanation": "the model/implementation correspondence could not be completed; no failing input was isolated"})
            ev = {"property_id": prop, "tier": tier, "seed": seed, "level": "proof",
                  "coverage": {"obligations": max(1, proof.get("obligations", 0)), "discharged": proof.get("discharged", 0),
                               "checker_cmd": "cd lean && lake build <Props modules>", "trusted_base": TRUSTED_BASE,
                               "evaluations": ctx.evaluations, "distinct_nontrivial": len(ctx.nontrivial_keys), "samples": ctx.samples[:3] or [{}],
                               "rule": "run aborted by the check deadline", "notes": ["check deadline exceeded"]},
                  "assumptions": [], "wall_s": round(time.time() - ctx.t0, 2), "violations": 1}
            EVIDENCE_DIR.mkdir(exist_ok=True)
            (EVIDENCE_DIR / f"{prop}.json").write_text(json.dumps(ev, indent=1, default=str))
            print(f"VIOLATION property={prop} replay={rp} no-failing-input-found", flush=True)
            print(f"[{prop}] check deadline of {deadline:.0f} s exceeded -> exit 1", flush=True)
        finally:
            os._exit(1)
    t = threading.Timer(deadline, fire)
    t.daemon = True
    t.start()
    return t


def run_property(mod, tier: str, seed: int) -> int:
    prop = mod.PROPERTY
    ctx = Ctx(prop, tier, seed)
    out_lines = []
    proof = {"obligations": 0, "discharged": 0, "theorems": [], "axioms": {}, "broken": []}
    _start_watchdog(prop, tier, seed, ctx, proof)
    try:
        # 1. translate
        if hasattr(mod, "translate"):
            try:
                mod.translate(ctx)
            except InfraError:
                raise
            except Exception as e:  # translator does not recognise the source: broken tie
                ctx.disagree("translator", {"translator": prop}, "recognised source shape", f"{type(e).__name__}: {e}")
        # 2. prove
        prop_modules = list(mod.LEAN_PROPS)
        drive = [f"EkwVerif.Drive.{d}" for d in getattr(mod, "LEAN_DRIVERS", [])]
        ok, log = lake_build(prop_modules + drive)
        theorems = []
        for m in prop_modules:
            theorems += props_theorems(m)
        proof["obligations"] = len(theorems)
        proof["theorems"] = theorems
        all_modules = []
        for m in prop_modules:
            module_deps(m, all_modules)
        forb = forbidden_scan(all_modules)
        if forb:
            proof["broken"].append({"kind": "forbidden-construct", "hits": forb})
        if not ok:
            errs = re.findall(r"error: ([^\n]*(?:\n(?!\S*(?:error|warning|info):)[^\n]*){0,6})", log)
            proof["broken"].append({"kind": "lake-build-failed", "errors": errs[:6] or [log[-1500:]]})
            # which theorems still compile is unknown when the module fails: count none of that module
        else:
            ok2, axioms, alog = audit_axioms(prop_modules, theorems)
            proof["axioms"] = axioms
            for t in theorems:
                if t not in axioms:
                    proof["broken"].append({"kind": "audit-missing", "theorem": t, "log": alog[-500:]})
                elif set(axioms[t]) - ALLOWED_AXIOMS:
                    proof["broken"].append({"kind": "extra-axioms", "theorem": t, "axioms": axioms[t]})
                else:
                    proof["discharged"] += 1
        if tier == "thorough" and ok:
            with _LakeLock():
                rc, o, e = _run(["lake", "env", "leanchecker", *all_modules], cwd=LEAN_DIR, timeout=3600)
            ctx.extra["leanchecker"] = {"rc": rc, "modules": all_modules, "tail": (o + e)[-300:]}
            if rc != 0:
                proof["broken"].append({"kind": "leanchecker", "log": (o + e)[-1500:]})
        # 3. correspond (+ oracle on every case)
        drivers_ok = ok or not drive
        if drivers_ok:
            try:
                mod.correspond(ctx)
            except InfraError:
                raise
            except Exception as e:
                # the harness cannot drive/observe this implementation any more (a structure it reads changed, a call it
                # makes is rejected): on the unchanged tree this does not happen, so it is a broken correspondence —
                # the decision below reports it (with whatever failing inputs the oracle found before the crash)
                ctx.disagree("harness-cannot-drive-the-implementation", (ctx.samples[-1:] or [None])[0],
                             "every modelled operation can be driven and observed",
                             f"{type(e).__name__}: {e}"[:300] + " || " + traceback.format_exc()[-1200:])
        else:
            # the model itself no longer builds: run the implementation side + oracle only
            ctx.notes.append("lean driver unavailable (build failed); oracle-only run")
            if hasattr(mod, "oracle_only"):
                mod.oracle_only(ctx)
        # 4. decide
        broken = bool(proof["broken"]) or bool(ctx.disagreements)
        if broken and hasattr(mod, "search"):
            mod.search(ctx, {"proof": proof["broken"], "disagreements": ctx.disagreements[:5]})
        known = load_known()
        unknown_viol = []
        known_hit = {}
        for v in ctx.violations:
            k = match_known(prop, v["signature"], known)
            if k is not None:
                known_hit.setdefault(k["id"], (k, v))
            else:
                unknown_viol.append(v)
        for kid, (k, v) in sorted(known_hit.items()):
            out_lines.append(f"KNOWN-FINDING: property={prop} {k['what']}")
        rc = 0
        nviol = 0
        if unknown_viol:
            # group by signature, report each distinct signature once
            seen = set()
            for v in unknown_viol:
                sig = json.dumps(v["signature"], sort_keys=True)
                if sig in seen:
                    continue
                seen.add(sig)
                nviol += 1
                rp = write_replay(prop, {"property": prop, "kind": "failing-input", "seed": seed, "tier": tier,
                                         "what": v["what"], "signature": v["signature"], "case": v["case"],
                                         "replay_cmd": f"./check replay {prop} <this file>",
                                         "proof_broken": proof["broken"], "disagreements": ctx.disagreements[:3]})
                out_lines.append(f"VIOLATION property={prop} replay={rp}")
            rc = 1
        elif broken:
            nviol = 1
            rp = write_replay(prop, {"property": prop, "kind": "no-failing-input-found", "seed": seed, "tier": tier,
                                     "proof_broken": proof["broken"],
                                     "correspondence_broken": ctx.disagreements[:10],
                                     "explanation": "the theorem(s) or the model/implementation correspondence named here no longer check; the violation search on the real code found no failing input"})
            out_lines.append(f"VIOLATION property={prop} replay={rp} no-failing-input-found")
            rc = 1
        # 5. evidence
        cov = {
            "obligations": proof["obligations"],
            "discharged": proof["discharged"],
            "checker_cmd": "cd lean && lake build " + " ".join(prop_modules) + " && lake env lean <#print axioms for every property theorem>" + (" && lake env leanchecker <modules>" if tier == "thorough" else ""),
            "trusted_base": TRUSTED_BASE + list(getattr(mod, "TRUSTED_EXTRA", [])),
            "theorems": theorems,
            "axioms_per_theorem": proof["axioms"],
            "proof_broken": proof["broken"],
            "evaluations": ctx.evaluations,
            "distinct_nontrivial": len(ctx.nontrivial_keys),
            "rule": ctx.rule or getattr(mod, "RULE", ""),
            "samples": ctx.samples[:8] or [{"obligations": theorems[:5]}],
            "traces_validated_against_impl": ctx.traces,
            "distribution": ctx.dist,
            "correspondence_disagreements": len(ctx.disagreements),
            "oracle_violations": len(ctx.violations),
            "known_findings_reproduced": sorted(known_hit),
            "notes": ctx.notes,
        }
        cov.update(ctx.extra)
        ev = {
            "property_id": prop, "tier": tier, "seed": seed, "level": "proof",
            "coverage": cov,
            "assumptions": list(getattr(mod, "ASSUMPTIONS", [])) + ctx.assumptions,
            "wall_s": round(time.time() - ctx.t0, 2),
            "violations": nviol,
        }
        EVIDENCE_DIR.mkdir(exist_ok=True)
        (EVIDENCE_DIR / f"{prop}.json").write_text(json.dumps(ev, indent=1, default=str))
        for l in out_lines:
            print(l)
        print(f"[{prop}] tier={tier} seed={seed} obligations={proof['obligations']} discharged={proof['discharged']} "
              f"cases={ctx.evaluations} disagreements={len(ctx.disagreements)} oracle_violations={len(ctx.violations)} "
              f"known={len(known_hit)} wall={ev['wall_s']}s -> exit {rc}")
        return rc
    except InfraError as e:
        print(f"[{prop}] INFRASTRUCTURE ERROR (exit 2): {e}", file=sys.stderr)
        return 2
    except Exception:
        traceback.print_exc()
        print(f"[{prop}] INTERNAL ERROR of the check machinery (exit 2)", file=sys.stderr)
        return 2
