"""C15 helper: case generators.  All randomness comes from the rng handed in (ctx.rng).

First generation (kept unchanged): int64 data, equal shapes, identical coordinates -- gen_case, gen_big_case (magnitudes
around 2^53 and near the int64 limits), axis_sweep (every axis / dim value on arrays of pairwise different extents).
Second generation (audit C15 #1-#9): the other dtypes (float64 incl. NaN / inf / values that round, int32, uint8 with
wrap-around, bool), coordinate labels (partial, mixed presence, shifted / permuted / partially overlapping),
broadcasting shapes, tuple axes, zero extents, 0-d and NumPy-scalar indices, NumPy-integer dims, method="sel", a
missing `dim`, mixed ndarray / DataArray arguments, Datasets whose variables differ in dims and dtype, a decoy axis
with several arguments, stack onto an existing / concat along a missing dimension."""
import numpy as _np

from ekw.c15_real import (ALL_OPS, BINARY, COMPLEX, DT_NP, FLOATS, FL_NARROW, INEXACT, INT_RANGE, REDUCTIONS, VARIADIC, fenc,
                          flat as _flat, map_vals as _map_vals, shape_of as _shape_of)

# ----------------------------------------------------------------------------- generator

def _rand(rng, shape, lo, hi, nonzero=False):
    if not shape:
        v = rng.randint(lo, hi)
        while nonzero and v == 0:
            v = rng.randint(lo, hi)
        return v
    return [_rand(rng, shape[1:], lo, hi, nonzero) for _ in range(shape[0])]


def compositions(k):
    """all cuts of k items into >= 2 consecutive non-empty batches"""
    out = []
    for m in range(1, 2 ** (k - 1)):
        sizes, run = [], 1
        for bit in range(k - 1):
            if m >> bit & 1:
                sizes.append(run)
                run = 1
            else:
                run += 1
        sizes.append(run)
        out.append(sizes)
    return out


def gen_case(rng, op=None, backend=None):
    op = op or rng.choice(REDUCTIONS * 2 + ["stack", "stack", "concat", "concat", "concat"] + BINARY + ["take"] * 4)
    be = backend or rng.choice(["np", "np", "da", "da", "ds"])
    case = {"op": op, "backend": be, "coords": be != "np" and rng.random() < 0.4}
    xr_ = be != "np"
    lo, hi = (-2, 2) if op == "prod" else (-4, 4)

    def shapes(nd):
        return [rng.randint(1, 3) for _ in range(nd)]

    if op in REDUCTIONS:
        k = rng.randint(1, 6)
        if k == 1:
            nd = rng.randint(0, 3) if rng.random() < 0.1 else rng.randint(1, 3)
            r = rng.random()
            if nd == 0 or r < 0.2:
                case["axis"] = None
            elif r < 0.24:
                case["axis"] = nd                      # out of range
                case["style"] = "dim" if be == "ds" or (xr_ and rng.random() < 0.7) else "axis"
            else:
                ax = rng.randrange(nd)
                # (xarray refuses `axis=` on a Dataset: only `dim=` there)
                if be == "ds" or (xr_ and rng.random() < 0.7):
                    case["style"] = "dim"
                else:
                    case["style"] = "axis"
                    if rng.random() < 0.35:
                        ax -= nd
                case["axis"] = ax
        else:
            nd = rng.randint(0, 3)
            case["axis"] = None
            if nd >= 1 and not xr_ and rng.random() < 0.2:
                case["axis"] = rng.randrange(nd)       # decoy: overwritten by the backend
                case["style"] = "axis"
            # (xarray: a decoy `dim=` is overwritten too, a decoy `axis=` is rejected by xarray itself)
            elif nd >= 1 and xr_ and rng.random() < 0.2:
                case["axis"] = rng.randrange(nd)
                case["style"] = "dim"
        sh = shapes(nd)
        case["args"] = [_rand(rng, sh, lo, hi) for _ in range(k)]
    elif op == "stack":
        k = rng.randint(1, 6)
        nd = rng.randint(0, 2)
        r = rng.random()
        if r < 0.15:
            case["axis"] = None
        elif r < 0.2 and not xr_:
            case["axis"] = nd + 1                      # out of range (NumPy backend only, see ASSUMPTIONS)
        else:
            case["axis"] = rng.randint(-(nd + 1), nd)
        sh = shapes(nd)
        case["args"] = [_rand(rng, sh, lo, hi) for _ in range(k)]
    elif op == "concat":
        k = rng.randint(1, 6)
        nd = rng.randint(1, 3)
        ax = rng.randrange(nd)
        sh = shapes(nd)
        args = []
        for _ in range(k):
            s = list(sh)
            s[ax] = rng.randint(1, 3)
            args.append(_rand(rng, s, lo, hi))
        if not xr_:
            r = rng.random()
            if ax == 0 and r < 0.3:
                ax = None
            elif r < 0.35:
                ax -= nd
        case["axis"] = ax
        case["args"] = args
    elif op in BINARY:
        nd = rng.randint(1, 3) if rng.random() < 0.9 else 0
        sh = shapes(nd)
        form = rng.choice(["aa", "aa", "as", "sa"])
        if nd == 0:
            form = "aa"
        blo, bhi = lo, hi
        alo, ahi = lo, hi
        if op == "pow":
            alo, ahi, blo, bhi = -3, 3, 0, 3
            if rng.random() < 0.04:
                blo = -2                                   # a negative exponent: both NumPy and the backends raise
        nz = op == "divide"
        a = _rand(rng, sh, alo, ahi)
        b = _rand(rng, sh, blo, bhi, nz)
        if form == "as":
            b = _rand(rng, [], blo, bhi, nz)
        elif form == "sa":
            a = _rand(rng, [], alo, ahi)
        if nd == 0 and form == "aa":
            # two rank-0 arrays cannot be told from scalars in the case encoding: use 1-element vectors
            a, b = [a], [b]
        case["args"] = [a, b]
        case["nested"] = rng.random() < 0.25
    else:  # take
        nd = rng.randint(1, 3)
        sh = shapes(nd)
        ax = rng.randrange(nd)
        n = sh[ax]
        if xr_ and rng.random() < 0.3:
            case["style"] = "dim"
        elif rng.random() < 0.3:
            ax -= nd
        case["axis"] = ax

        def one():
            if rng.random() < 0.04:
                return rng.choice([n, -n - 1])            # out of range
            return rng.randint(-n, n - 1)
        if rng.random() < 0.45:
            case["index"] = one()
            case["index_type"] = "int"
        else:
            case["index"] = [one() for _ in range(rng.randint(1, 3))]
            case["index_type"] = rng.choice(["list", "ndarray"])
        case["args"] = [_rand(rng, sh, lo, hi)]
    if be == "ds":
        def other(a):
            if isinstance(a, int):
                return a if op in BINARY else rng.randint(lo, hi)
            return [other(x) for x in a]
        if op in ("divide", "pow"):
            case["args2"] = [other(case["args"][0]), case["args"][1]]   # keep divisor / exponent in the domain
        else:
            case["args2"] = [other(a) for a in case["args"]]
    return case


# --- integer magnitudes near and beyond 2^53 (exact in int64, not representable in float64) -----------------------
# The shapes / axis / index / backend structure comes from gen_case; only the VALUES are replaced, chosen per operation
# so that the exact result and every intermediate result of a batched evaluation fit in int64 (no overflow).

I64 = 2 ** 63 - 1
P53 = 2 ** 53
BIG_OPS = ["pow", "multiply", "add", "subtract", "sum", "prod", "max", "min", "stack", "concat", "take"]


def _iroot(n, m):
    """largest b with b**m <= n"""
    if m <= 1:
        return n
    b = int(round(n ** (1.0 / m)))
    while b ** m > n:
        b -= 1
    while (b + 1) ** m <= n:
        b += 1
    return b


def _bigval(rng, bound):
    """an integer of magnitude <= bound: around 2^53, near the bound, around a power of two, or small"""
    r = rng.random()
    if r < 0.3:
        v = P53 + rng.randint(-4, 12)
    elif r < 0.65:
        v = rng.randint(bound - bound // 3, bound)
    elif r < 0.9:
        v = (1 << rng.randint(0, max(bound.bit_length() - 1, 0))) + rng.randint(-3, 3)
    else:
        v = rng.randint(0, 9)
    v = max(0, min(v, bound))
    return -v if rng.random() < 0.4 else v


def _pow_exp(rng, base):
    """an exponent e >= 0 with |base|^e <= I64: near the largest one, around the 2^53 crossing, or any"""
    m = abs(base)
    if m <= 1:
        return rng.randint(0, 62)
    emax, e53 = 0, None
    while m ** (emax + 1) <= I64:
        emax += 1
        if e53 is None and m ** emax > P53:
            e53 = emax
    pick = [emax, emax, max(emax - 1, 0), rng.randint(0, emax)]
    if e53 is not None:
        pick += [e53, e53, max(e53 - 1, 0)]
    return rng.choice(pick)


def _pow_base(rng, e=None):
    """a base for exponent e (None: any; the exponent is then drawn by _pow_exp)"""
    if e is None:
        r = rng.random()
        if r < 0.7:
            b = rng.choice([2, 3, 3, 5, 6, 7, 7, 10, 11, 13, 15, 21, 0, 1])
        elif r < 0.85:
            b = rng.randint(2, 2000)
        else:
            b = _bigval(rng, _iroot(I64, rng.choice([1, 2, 2, 3, 4, 5])))
    else:
        bound = _iroot(I64, e) if e >= 1 else I64
        b = _bigval(rng, bound) if rng.random() < 0.8 else rng.randint(0, min(bound, 12))
    return -abs(b) if rng.random() < 0.3 else abs(b)


def _mul_other(rng, a):
    """b with |a*b| <= I64, preferably |a*b| > 2^53"""
    if a == 0:
        return _bigval(rng, I64)
    return _bigval(rng, I64 // abs(a))


def _pair(rng, op, a=None, b=None):
    """operands (a, b) of one elementwise application; a given side (scalar operand of the call) is kept"""
    if op == "pow":
        if b is None and a is None:
            a = _pow_base(rng)
            return a, _pow_exp(rng, a)
        if b is None:
            return a, _pow_exp(rng, a)
        return (_pow_base(rng, b) if a is None else a), b
    if op == "multiply":
        if a is None and b is None:
            a = _bigval(rng, 1 << rng.randint(1, 62))
        if b is None:
            return a, _mul_other(rng, a)
        return (_mul_other(rng, b) if a is None else a), b
    bound = 2 ** 62 - 1                # add / subtract: any two such values give a result inside int64
    return (_bigval(rng, bound) if a is None else a), (_bigval(rng, bound) if b is None else b)


def _fill_binary(rng, op, a, b):
    """new values for the operand structures a, b (nested list or int), elementwise compatible"""
    if isinstance(a, list) and isinstance(b, list):
        ps = [_fill_binary(rng, op, x, y) for x, y in zip(a, b)]
        return [p[0] for p in ps], [p[1] for p in ps]
    if isinstance(a, list):
        return [_fill_binary(rng, op, x, b)[0] for x in a], b
    if isinstance(b, list):
        return a, [_fill_binary(rng, op, a, y)[1] for y in b]
    return _pair(rng, op, a, b)


def _numel(sh):
    n = 1
    for x in sh:
        n *= x
    return n


def gen_big_case(rng, op=None, backend=None):
    op = op or rng.choice(BIG_OPS + ["pow", "multiply", "sum", "prod"])
    case = gen_case(rng, op, backend)
    case["big"] = True
    keys = ["args"] + (["args2"] if case.get("args2") else [])
    if op in BINARY:
        a0, b0 = case["args"]
        # the scalar operand (if any) is one value for the whole call (and both Dataset variables)
        sa = sb = None
        if not isinstance(a0, list):
            sa = _pow_base(rng) if op == "pow" else _bigval(rng, 1 << rng.randint(1, 40)) if op == "multiply" else _bigval(rng, 2 ** 62 - 1)
        if not isinstance(b0, list):
            sb = rng.choice([0, 1, 2, 2, 3, 3, 4, 5, 7, 13, 31, 62]) if op == "pow" else \
                _bigval(rng, 1 << rng.randint(1, 40)) if op == "multiply" else _bigval(rng, 2 ** 62 - 1)
        for key in keys:
            blank = lambda x: _map_vals(x, lambda v: None)      # None = draw this element anew
            a, b = _fill_binary(rng, op, blank(a0) if sa is None else sa, blank(b0) if sb is None else sb)
            case[key] = [a, b]
        return case
    # number of values that meet in one output element
    k = len(case["args"])
    sh = _shape_of(case["args"][0])
    ax = case.get("axis")
    if op in ("sum", "prod"):
        if k >= 2:
            m = k
        elif ax is not None and -len(sh) <= ax < len(sh):
            m = sh[ax]
        else:
            m = _numel(sh)
        bound = I64 // max(m, 1) if op == "sum" else _iroot(I64, max(m, 1))
    else:
        bound = I64
    for key in keys:
        case[key] = [_map_vals(a, lambda v: _bigval(rng, bound)) for a in case[key]]
    return case


# --- every axis / dim value on arrays whose extents are all distinct ------------------------------------------------
# A wrong axis shows only if the extents differ (shape) or the data is not symmetric; a negative axis other than -ndim
# shows only from rank 2 on.  Every run holds, for every operation that takes an axis / dim argument, on every backend,
# every axis from -ndim to ndim-1 (stack: -(ndim+1)..ndim) on a 2-D and a 3-D array with pairwise different extents;
# for xarray objects also every dimension given by NAME; take with a non-negative scalar, a negative scalar, a list and
# an ndarray of indices (negative ones among them).

def axis_sweep(rng):
    out = []

    def add(case, lo=-4, hi=4):
        be = case["backend"]
        case["coords"] = be != "np" and rng.random() < 0.4
        case["sweep"] = True
        if be == "ds":
            case["args2"] = [_map_vals(a, lambda v: rng.randint(lo, hi)) for a in case["args"]]
        out.append(case)

    for be in ("np", "da", "ds"):
        xr_ = be != "np"
        for nd in (2, 3):
            sh = rng.sample([2, 3, 4], nd)
            # (axis value, style): positions -nd..nd-1, and for xarray every dimension by name
            forms = [(ax, "axis") for ax in range(-nd, nd)] + ([(ax, "dim") for ax in range(nd)] if xr_ else [])
            for op in REDUCTIONS:
                lo, hi = (-2, 2) if op == "prod" else (-4, 4)
                for ax, style in forms:
                    if be == "ds" and style == "axis":
                        continue                      # xarray refuses `axis=` on a Dataset: only `dim=` there
                    add({"op": op, "backend": be, "axis": ax, "style": style, "args": [_rand(rng, sh, lo, hi)]}, lo, hi)
            for ax, style in forms:
                n = sh[ax]
                neg_or_not = lambda: rng.randint(-n, n - 1)
                for index, itype in ((rng.randint(0, n - 1), "int"), (rng.randint(-n, -1), "int"),
                                     ([neg_or_not() for _ in range(rng.randint(2, 3))] + [rng.randint(-n, -1)], "list"),
                                     ([rng.randint(-n, -1)] + [neg_or_not() for _ in range(rng.randint(0, 2))], "ndarray")):
                    add({"op": "take", "backend": be, "axis": ax, "style": style, "index": index, "index_type": itype,
                         "args": [_rand(rng, sh, -4, 4)]})
            for ax in range(-(nd + 1), nd + 1):
                add({"op": "stack", "backend": be, "axis": ax, "args": [_rand(rng, sh, -4, 4) for _ in range(rng.randint(2, 3))]})
            for ax in range(-nd, nd):
                args = []
                for _ in range(rng.randint(2, 3)):
                    s2 = list(sh)
                    s2[ax] = rng.randint(1, 3)
                    args.append(_rand(rng, s2, -4, 4))
                add({"op": "concat", "backend": be, "axis": ax, "args": args})
    return out


def nontrivial(case):
    vals = set()

    def walk(a):
        if isinstance(a, list):
            for x in a:
                walk(x)
        else:
            vals.add(a)
    for a in case["args"]:
        walk(a)
    return len(vals) >= 2 and (len(case["args"]) >= 2 or isinstance(case["args"][0], list))


def derived_legacy(case):
    """the batched variants of a case: every cut into >= 2 consecutive batches"""
    if case["op"] not in VARIADIC or len(case["args"]) < 2:
        return []
    if case["op"] == "stack":
        # not batchable (c15_stack_not_batchable): cut it only if the source marks it (oracle only)
        from earthkit.workflows import backends
        if not getattr(backends.stack, "batchable", False):
            return []
    out = []
    for sizes in compositions(len(case["args"])):
        c = dict(case)
        c["batches"] = sizes
        out.append(c)
    return out




# ======================================================================================================================
# second generation
# ======================================================================================================================

DTYPES2 = ["f64", "f64", "f64", "i32", "u8", "bool", "i64",
           # third generation (second audit): the rest of NumPy's numeric dtypes
           "f32", "f32", "f16", "i8", "i16", "u16", "u32", "u64", "c64", "c128"]
NEW_DTYPES = ["f32", "f16", "i8", "i16", "u16", "u32", "u64", "c64", "c128"]
# values whose float32 / float16 sums and products round (given as doubles; rounded to the dtype when drawn)
F32_ROUND = [0.1, 0.2, 0.3, 1.0 / 3.0, 2.0 ** 24, 2.0 ** 24 + 2, -2.0 ** 24, 3.3, 1e-3, 7.7, 1.0, -1.0, 0.7, 1e8, 16777217.0, 1e-30]
F16_ROUND = [0.1, 0.2, 0.3, 1.0 / 3.0, 2048.0, 2050.0, -2048.0, 3.3, 1e-3, 7.7, 1.0, -1.0, 0.7, 1000.0, 4096.0, 6e-8]


def _narrow(dt, x):
    """the value of dtype dt nearest to x, as a Python float (exactly representable in dt)"""
    with _np.errstate(all="ignore"):
        return fenc(float(DT_NP[dt](x)))


def _limits_val(rng, dt):
    lo, hi = INT_RANGE[dt]
    r = rng.random()
    if r < 0.45:
        return rng.randint(max(lo, -4), 4)
    if r < 0.8:
        return rng.choice([hi - rng.randint(0, 3), lo + rng.randint(0, 3), hi // 2 + rng.randint(0, 2), (hi // 2 + 1) + rng.randint(0, 2)])
    return rng.randint(max(lo, -70000), min(hi, 70000))
F_ROUND = [0.1, 0.2, 0.3, 1.0 / 3.0, 1e16, -1e16, 2.0 ** 53, 2.0 ** 53 + 2, 3.3, 1e-3, 7.7, 1.0, -1.0, 0.7, 1e-300, 5e-324, 1e300]


def _val(rng, dt, flavour="int", op=None):
    if dt == "bool":
        return rng.randint(0, 1)
    if dt == "u8":
        return rng.choice([0, 1, 2, 3, 7, 100, 127, 128, 200, 254, 255, rng.randint(0, 255)])
    if dt == "i32":
        r = rng.random()
        if r < 0.5:
            return rng.randint(-4, 4)
        if r < 0.8:
            return rng.choice([1, -1]) * (2 ** 31 - 1 - rng.randint(0, 3)) if rng.random() < 0.7 else -2 ** 31
        return rng.randint(-70000, 70000)
    if dt == "i64":
        return rng.randint(-4, 4)
    if dt in INT_RANGE:               # i8 i16 u16 u32 u64: small, near the limits and the sign bit (wrap-around), anything
        return _limits_val(rng, dt)
    if dt in COMPLEX:
        # small integers and dyadic parts (sums and products are exact); NaN / inf parts only as flavour "special"
        # (products: integer parts only, and no NaN / inf -- a product of six such numbers is exact in complex64, so that
        # the batch law is not disturbed by rounding, for which complex data has no rounding-only verdict)
        part = lambda: rng.randint(-4, 4) / (1.0 if op == "prod" else rng.choice([1.0, 1.0, 2.0, 4.0]))
        if flavour == "special" and op != "prod" and rng.random() < 0.2:
            return fenc(complex(rng.choice([float("nan"), float("inf"), -float("inf"), part()]), rng.choice([float("nan"), float("inf"), part()])))
        return fenc(complex(part(), part()))
    if dt in FL_NARROW:
        if flavour == "int":
            return float(rng.randint(-4, 4))
        if flavour == "dyadic":
            return rng.randint(-32, 32) / 8.0
        if flavour == "special":
            r = rng.random()
            if r < 0.12:
                return "nan"
            if r < 0.2:
                return rng.choice(["inf", "-inf"])
            return rng.randint(-16, 16) / 4.0
        tab = F32_ROUND if dt == "f32" else F16_ROUND
        if op == "prod":
            # (a product of six stays finite: overflow in one order only is not "rounding only")
            if rng.random() < 0.45:
                return _narrow(dt, rng.choice([0.1, 0.2, 0.3, 1.0 / 3.0, 3.3, 1e-3, 1.0, -1.0, 0.7, -2.5] + ([7.7, 1e6] if dt == "f32" else [])))
            return _narrow(dt, rng.uniform(-3, 3))
        if rng.random() < 0.45:
            return _narrow(dt, rng.choice(tab))
        return _narrow(dt, rng.uniform(-10, 10) * 10.0 ** rng.randint(-3, 6 if dt == "f32" else 2))
    # f64
    if flavour == "int":
        return float(rng.randint(-4, 4))
    if flavour == "dyadic":
        return rng.randint(-32, 32) / 8.0
    if flavour == "special":
        r = rng.random()
        if r < 0.12:
            return "nan"
        if r < 0.2:
            return rng.choice(["inf", "-inf"])
        return rng.randint(-16, 16) / 4.0
    # "round": values whose sums and products round
    r = rng.random()
    if r < 0.45:
        return rng.choice(F_ROUND[:-3] if op == "prod" else F_ROUND)
    if op == "prod":
        return fenc(rng.uniform(-10, 10) * 10.0 ** rng.randint(-20, 20))
    return fenc(rng.uniform(-10, 10) * 10.0 ** rng.randint(-3, 16))


def _fill(rng, shape, dt, flavour, op=None):
    if not shape:
        return _val(rng, dt, flavour, op)
    return [_fill(rng, shape[1:], dt, flavour, op) for _ in range(shape[0])]


def _numel2(sh):
    n = 1
    for x in sh:
        n *= x
    return n


def _flavour(rng, dt):
    if dt in COMPLEX:
        return rng.choice(["int", "int", "special"])
    return rng.choice(["int", "dyadic", "round", "round", "special", "special"]) if dt in FLOATS else "int"


def retype(rng, case, dt=None, flavour=None):
    """a first-generation case (structure: shapes, axis, backend, index) refilled with values of another dtype"""
    op = case["op"]
    dt = dt or rng.choice(DTYPES2)
    if dt == "bool" and op == "pow":
        dt = "u8"
    flavour = flavour or _flavour(rng, dt)
    c = dict(case)
    c.pop("big", None)
    c["dtype"] = dt
    c["fam"] = "dtype:" + dt + (":" + flavour if dt in INEXACT else "")
    k = len(case["args"])
    py = [None] * k
    if op in BINARY:
        for i in range(k):
            if not isinstance(case["args"][i], list) and _shape_of(case["args"][i]) == []:
                py[i] = "int"
        if dt == "bool":
            # no Python scalars with bool arrays (a Python int promotes a bool array to int64: outside the model)
            sh = _shape_of(next(a for a in case["args"] if isinstance(a, list)))
            c["args"] = [a if isinstance(a, list) else _rand(rng, sh, 0, 1) for a in case["args"]]
            if case.get("args2"):
                case = dict(case)
                case["args2"] = [a if isinstance(a, list) else _rand(rng, sh, 0, 1) for a in case["args2"]]
            py = [None] * k
        elif dt in COMPLEX and op == "pow":
            # `ndarray ** 2` / `** 0.5` take NumPy's square / sqrt fast path, which for complex data differs from
            # numpy.power in the last bit: both are "the value NumPy gives"; only array exponents are generated
            sh = _shape_of(next(a for a in case["args"] if isinstance(a, list)))
            c["args"] = [a if isinstance(a, list) else _rand(rng, sh, 0, 3) for a in case["args"]]
            if case.get("args2"):
                case = dict(case)
                case["args2"] = [a if isinstance(a, list) else _rand(rng, sh, 0, 3) for a in case["args2"]]
            py = [None] * k
        elif any(py) and rng.random() < 0.4:
            py = ["float" if p else None for p in py]
    c["py"] = py

    def newval(i, v):
        if py[i] == "int":
            if op == "pow" and i == 1:
                return rng.choice([0, 1, 2, 3, 3, -1 if dt not in ("u8", "u16", "u32", "u64") else 2])
            if dt in ("u8", "i32") and rng.random() < 0.12:
                return rng.choice([256, -1, 300] if dt == "u8" else [2 ** 31, -2 ** 31 - 1])        # does not fit the dtype
            if dt in INT_RANGE and dt != "i64" and rng.random() < 0.12:
                return rng.choice([INT_RANGE[dt][1] + 1, INT_RANGE[dt][0] - 1, INT_RANGE[dt][1] + 44])   # does not fit the dtype
            if dt in INEXACT:
                return rng.randint(-4, 4)
            return _val(rng, dt)
        if py[i] == "float":
            if op == "pow":
                return rng.choice([0.5, 2.0, -1.5, 3.0]) if i == 0 else rng.choice([0.0, 1.0, 2.0, 3.0])
            return rng.choice([0.5, -1.5, 2.0, 0.1, 3.0])
        if op == "pow":
            if i == 1:
                if dt in FLOATS:
                    return float(rng.randint(-2, 3))
                if dt in COMPLEX:
                    return fenc(complex(rng.randint(0, 3), 0.0))
                return rng.choice([0, 1, 2, 3]) if rng.random() < 0.96 or dt in ("u8", "u16", "u32", "u64") else -1
            if dt in FLOATS:
                return rng.choice([0.5, 2.0, -2.0, 1.5, 3.0, -0.75, 0.25, 10.0, 7.0, 1.25])
        return _val(rng, dt, flavour, op)

    for key in ("args", "args2"):
        if not case.get(key):
            continue
        c[key] = [_map_vals(a, lambda v, i=i: newval(i, v)) for i, a in enumerate(c[key] if key == "args" else case[key])]
    if c.get("args2") and op in BINARY:
        # scalar operands are one value for both variables
        for i in range(k):
            if py[i]:
                c["args2"][i] = c["args"][i]
    if c.get("args2") and rng.random() < 0.3 and op not in ("pow",) and dt != "bool":
        c["dtype2"] = rng.choice([d for d in ("f64", "i64", "i32", "u8", "f32", "i16", "u32") if d != dt])
        fl2 = _flavour(rng, c["dtype2"])
        c["args2"] = [a if py[i] else _map_vals(a, lambda v: _val(rng, c["dtype2"], fl2, op)) for i, a in enumerate(c["args2"])]
    # float64 values that round: keep to the forms whose order of additions the model knows
    if dt in FLOATS and flavour == "round" or (c.get("dtype2") in FLOATS):
        if isinstance(c.get("axis"), list):
            c["approx"] = True
    if op in ("var", "std") and isinstance(c.get("axis"), list):
        c["approx"] = True
    return c


def gen_typed(rng, op=None, backend=None, dt=None, flavour=None):
    base = gen_case(rng, op, backend)
    return retype(rng, base, dt, flavour)


# --- coordinate labels ------------------------------------------------------------------------------------------------

def _labels_for(rng, n):
    start = rng.choice([0, 10, -3])
    return list(range(start, start + n))


def gen_coords(rng, op=None, backend=None):
    """>= 2 labelled operands: identical / partial / mixed presence / misaligned (shifted, permuted, overlapping)"""
    op = op or rng.choice(["sum", "max", "mean", "prod", "min", "var", "stack", "concat", "concat", "add", "subtract", "multiply", "divide"])
    be = backend or rng.choice(["da", "da", "ds"])
    c = gen_case(rng, op, be)
    while len(c["args"]) < 2 or not isinstance(c["args"][0], list) or (op in BINARY and not all(isinstance(a, list) for a in c["args"])):
        c = gen_case(rng, op, be)
    if rng.random() < 0.5:
        c = retype(rng, c)
    k = len(c["args"])
    sh = [_shape_of(a) for a in c["args"]]
    nd = len(sh[0])
    mode = rng.choice(["same", "partial", "mixed", "shifted", "permuted", "overlap", "shifted", "permuted"])
    base = [_labels_for(rng, n) for n in sh[0]]
    coords = []
    for i in range(k):
        ls = [list(l[:sh[i][j]]) + list(range(l[-1] + 1, l[-1] + 1 + max(0, sh[i][j] - len(l)))) if l else [] for j, l in enumerate(base)]
        coords.append(ls)
    if mode == "partial" and nd >= 1:
        g = rng.randrange(nd)
        for ls in coords:
            ls[g] = None
    elif mode == "mixed" and nd >= 1:
        g = rng.randrange(nd)
        for i in rng.sample(range(k), rng.randint(1, k - 1)):
            coords[i][g] = None
    elif mode in ("shifted", "permuted", "overlap") and nd >= 1:
        g = rng.randrange(nd)
        i = rng.randrange(k)
        l = coords[i][g]
        if mode == "shifted" or len(l) < 2:
            coords[i][g] = [x + len(l) + 1 for x in l]
        elif mode == "permuted":
            coords[i][g] = l[1:] + l[:1]
        else:
            coords[i][g] = [x + 1 for x in l]
    c["coords"] = coords
    c["fam"] = "coords:" + mode
    return c


def gen_take2(rng, backend=None):
    """take: 0-d / NumPy-scalar indices, NumPy-integer dim, a missing dim, a name on a plain array, method="sel",
    labelled operands (the labels of the result are compared), empty index lists"""
    be = backend or rng.choice(["np", "da", "da", "ds"])
    xr_ = be != "np"
    nd = rng.randint(1, 3)
    sh = [rng.randint(1, 3) for _ in range(nd)]
    ax = rng.randrange(nd)
    n = sh[ax]
    dt = rng.choice(["i64", "f64", "u8", "i32", "bool"] + NEW_DTYPES)
    c = {"op": "take", "backend": be, "dtype": dt, "args": [_fill(rng, sh, dt, _flavour(rng, dt))], "axis": ax if rng.random() < 0.7 else ax - nd}
    variant = rng.choice(["0d", "npint-index", "npint-dim", "absent", "name-on-np", "sel", "sel", "labels", "labels", "empty", "sel-missing"])
    c["dimkind"] = "int"
    if xr_ and rng.random() < 0.4:
        c["dimkind"] = "name"
        c["style"] = "dim"
    one = lambda: rng.randint(-n, n - 1)
    if rng.random() < 0.5:
        c["index"], c["index_type"] = one(), "int"
    else:
        c["index"], c["index_type"] = [one() for _ in range(rng.randint(1, 3))], rng.choice(["list", "ndarray"])
    if variant == "0d":
        c["index"], c["index_type"] = one(), "ndarray0d"
    elif variant == "npint-index":
        c["index"], c["index_type"] = one(), "npint"
    elif variant == "npint-dim":
        c["dimkind"] = "npint"
        c.pop("style", None)
    elif variant == "absent":
        c["dimkind"] = "absent"
        c.pop("style", None)
    elif variant == "name-on-np":
        c["backend"], c["dimkind"], c["style"] = "np", "name", "dim"
        be, xr_ = "np", False
    elif variant == "empty":
        c["index"], c["index_type"] = [], rng.choice(["list", "ndarray"])
    if xr_ and variant in ("sel", "sel-missing", "labels") or (xr_ and rng.random() < 0.3):
        labels = [_labels_for(rng, m) if (j == ax or rng.random() < 0.6) else None for j, m in enumerate(sh)]
        if variant in ("sel", "sel-missing"):
            labels[ax] = rng.sample(range(-5, 30), n)
            c["method"] = "sel"
            pick = lambda: rng.choice(labels[ax])
            if rng.random() < 0.5:
                c["index"], c["index_type"] = pick(), "int"
            else:
                c["index"], c["index_type"] = [pick() for _ in range(rng.randint(1, 3))], "list"
            if variant == "sel-missing":
                if isinstance(c["index"], list):
                    c["index"][-1] = 99
                else:
                    c["index"] = 99
        c["coords"] = [labels]
    if be == "ds" and c["dimkind"] in ("int", "npint") and c.get("coords"):
        # Dataset.sizes lists the labelled dimensions first: an integer `dim` then means another dimension (not generated)
        c["dimkind"], c["style"] = "name", "dim"
    if be == "ds":
        dt2 = rng.choice([dt, "f64", "i64"])
        c["dtype2"] = dt2
        drop = None
        if nd >= 2 and rng.random() < 0.5 and variant not in ("absent",):
            drop = rng.randrange(nd)
            c["v_drop"] = drop
        sh2 = [m for j, m in enumerate(sh) if j != drop]
        c["args2"] = [_fill(rng, sh2, dt2, _flavour(rng, dt2))]
    c["fam"] = "take:" + variant
    # (second audit) the integer dtype of an ndarray / NumPy-scalar index: unsigned dtypes cannot hold a negative index
    if c["index_type"] in ("ndarray", "ndarray0d", "npint") and not c.get("method"):
        neg = any(v < 0 for v in _flat(c["index"]))
        c["index_dtype"] = rng.choice(["i8", "i16", "i32", "i64"] if neg else ["i8", "u8", "i16", "u16", "i32", "u32", "i64", "u64", "u64"])
    return c


# --- broadcasting -----------------------------------------------------------------------------------------------------

def _bshapes(rng, k):
    """k shapes that NumPy broadcasts together (right-aligned, extents 1 stretch), of possibly different rank"""
    R = rng.randint(1, 3)
    full = [rng.randint(1, 3) for _ in range(R)]
    out = []
    for _ in range(k):
        r = rng.randint(0 if rng.random() < 0.15 else 1, R)
        s = full[R - r:]
        s = [1 if (rng.random() < 0.3) else n for n in s]
        out.append(s)
    return out


def gen_broadcast(rng, op=None, backend=None):
    op = op or rng.choice(["add", "subtract", "multiply", "divide", "pow", "stack", "stack", "sum", "max", "mean", "prod"])
    be = backend or rng.choice(["np", "np", "da", "da", "ds"])
    k = 2 if op in BINARY else rng.randint(2, 4)
    shs = _bshapes(rng, k)
    if rng.random() < 0.12:
        shs[rng.randrange(k)] = [rng.randint(2, 3) + 3]          # incompatible
    dt = rng.choice(["i64", "f64", "i64", "u8", "f32", "f16", "i16", "u64", "c64"])
    fl = rng.choice(["int", "dyadic"]) if dt in FLOATS else "int"
    args = [_fill(rng, s, dt, fl) for s in shs]
    if op == "pow":
        dt = "i64"
        args = [_fill(rng, shs[0], "i64", "int"), _map_vals(_fill(rng, shs[1], "i64", "int"), lambda v: abs(v) % 4)]
    c = {"op": op, "backend": be, "dtype": dt, "args": args, "shapes": shs, "py": [None] * k, "fam": "broadcast:" + op}
    if op == "stack":
        R = max(len(s) for s in shs)
        c["axis"] = rng.randint(-(R + 1), R) if rng.random() < 0.8 else None
    if be == "ds":
        c["args2"] = [_map_vals(a, lambda v: _val(rng, dt, fl)) for a in args]
        if op == "pow":
            c["args2"][1] = args[1]
        c["shapes2"] = shs
    if be != "np" and rng.random() < 0.3:
        # labels on the d-dimensions (identical wherever two operands share a dimension)
        R = max(len(s) for s in shs)
        ext = {}
        for s in shs:
            for j, n in enumerate(s):
                ext.setdefault(R - len(s) + j, set()).add(n)
        lab = {g: _labels_for(rng, max(ns)) for g, ns in ext.items() if len(ns) == 1}
        c["coords"] = [[lab.get(R - len(s) + j) for j in range(len(s))] for s in shs]
    return c


# --- tuple axes, zero extents ---------------------------------------------------------------------------------------------

def gen_axes(rng, op=None, backend=None):
    """one array reduced over a tuple / list of axes (any subset, negative members, the empty tuple, a duplicate)"""
    op = op or rng.choice(REDUCTIONS)
    be = backend or rng.choice(["np", "np", "da", "ds"])
    nd = rng.randint(1, 3)
    sh = rng.sample([1, 2, 3, 4], nd)
    dt = rng.choice(["i64", "f64", "u8", "i32", "bool", "f32", "f16", "i8", "u16", "u32", "c128"])
    fl = rng.choice(["int", "dyadic", "special"]) if dt in FLOATS else "int"
    axes = rng.sample(range(nd), rng.randint(0, nd))
    axes = [a - nd if rng.random() < 0.3 else a for a in axes]
    c = {"op": op, "backend": be, "dtype": dt, "args": [_fill(rng, sh, dt, fl, op)], "axis": axes, "fam": "axes"}
    c["style"] = "dim" if be == "ds" or (be == "da" and rng.random() < 0.6) else "axis"
    if be == "np" and axes and rng.random() < 0.08:
        c["axis"] = axes + [axes[0]]                       # duplicate
        c["fam"] = "axes:duplicate"
    if op in ("var", "std", "mean") and len(axes) >= 2:
        c["approx"] = True
    if be == "ds":
        c["args2"] = [_fill(rng, sh, dt, fl, op)]
        if nd >= 2 and rng.random() < 0.5:
            drop = rng.randrange(nd)
            c["v_drop"] = drop
            c["args2"] = [_fill(rng, [m for j, m in enumerate(sh) if j != drop], dt, fl, op)]
    return c


def gen_empty(rng, op=None, backend=None):
    """zero extents: reductions along and across an empty axis, stack / concat / binary operations of empties, take"""
    op = op or rng.choice(REDUCTIONS + ["stack", "concat", "add", "multiply", "take"])
    be = backend or rng.choice(["np", "np", "da", "ds"])
    nd = rng.randint(1, 3)
    sh = [rng.randint(1, 3) for _ in range(nd)]
    z = rng.randrange(nd)
    sh[z] = 0
    dt = rng.choice(["i64", "f64", "u8", "f32", "i8", "u64", "c64"])
    k = 1 if op == "take" else 2 if op in BINARY else rng.randint(1, 3)
    shs = [list(sh) for _ in range(k)]
    c = {"op": op, "backend": be, "dtype": dt, "fam": "empty:" + op, "py": [None] * k}
    if op in REDUCTIONS:
        if k == 1:
            r = rng.random()
            c["axis"] = None if r < 0.25 else rng.randrange(nd)
            c["style"] = "dim" if be == "ds" or (be == "da" and rng.random() < 0.5) else "axis"
    elif op == "stack":
        c["axis"] = rng.randint(-(nd + 1), nd)
    elif op == "concat":
        ax = rng.randrange(nd)
        c["axis"] = ax
        for s in shs:
            if rng.random() < 0.6:
                s[ax] = rng.randint(0, 2)
    elif op == "take":
        ax = rng.randrange(nd)
        c["axis"] = ax
        c["dimkind"] = "int"
        if sh[ax] == 0:
            c["index"], c["index_type"] = (0, "int") if rng.random() < 0.5 else ([], "list")
        else:
            c["index"], c["index_type"] = rng.randrange(sh[ax]), "int"
    c["shapes"] = shs
    c["args"] = [_fill(rng, s, dt, "int") for s in shs]
    if be == "ds":
        c["args2"] = [_fill(rng, s, dt, "int") for s in shs]
        c["shapes2"] = shs
    return c


# --- mixed containers, decoy axis, backend argument checks ---------------------------------------------------------

def gen_mixed(rng, op=None):
    op = op or rng.choice(["sum", "max", "stack", "concat", "add", "multiply", "subtract", "divide", "mean"])
    c = gen_case(rng, op, "da")
    while len(c["args"]) < 2 or not all(isinstance(a, list) for a in c["args"]):
        c = gen_case(rng, op, "da")
    k = len(c["args"])
    conts = [rng.choice(["np", "da"]) for _ in range(k)]
    if len(set(conts)) == 1:
        conts[rng.randrange(k)] = "np" if conts[0] == "da" else "da"
    c["conts"] = conts
    c["backend"] = conts[0]
    c["coords"] = False
    if op == "concat" and conts[0] == "np":
        pass
    c["fam"] = "mixed:" + ("binary" if op in BINARY else "variadic")
    return c


def gen_decoy(rng, backend=None):
    """several arguments AND an axis / dim argument: the argument is overwritten (both back ends)"""
    op = rng.choice(REDUCTIONS)
    be = backend or rng.choice(["np", "da", "da", "ds"])
    nd = rng.randint(1, 3)
    sh = [rng.randint(1, 3) for _ in range(nd)]
    k = rng.randint(2, 4)
    dt = rng.choice(["i64", "f64", "f32", "i16"])
    fl = rng.choice(["int", "dyadic", "special"]) if dt in FLOATS else "int"
    c = {"op": op, "backend": be, "dtype": dt, "args": [_fill(rng, sh, dt, fl, op) for _ in range(k)],
         "axis": rng.randrange(nd), "style": "dim" if be == "ds" and rng.random() < 0.5 else rng.choice(["axis", "dim"]) if be != "np" else "axis",
         "fam": "decoy-axis"}
    if be == "ds":
        c["args2"] = [_fill(rng, sh, dt, fl, op) for _ in range(k)]
    return c


def gen_flags(rng):
    be = rng.choice(["da", "ds"])
    if rng.random() < 0.5:
        c = gen_case(rng, "stack", be)
        while not isinstance(c["args"][0], list):
            c = gen_case(rng, "stack", be)
        c["stack_dim_exists"] = True
        c["fam"] = "flag:stack-dim-exists"
    else:
        c = gen_case(rng, "concat", be)
        c["concat_dim_missing"] = True
        c["fam"] = "flag:concat-dim-missing"
    return c


def gen_ds_dims(rng, op=None):
    """a Dataset whose two variables differ in dims (v lacks one dimension of u) and possibly in dtype"""
    op = op or rng.choice(REDUCTIONS + ["add", "multiply", "stack", "concat"])
    nd = rng.randint(2, 3)
    sh = rng.sample([1, 2, 3, 4], nd)
    drop = rng.randrange(nd)
    sh2 = [m for j, m in enumerate(sh) if j != drop]
    dt, dt2 = rng.choice(["i64", "f64", "u8", "f32", "u16"]), rng.choice(["i64", "f64", "i32", "f16", "i8", "c64"])
    fl = lambda d: rng.choice(["int", "dyadic", "special"]) if d in FLOATS else "int"
    k = 2 if op in BINARY else rng.randint(1, 3)
    c = {"op": op, "backend": "ds", "dtype": dt, "dtype2": dt2, "v_drop": drop, "fam": "ds-dims:" + op, "py": [None] * k}
    f1, f2 = fl(dt), fl(dt2)
    c["args"] = [_fill(rng, sh, dt, f1, op) for _ in range(k)]
    c["args2"] = [_fill(rng, sh2, dt2, f2, op) for _ in range(k)]
    if op in REDUCTIONS and k == 1:
        r = rng.random()
        if r < 0.2:
            c["axis"] = None
        elif r < 0.75:
            c["axis"], c["style"] = rng.randrange(nd), "dim"
        else:
            c["axis"], c["style"] = rng.sample(range(nd), rng.randint(1, nd)), "dim"
            if op in ("var", "std", "mean"):
                c["approx"] = True
    elif op == "stack":
        c["axis"] = rng.choice([0, -1, None])
    elif op == "concat":
        ax = rng.choice([j for j in range(nd) if j != drop])
        c["axis"] = ax
        args, args2 = [], []
        for _ in range(k):
            s = list(sh)
            s[ax] = rng.randint(1, 3)
            args.append(_fill(rng, s, dt, f1))
            args2.append(_fill(rng, [m for j, m in enumerate(s) if j != drop], dt2, f2))
        c["args"], c["args2"] = args, args2
    if rng.random() < 0.4:
        lab = [_labels_for(rng, m) if rng.random() < 0.7 else None for m in sh]
        if op != "concat":
            c["coords"] = [list(lab) for _ in range(k)]
    return c


# --- batch law on every dtype -------------------------------------------------------------------------------------------

def gen_batch(rng, op=None, backend=None, dt=None, flavour=None):
    """>= 3 arguments of one of the batchable functions, every dtype; values that round and wrap on purpose"""
    op = op or rng.choice(["sum", "sum", "prod", "prod", "min", "max", "concat"])
    be = backend or rng.choice(["np", "np", "da", "ds"])
    c = gen_case(rng, op, be)
    while len(c["args"]) < 3:
        c = gen_case(rng, op, be)
    dt = dt or rng.choice(["f64", "f64", "f64", "u8", "i32", "bool", "i64", "f32", "f32", "f16"] + NEW_DTYPES)
    c = retype(rng, c, dt, flavour or (rng.choice(["round", "round", "special", "dyadic"]) if dt in FLOATS else "int" if dt in COMPLEX else None))
    c.pop("dtype2", None)
    if c.get("args2"):
        c["args2"] = [_map_vals(a, lambda v: _val(rng, dt, "round" if dt in FLOATS else "int", op)) for a in c["args2"]]
    c["fam"] = "batch:" + dt
    return c


def witnesses():
    """the inputs of the known findings (replayed on the real code on every run) and of the `_full_fails` theorems"""
    p53 = 2.0 ** 53
    out = [
        # c15_sum_dtype_full_fails: float64 sum, cut [a] [b, c]
        {"op": "sum", "backend": "np", "dtype": "f64", "args": [[p53, p53], [1.0, 1.0], [1.0, 1.0]], "axis": None, "batches": [1, 2], "fam": "witness"},
        {"op": "sum", "backend": "da", "dtype": "f64", "args": [[p53, p53], [1.0, 1.0], [1.0, 1.0]], "axis": None, "batches": [1, 2], "fam": "witness"},
        # c15_prod_dtype_full_fails
        {"op": "prod", "backend": "np", "dtype": "f64", "args": [[0.1, 0.1], [0.1, 0.1], [0.3, 0.3]], "axis": None, "batches": [1, 2], "fam": "witness"},
        # wrap-around does not break the law
        {"op": "sum", "backend": "np", "dtype": "i64", "args": [[2 ** 62], [2 ** 62], [2 ** 62]], "axis": None, "batches": [1, 2], "fam": "witness"},
        {"op": "sum", "backend": "da", "dtype": "u8", "args": [[200, 255], [100, 255], [255, 3]], "axis": None, "batches": [2, 1], "fam": "witness"},
        {"op": "prod", "backend": "np", "dtype": "i32", "args": [[2 ** 31 - 1], [2 ** 31 - 1], [2 ** 31 - 1]], "axis": None, "batches": [2, 1], "fam": "witness"},
        # the mixed-container and broadcasting findings
        {"op": "sum", "backend": "da", "dtype": "i64", "args": [[1, 2], [3, 4]], "conts": ["da", "np"], "axis": None, "fam": "witness"},
        {"op": "sum", "backend": "np", "dtype": "i64", "args": [[1, 2], [3, 4]], "conts": ["np", "da"], "axis": None, "fam": "witness"},
        {"op": "sum", "backend": "da", "dtype": "i64", "args": [[1, 2, 3], [[0, 1, 2], [3, 4, 5]]], "shapes": [[3], [2, 3]], "axis": None, "fam": "witness"},
        {"op": "stack", "backend": "da", "dtype": "i64", "args": [[[0], [1]], [[0, 10, 20]]], "shapes": [[2, 1], [1, 3]], "axis": 0, "fam": "witness"},
        {"op": "add", "backend": "da", "dtype": "i64", "args": [[[0], [1]], [[0, 10, 20]]], "shapes": [[2, 1], [1, 3]], "py": [None, None], "fam": "witness"},
        # the defects repaired by the fix: commits of this round (NaN, misaligned labels, decoy axis, NumPy-integer dim)
        {"op": "sum", "backend": "da", "dtype": "f64", "args": [[1.0, "nan", 2.0]], "axis": None, "fam": "witness"},
        {"op": "sum", "backend": "da", "dtype": "f64", "args": [[1.0, "nan", 2.0], [1.0, 5.0, 2.0]], "axis": None, "fam": "witness"},
        {"op": "min", "backend": "ds", "dtype": "f64", "args": [[1.0, "nan"], [0.5, 5.0]], "args2": [[1.0, 2.0], ["nan", 1.0]], "axis": None, "fam": "witness"},
        {"op": "sum", "backend": "da", "dtype": "i64", "args": [[1, 2], [3, 4]], "coords": [[[0, 1]], [[1, 2]]], "axis": None, "fam": "witness"},
        {"op": "add", "backend": "da", "dtype": "i64", "args": [[1, 2], [3, 4]], "coords": [[[0, 1]], [[1, 2]]], "py": [None, None], "fam": "witness"},
        {"op": "stack", "backend": "da", "dtype": "i64", "args": [[1, 2], [3, 4]], "coords": [[[0, 1]], [[1, 2]]], "axis": 0, "fam": "witness"},
        {"op": "concat", "backend": "da", "dtype": "i64", "args": [[[1, 2]], [[3, 4]]], "coords": [[[0], [0, 1]], [[1], [1, 2]]], "axis": 0, "fam": "witness"},
        {"op": "sum", "backend": "da", "dtype": "i64", "args": [[[0, 1, 2], [3, 4, 5]], [[0, 1, 2], [3, 4, 5]]], "axis": 1, "style": "axis", "fam": "witness"},
        {"op": "take", "backend": "np", "dtype": "i64", "args": [[[0, 1, 2], [3, 4, 5]]], "axis": 1, "dimkind": "npint", "index": 1, "index_type": "int", "fam": "witness"},
        {"op": "take", "backend": "da", "dtype": "i64", "args": [[[0, 1, 2], [3, 4, 5]]], "axis": 1, "dimkind": "npint", "index": 1, "index_type": "int", "fam": "witness"},
    ]
    # second audit, probe 5(a): float32 / float16 data is reduced in its own dtype (NumPy: float32 in, float32 out, every
    # addition rounded to float32: 2^24 + 1 + 1 = 2^24), on every container; uint64 / int8 indices
    p24 = 2.0 ** 24
    for be in ("np", "da", "ds"):
        for op in ("sum", "mean", "prod"):
            w = {"op": op, "backend": be, "dtype": "f32", "args": [[p24, 0.1], [1.0, 0.1], [1.0, 0.3]], "axis": None, "fam": "witness"}
            w1 = {"op": op, "backend": be, "dtype": "f32", "args": [[p24, 1.0, 1.0, 0.1, 0.2, 0.3]], "axis": None, "fam": "witness"}
            w2 = {"op": op, "backend": be, "dtype": "f16", "args": [[2048.0, 0.1], [1.0, 0.1], [1.0, 0.3]], "axis": None, "fam": "witness"}
            for x in (w, w1, w2):
                if be == "ds":
                    x["args2"] = x["args"]
                out.append(x)
    for idt, it in (("u64", "ndarray"), ("u64", "npint"), ("i8", "ndarray"), ("u8", "ndarray0d")):
        for be in ("np", "da"):
            out.append({"op": "take", "backend": be, "dtype": "i64", "args": [[[0, 1, 2], [3, 4, 5]]], "axis": 1, "dimkind": "int",
                        "index": [2, 0] if it == "ndarray" else 2, "index_type": it, "index_dtype": idt, "fam": "witness"})
    # xarray: an empty list of dimensions leaves the dtype (known finding)
    out.append({"op": "mean", "backend": "da", "dtype": "i32", "args": [[[3, -2]]], "axis": [], "style": "dim", "fam": "witness"})
    # the literal reading: two vectors in two singleton batches (c15_literal_full_fails), and one batch holding everything
    for be in ("np", "da"):
        out.append({"op": "sum", "backend": be, "dtype": "i64", "args": [[1, 2], [3, 4]], "axis": None, "batches": [1, 1], "literal": True, "fam": "witness"})
        out.append({"op": "max", "backend": be, "dtype": "i64", "args": [[1, 2], [3, 4]], "axis": None, "batches": [2], "literal": True, "fam": "witness"})
        out.append({"op": "concat", "backend": be, "dtype": "i64", "args": [[1, 2], [3, 4], [5]], "axis": 0, "batches": [1, 2], "literal": True, "fam": "witness"})
    return out


def derived(case, rng=None, literal_budget=2):
    """the batched variants of a case: every cut into >= 2 consecutive batches as fluent reduce() evaluates them,
    plus (sampled) the literal reading of some cuts and of the one-batch partition"""
    if case.get("batches") or case["op"] not in VARIADIC or len(case["args"]) < 2:
        return []
    if any(case.get(k) for k in ("conts", "stack_dim_exists", "concat_dim_missing")) or (case.get("coords") not in (None, False, True)):
        return []
    if case.get("shapes") and len({tuple(s) for s in case["shapes"]}) > 1 and case["op"] != "concat":
        return []
    from earthkit.workflows import backends
    marked = bool(getattr(getattr(backends, case["op"]), "batchable", False))
    if case["op"] == "stack" and not marked:
        return []          # not batchable (c15_stack_not_batchable): cut it only if the source marks it (oracle only)
    out = []
    cuts = compositions(len(case["args"]))
    for sizes in cuts:
        c = dict(case)
        c["batches"] = sizes
        out.append(c)
    literal_ok = not case.get("coords") and case.get("v_drop") is None and (case["backend"] == "np" or case.get("axis") is None)
    if marked and rng is not None and literal_ok:
        pick = [[len(case["args"])]] + rng.sample(cuts, min(literal_budget, len(cuts)))
        for sizes in pick:
            c = dict(case)
            c["batches"] = sizes
            c["literal"] = True
            out.append(c)
    return out
