"""C13 — fluent programs denote the arrays NumPy would compute, batched or not.

Tie: random fluent programs are run on the REAL earthkit.workflows.fluent; every resulting
`Action.graph()` is unfolded into one expression per coordinate and compared STRUCTURALLY (no
floats) with the expressions of Model/Fluent.lean, together with dims / coordinates / scalar
coordinates (labels compared without merging 1.0 with 1; the keep_dim label included), statement by statement.
Oracle (independent of the model): a small interpreter evaluates the real graph — on exact Fraction arrays, on
floats when the program contains std, on xarray DataArrays in 30% of the programs (the other backend) — and the
result is compared with the same operation applied directly with NumPy to the stacked source arrays; dims/coords as
documented. A statement has no reference value only for a stated reason (counted per reason in the evidence); an
exception inside the reference itself is a broken check, never "no reference".
Every statement is evaluated twice — right after it was built and again, every node anew, after the WHOLE program was built (the
final value is the one judged against NumPy); dims / coordinates / value that differ between the two are a violation of their own
(`changed-after-build`: value of statement k changed after statement m was built). The actions of the previous program are kept and
evaluated once more after the next program was built (`changed-by-later-program`: state that outlives a program; the replay holds both).
Batching, without reference value (second audit): every statement of the batchable class (sum/prod/min/max/mean/std, concatenate, a user
function marked batchable) that was given a batch size is built once more with batch_size=0 on the same real operands:
`batching-changes-build` (one raises, the other builds), `batching-changes-value` (dims / labels / values differ).
Translator: which backend functions carry @batchable is read from backends/__init__.py (Gen/FluentMarks.lean).
"""
import glob
import json

import numpy as np

PROPERTY = "C13"
LEVEL_TEXT = ("Lean theorems over Model/Fluent.lean (node arrays as dims + position -> unfolded expression). c13_denotation: an independent "
              "DENOTATION of fluent programs (Prog.den: a value at every coordinate, computed by value-level operations in which batching, the "
              "mean/std rewrites, the join-then-reduce encoding of arithmetic and the loop of transform do not occur) and the theorem, by induction "
              "over programs built from map (one payload or an array of payloads, yields), reduce and the named reductions, mean/std, "
              "stack/concatenate/flatten, select/iselect (values, lists, several criteria), expand (index, name or Coord, backend kwargs), "
              "broadcast (exclude), join (existing/new dimension, different dimensions, match_coord_values), arithmetic with numbers and between "
              "actions of equal or different dimensions, transform (function given as a program over the receiver): IF the construction succeeds, "
              "the node at EVERY position evaluates to the denotation's value and the node array has the dims / coordinate labels / scalar coordinates "
              "of the denotation (for join, broadcast and arithmetic between actions the denotation takes its dims / labels / scalars from the same shape "
              "functions the build uses — that conjunct is definitional there and is carried by the tie and the NumPy oracle; the value conjunct is the "
              "content) — for every interpretation of the payload functions satisfying three laws (trivial = identity, mean = sum/n, "
              "std = pow(sum(x^2)/n - (sum(x)/n)^2, 1/2)), proved of the exact rational interpretation with unknown functions as an explicit opaque symbol "
              "(c13_laws_rat; c13_laws_rat_pow / c13_pow_nat / c13_pow_neg: also with integer exponents of pow interpreted exactly), and for every class "
              "Bat of payloads whose marked-batchable members denote batchable functions (hypothesis Batchable; the only closed instance proved here is "
              "sum without arguments, i.e. programs over sum / mean / std — min, max, prod, concat rest on the hypothesis, discharged per backend function by C15); "
              "c13_batch_invariant_prog: IF a program and the same program with all batch sizes 0 BOTH build, they have the same dims/coords and the same value "
              "at every position (it does not exclude that only the batched one raises); that is excluded for ONE reduction of any size, with or without "
              "keep_dim, by c13_batch_total (payload marked batchable), c13_batch_total_named (sum, prod, min, max), c13_batch_total_concat, c13_batch_total_mean (the "
              "rewrite sum/n) and, with the dimension omitted, c13_batch_total_named_default (through c13_default_dim: dim='' IS the first dimension): if the "
              "unbatched call builds, every batch size builds, with the same dims/coords — not proved for the batched std, and no program-level totality theorem: for whole "
              "programs 'the batched build raises while the unbatched one builds' is reported by the tie (batching-changes-build); "
              "c13_batch_invariant / c13_batch_terminates for one reduce of any size (named dimension; the default dimension dim='' is resolved by "
              "defaultDim in the model and compared by the tie); direct statements for the derived operations "
              "(c13_value_transform: position i along the new dimension IS the function's result for parameter i; c13_value_expand, _flatten, "
              "_select_many, _join_match, _arith, _combine). Unbounded in array shape, dimension size, batch size and program depth; tied to the real fluent "
              "API by a structural correspondence check on unfolded graphs. The clauses 'map / iselect / broadcast / join put node k at position k' are "
              "definitional in the model (c13_value_map, _iselect, _broadcast, _join_existing restate them) and are carried by the tie.")
LEVEL_NOTE = ("modelled, not verified: fluent.py Action.{map (payload or array of payloads),reduce,sum..std,stack,concatenate,flatten,select/sel,iselect/isel,expand,"
              "transform,broadcast(exclude),join,add..power}, Node.__init__ argument insertion, _batch_transform, _expand_transform, _combine_nodes, "
              "_squeeze_dimension, from_source, RegisteredAction (driven through the wrapper; it only casts); which backend functions carry @batchable is "
              "read from backends/__init__.py on every run (Gen/FluentMarks.lean); xarray's own dims/coords bookkeeping (xr.concat, broadcast_like, sel) is "
              "mirrored by hand for the cases the generator reaches (others are reported as out of scope and counted); float rounding is outside (exact "
              "Fractions; tolerance only for programs containing std or running on xarray DataArrays, stated in the evidence); batchability of the payload "
              "FUNCTIONS is a hypothesis (Batchable; C15 proves it per backend function); reductions over a dimension of size 1 are outside the property's "
              "quantifier (the laws mean = sum/n and std speak about the several-arrays overload of the backend functions; one array with axis=k is a different "
              "overload that batching never produces); mixed value types within one program (backend dispatch looks at the first argument only) are outside; "
              "the ORDER of the dimensions after broadcast, join on a new dimension and arithmetic between actions of different dimensions is not documented: "
              "the oracle judges the set of dimensions (and adopts the order the code chose for what follows), the order is compared by the tie only; "
              "statements computed from a statement reported as changed, from an accepted float nan, or that the model reports out of scope are not judged "
              "(counted: unjudged:*, model_out_of_scope); number statics: the model has rationals, the tie writes an integral float as '2.0' (never equal to "
              "the model's '2'), so a float where the code's rewrites or the program wrote an int is a disagreement, and the generator never writes an "
              "integral float itself; values on float32 / int inputs: the oracle requires NumPy's value within tolerance; the dtype is judged on double-precision "
              "inputs only (a float narrower than float64 is value-precision: a downcast inside the graph) — on float32 / integer inputs the nodes of one action "
              "may legitimately carry narrower types than the one array NumPy stacks them into, a wrong integer computation shows in the values")
TECHNIQUE = "Lean 4 proof (denotational semantics of programs, induction over programs and over the batching recursion) over an executable model + structural differential correspondence of unfolded graphs + NumPy oracle on both backends"
LEAN_PROPS = ["EkwVerif.Props.C13", "EkwVerif.Props.C13Den", "EkwVerif.Props.C13Tot"]
LEAN_DRIVERS = ["C13"]
RULE = ("random fluent programs: 1-3 sources (1-3 dims, sizes 1-7, int/str labels), internal shapes scalar..3-D, values exact Fractions or (30%) xarray "
        "DataArrays with named internal dims (xarray backend); chains of depth <= 4 (thorough <= 6) over named reductions (batch sizes 0..size+2, "
        "remainder-of-one batches, keep_dim, backend kwargs), custom reduce/map payloads incl. generators, map with an ndarray / nested list of payloads, "
        "stack/concatenate/flatten (negative axes, backend kwargs), select/iselect/sel/isel (value, list, several criteria, dict / kwargs / mixed), expand "
        "(index, negative index, name, Coord by position or label, backend kwargs, missing dim_size), transform, broadcast (exclude), join (new/existing/"
        "Coord dim, operands of different dims, match_coord_values), arithmetic with scalars and between actions of equal / different dims "
        "(x - x.mean(d), keep_dim), dimensions without coordinate (join on a new name) followed by batched reductions / single-element stack / keep_dim, "
        "the same operation twice with different backend arguments (two stack / concatenate calls with different axes, two reductions with different "
        "backend_kwargs incl. keepdims; the first mostly with the method's default backend_kwargs; chained or side by side; ~9% of the operations + "
        "directed programs, two of them consecutive single-stack programs), "
        "8% of the statements through a.default.<op> / a.<registered subclass>.<op>; ~8% deliberately invalid arguments. Second audit: the reduced "
        "dimension is OMITTED (a.mean(), a.sum(batch_size=2), a.reduce(f), a.flatten(); now and then dim='') in ~22% of the named reductions, ~20% of "
        "reduce / flatten and in the family defaultdim (receiver with >= 2 dimensions, first of size >= 2) — counted as feature:dim-omitted:*; "
        "a.power(k) with k from {0, 1, 2, 3, 4, -1} (exact) and 0.5 (float values only) — feature:pow-exponent:*; ~7% of the programs have one long "
        "dimension (8-12) that is first reduced in batches of 2 or 3 (2-4 rounds of the batching loop; feature:batching-rounds:*); 30% of the xarray "
        "programs and 6% of the others run on float32 / int64 / int32 inputs (programs_input_dtype:*); directed programs for each of these. "
        "FIXED in the generator (not varied): arithmetic scalars come from {2, 3, -1, 5}, affine constants from {2, 3, -1}, transform multipliers "
        "from {2, 3, -1}; no integral float (2.0), bool, None or array is ever passed as a number; labels are ints or strings (tens / 5+3j / letters), "
        "never floats or repeated within a source; at most 3 node dimensions and 48 positions per source; internal shapes from a list of 11 "
        "(scalar .. 3-D, sizes <= 5); batch sizes 0 .. size+2; stack / concatenate / select / expand / join always name their dimension (they have no "
        "default); backend kwargs only axis / keepdims / dim / mode / method / missing_dims. non-trivial = program with >= 1 "
        "statement that succeeds and is not a source; distinct by content hash")
ASSUMPTIONS = [
    "source payloads are functools.partial(srcfn, id); the interpreter supplies their values: every element of every source distinct, 32 random low bits (a mis-wired node is seen)",
    "the label keep_dim gives the kept dimension is undocumented: the oracle does not judge it, the tie compares it (first and last label of the reduced dimension, read back from the text the code builds)",
    "Batchable: a payload marked batchable denotes a batchable function (hypothesis of c13_denotation / c13_batch_invariant*; discharged per backend function by C15)",
    "programs introduce no dimension named batch.<n>.<x> or **datatype** (names the implementation reserves; hypothesis Prog.WF)",
    "the default of an omitted reduced dimension is the FIRST dimension of the node array (signature default dim=''; the docstrings name no default: the oracle holds the pinned convention, a change of it is reported)",
    "Laws.mean / Laws.std are stated for every argument list; of the real backends they hold for the several-arrays overload (>= 2 arrays), which is all that reduce over a dimension of size >= 2 and batching (singleton chunks are passed through, not reduced) ever produce",
    "integer inputs: NumPy's integer arithmetic wraps identically in the graph and in the direct computation; the batched std on int32 inputs squares in int32 (known finding C13-batched-std-int32-overflow)",
]


def read_fluent_marks(repo):
    """(batchable, not batchable) function names of class Backend in backends/__init__.py, in source order"""
    import ast
    src = (repo / "src" / "earthkit" / "workflows" / "backends" / "__init__.py").read_text()
    yes, no = [], []
    for node in ast.parse(src).body:
        if isinstance(node, ast.ClassDef) and node.name == "Backend":
            for f in node.body:
                if isinstance(f, ast.FunctionDef):
                    marked = any((isinstance(d, ast.Name) and d.id == "batchable") or (isinstance(d, ast.Attribute) and d.attr == "batchable")
                                 for d in f.decorator_list)
                    (yes if marked else no).append(f.name)
    return yes, no


def render_fluent_marks(yes, no):
    q = lambda l: "[" + ", ".join('"%s"' % x for x in l) + "]"  # noqa: E731
    return (
        "-- GENERATED by harness/ekw/props/c13.py (translator `fluent_marks`) from\n"
        "-- src/earthkit/workflows/backends/__init__.py -- do not edit.\n"
        "namespace EkwVerif.Gen\n\n"
        "/-- the functions of class `Backend` that carry `@batchable`, in source order (what `Action.reduce` reads as\n"
        "`getattr(payload.func, \"batchable\", False)`) -/\n"
        "def fluentBatchable : List String := " + q(yes) + "\n\n"
        "/-- the other functions of class `Backend` -/\n"
        "def fluentNotBatchable : List String := " + q(no) + "\n\n"
        "end EkwVerif.Gen\n")


def translate(ctx):
    """Gen/FluentMarks.lean: which backend functions carry @batchable (Model/Fluent.lean `isBatchableName` reads it)"""
    from ekw.core import LEAN_DIR, REPO
    yes, no = read_fluent_marks(REPO)
    text = render_fluent_marks(yes, no)
    out = LEAN_DIR / "EkwVerif" / "Gen" / "FluentMarks.lean"
    if not out.exists() or out.read_text() != text:
        out.write_text(text)
    ctx.extra["fluent_batchable"] = yes
    # the marks as the running code has them (cross-check of the translator against the imported module)
    from earthkit.workflows import backends
    live = [n for n in yes + no if getattr(getattr(backends, n), "batchable", False)]
    if live != yes:
        ctx.disagree("fluent-marks-translator", {"source": yes}, yes, live)


def _known_witnesses():
    """inputs that exposed the defects of the pinned tree; run first on every check"""
    S = {"op": "source", "dims": [["d0", [0, 10, 20]]], "base": 0}
    S5 = {"op": "source", "dims": [["d0", [0, 10, 20, 30, 40]]], "base": 0}
    return [
        {"stmts": [S, {"op": "named", "a": 0, "name": "std", "dim": "d0", "bs": 0, "keep": True, "kw": []}], "internal": [3], "vseed": 1, "float": True},
        {"stmts": [S, {"op": "named", "a": 0, "name": "sum", "dim": "d0", "bs": 2, "keep": True, "kw": []}], "internal": [3], "vseed": 1, "float": False},
        {"stmts": [S5, {"op": "named", "a": 0, "name": "mean", "dim": "d0", "bs": 2, "keep": False, "kw": [["axis", 0]]}], "internal": [3], "vseed": 1, "float": False},
        {"stmts": [{"op": "source", "dims": [["d0", [0, 10]], ["d1", [0, 10]]], "base": 0},
                   {"op": "source", "dims": [["e", [0, 10]]], "base": 4},
                   {"op": "broadcast", "a": 0, "b": 1}], "internal": [], "vseed": 1, "float": False},
        {"stmts": [S, {"op": "source", "dims": [["d0", [0, 10, 20]]], "base": 3},
                   {"op": "join", "a": 0, "b": 1, "dim": ["w", ["x", "y"]], "match": False}], "internal": [], "vseed": 1, "float": False},
        {"stmts": [S, {"op": "transform", "a": 0, "func": "sel", "params": [10], "axis": 0, "fdim": "d0", "dim": "d0"}], "internal": [], "vseed": 1, "float": False},
        {"stmts": [S, {"op": "source", "dims": [["d0", [0, 10, 20]]], "base": 3},
                   {"op": "join", "a": 0, "b": 1, "dim": "d0", "match": False},
                   {"op": "named", "a": 2, "name": "sum", "dim": "d0", "bs": 2, "keep": False, "kw": []}], "internal": [], "vseed": 1, "float": False},
    ] + _directed()


def _directed():
    """deterministic programs for the corners the audit named (run first on every check, whatever the seed)"""
    S2 = {"op": "source", "dims": [["d0", [0, 10, 20]], ["d1", ["a", "b"]]], "base": 0}
    T2 = {"op": "source", "dims": [["d1", ["a", "b"]], ["x", [1, 2]]], "base": 6}
    out = []
    # arithmetic between actions of different dimensions: x - x.mean(d), the same with keep_dim (refused), a partly overlapping operand
    for keep in (False, True):
        out.append({"stmts": [S2, {"op": "named", "a": 0, "name": "mean", "dim": "d0", "bs": 0, "keep": keep, "kw": []},
                              {"op": "arith", "a": 0, "fn": "subtract", "b": 1}, {"op": "arith", "a": 1, "fn": "subtract", "b": 0}],
                    "internal": [3], "vseed": 2, "float": False})
    out.append({"stmts": [S2, T2, {"op": "arith", "a": 0, "fn": "divide", "b": 1}, {"op": "join", "a": 0, "b": 1, "dim": "w", "match": False}],
                "internal": [2, 2], "vseed": 3, "float": False})
    # map with an array of payloads (transposition would show: 3 x 2 nodes, every node its own constant)
    for how in ("ndarray", "list"):
        out.append({"stmts": [S2, {"op": "mapn", "a": 0, "shape": [3, 2], "ks": [2, 3, 5, 7, 11, 13], "as": how}], "internal": [3], "vseed": 4, "float": False})
    # … and a SQUARE node array, where a transposed index is silent
    out.append({"stmts": [{"op": "source", "dims": [["d0", [0, 10, 20]], ["d1", ["a", "b", "c"]]], "base": 0},
                          {"op": "mapn", "a": 0, "shape": [3, 3], "ks": [2, 3, 5, 7, 11, 13, 17, 19, 23], "as": "ndarray"},
                          {"op": "mapn", "a": 0, "shape": [3, 3], "ks": [29, 31, 37, 41, 43, 47, 53, 59, 61], "as": "list", "reg": "default"}],
                "internal": [2], "vseed": 4, "float": False})
    # broadcast with exclude
    out.append({"stmts": [S2, {"op": "source", "dims": [["d1", ["p", "q", "r"]], ["g", [1, 2]]], "base": 6},
                          {"op": "broadcast", "a": 0, "b": 1, "exclude": ["d1"]}, {"op": "broadcast", "a": 0, "b": 1}],
                "internal": [], "vseed": 5, "float": False})
    # select: several criteria, keyword arguments, aliases
    for via in ("dict", "kwargs", "mixed"):
        out.append({"stmts": [S2, {"op": "selectn", "a": 0, "how": "select", "crit": [["d0", "vals", [20, 0]], ["d1", "val", "b"]], "drop": False, "via": via, "alias": via != "dict"},
                              {"op": "selectn", "a": 0, "how": "iselect", "crit": [["d1", "val", 1], ["d0", "vals", [2, 2, 0]]], "drop": True, "via": via, "alias": via == "mixed"}],
                    "internal": [2], "vseed": 6, "float": False})
    # expand on a non-square internal array: negative axis; on DataArrays: by name, by Coord (positions / labels), with the registered wrapper
    out.append({"stmts": [S2, {"op": "expand", "a": 0, "dim": "e", "internal": -1, "size": 3, "axis": 1},
                          {"op": "expand", "a": 0, "dim": ["f", ["u", "v"]], "internal": -2, "size": 2, "axis": 0}], "internal": [2, 3], "vseed": 7, "float": False})
    out.append({"stmts": [S2, {"op": "expand", "a": 0, "dim": "e", "internal": "i1", "size": 3, "axis": 2},
                          {"op": "expand", "a": 0, "dim": "f", "icoord": ["i1", [2, 0]], "axis": 0},
                          {"op": "expand", "a": 0, "dim": ["g", ["u", "v"]], "icoord": ["i0", [101, 100]], "kw": [["method", "sel"]], "axis": 1, "reg": "c13sub"}],
                "internal": [2, 3], "vseed": 8, "float": False, "xr": True})
    # stack / flatten with a negative axis on both backends, concatenate along the second internal axis
    for xr in (False, True):
        kw = (lambda nm: {"kw": [["dim", nm]]}) if xr else (lambda nm: {})
        out.append(dict({"stmts": [S2, dict({"op": "stack", "a": 0, "dim": "d0", "bs": 0, "keep": False, "axis": -1}, **kw("s1")),
                                   dict({"op": "flatten", "a": 0, "dim": "d1", "axis": -2}, **kw("s2")),
                                   dict({"op": "concatenate", "a": 0, "dim": "d0", "bs": 2, "keep": True}, **({"kw": [["dim", "i1"]]} if xr else {"kw": [["axis", 1]]}))],
                         "internal": [2, 3], "vseed": 9, "float": False}, **({"xr": True} if xr else {})))
    # keep_dim on labelled / unlabelled dimensions (the tie compares the label the code builds)
    out.append({"stmts": [S2, {"op": "source", "dims": [["d0", [0, 10, 20]], ["d1", ["a", "b"]]], "base": 6}, {"op": "join", "a": 0, "b": 1, "dim": "z", "match": False},
                          {"op": "named", "a": 2, "name": "sum", "dim": "z", "bs": 0, "keep": True, "kw": []},
                          {"op": "named", "a": 0, "name": "max", "dim": "d1", "bs": 0, "keep": True, "kw": []}], "internal": [], "vseed": 10, "float": False})
    # the same operation twice with different backend arguments, the first ones the method's DEFAULT backend_kwargs (after seeded
    # change C13_r3m1: stack wrote its axis into the one default dict every stack node held): chained, side by side, and in
    # two programs that follow each other (the first one's actions are kept and evaluated again after the second was built)
    stk = lambda a, d, axis, **more: dict({"op": "stack", "a": a, "dim": d, "bs": 0, "keep": False, "axis": axis}, **more)  # noqa: E731
    cat = lambda a, d, kw, **more: dict({"op": "concatenate", "a": a, "dim": d, "bs": 0, "keep": False, "kw": kw}, **more)  # noqa: E731
    red = lambda a, nm, d, kw, **more: dict({"op": "named", "a": a, "name": nm, "dim": d, "bs": 0, "keep": False, "kw": kw}, **more)  # noqa: E731
    out.append({"stmts": [S2, stk(0, "d0", 1), stk(1, "d1", 0)], "internal": [2, 4], "vseed": 11, "float": False})
    out.append({"stmts": [S2, stk(0, "d0", 2), stk(0, "d1", 0), stk(0, "d0", -1), stk(2, "d0", 1, reg="default")], "internal": [2, 4], "vseed": 12, "float": False})
    out.append({"stmts": [S2, stk(0, "d0", 2)], "internal": [2, 4], "vseed": 13, "float": False})
    out.append({"stmts": [S2, stk(0, "d1", 0)], "internal": [2, 4], "vseed": 14, "float": False})
    out.append({"stmts": [S2, stk(0, "d0", 1, kw=[["dim", "s1"]]), stk(1, "d1", 0, kw=[["dim", "s2"]]), stk(0, "d1", 2, kw=[["dim", "s3"]])],
                "internal": [2, 3], "vseed": 15, "float": False, "xr": True})
    out.append({"stmts": [S2, cat(0, "d0", [["axis", 1]]), cat(1, "d1", []), cat(0, "d1", [["axis", -1]]), cat(0, "d0", [], bs=2)],
                "internal": [2, 4], "vseed": 16, "float": False})
    out.append({"stmts": [S2, cat(0, "d0", [["dim", "i1"]]), cat(1, "d1", [["dim", "i0"]]), cat(0, "d1", [["dim", "i1"]])],
                "internal": [2, 3], "vseed": 17, "float": False, "xr": True})
    out.append({"stmts": [S2, red(0, "sum", "d0", [["keepdims", 1]]), red(0, "sum", "d1", []), red(1, "max", "d1", []),
                          red(0, "mean", "d0", [["axis", 0]], bs=2), red(0, "prod", "d1", [["keepdims", 0]], keep=True),
                          red(0, "min", "d0", [["axis", 1], ["keepdims", 1]])], "internal": [2, 4], "vseed": 18, "float": False})
    out.append({"stmts": [S2, red(0, "sum", "d0", [])], "internal": [3], "vseed": 19, "float": False})
    out.append({"stmts": [S2, red(0, "sum", "d0", [["keepdims", 1]]), red(0, "max", "d1", [["axis", 1]])], "internal": [3], "vseed": 20, "float": False})
    # second audit: the reduced dimension OMITTED on a 2-D node array (default = the first dimension), batched and not, both backends
    T3 = {"op": "source", "dims": [["d0", [0, 10, 20, 30, 40]], ["d1", ["a", "b", "c"]]], "base": 0}
    nod = lambda nm, bs=0, keep=False: {"op": "named", "a": 0, "name": nm, "dim": None, "bs": bs, "keep": keep, "kw": []}  # noqa: E731
    out.append({"stmts": [T3, nod("mean"), nod("mean", 2), nod("sum"), nod("sum", 2, True), nod("prod"), nod("min", 3), nod("max"),
                          {"op": "reduce", "a": 0, "fn": "first", "dim": None, "bs": 2, "keep": False},
                          {"op": "reduce", "a": 0, "fn": "wsum", "dim": None, "bs": 0, "keep": False},
                          {"op": "flatten", "a": 0, "dim": None, "axis": 0}], "internal": [2], "vseed": 21, "float": False})
    out.append({"stmts": [T3, nod("std"), nod("std", 2), nod("std", 2, True), nod("mean", 2, True)], "internal": [2], "vseed": 22, "float": True})
    out.append({"stmts": [T3, nod("mean"), nod("std", 2), nod("max", 2), {"op": "flatten", "a": 0, "dim": None, "axis": 1, "kw": [["dim", "s1"]]}],
                "internal": [2, 3], "vseed": 23, "float": False, "xr": True})
    # a.power(k) with the exponents 0, 1, 3, 4, -1 (exact) and 0.5 (floats), on both backends
    pw = lambda a, e: {"op": "arith", "a": a, "fn": "pow", "scalar": e}  # noqa: E731
    out.append({"stmts": [S2, pw(0, 0), pw(0, 1), pw(0, 3), pw(0, 4), pw(0, -1), pw(3, 3), pw(5, 2)], "internal": [2], "vseed": 24, "float": False})
    out.append({"stmts": [S2, pw(0, 2), pw(1, 0.5), pw(0, 3), pw(0, -1), pw(0, 4)], "internal": [2], "vseed": 25, "float": True})
    out.append({"stmts": [S2, pw(0, 3), pw(0, 0.5), pw(0, -1), pw(0, 0)], "internal": [2, 2], "vseed": 26, "float": False, "xr": True})
    # a long dimension reduced in small batches: the batching loop of reduce runs three and four times
    L12 = {"op": "source", "dims": [["d0", [10 * j for j in range(12)]], ["d1", ["a", "b"]]], "base": 0}
    L9 = {"op": "source", "dims": [["d1", ["a", "b"]], ["d0", [5 + 3 * j for j in range(9)]]], "base": 0}
    nd_ = lambda nm, d, bs, keep=False: {"op": "named", "a": 0, "name": nm, "dim": d, "bs": bs, "keep": keep, "kw": []}  # noqa: E731
    out.append({"stmts": [L12, nd_("sum", "d0", 2), nd_("mean", "d0", 2, True), nd_("max", "d0", 3), nd_("prod", None, 2),
                          {"op": "reduce", "a": 0, "fn": "first", "dim": "d0", "bs": 2, "keep": False},
                          {"op": "concatenate", "a": 0, "dim": "d0", "bs": 2, "keep": False}], "internal": [2], "vseed": 27, "float": False})
    out.append({"stmts": [L9, nd_("std", "d0", 2), nd_("min", "d0", 2, True), nd_("sum", "d0", 4)], "internal": [3], "vseed": 28, "float": True})
    # single-precision and integer inputs on both backends (the value's precision must not be below NumPy's)
    for dt, xr_ in (("float32", True), ("float32", False), ("int64", True), ("int32", False)):
        out.append(dict({"stmts": [S2, nd_("sum", "d0", 2), nd_("mean", "d1", 0), dict(stk(0, "d0", 0), **({"kw": [["dim", "s1"]]} if xr_ else {})),
                                   pw(0, 2), {"op": "arith", "a": 0, "fn": "divide", "scalar": 3}, {"op": "arith", "a": 0, "fn": "multiply", "b": 0}],
                         "internal": [2, 2], "vseed": 29, "float": True, "dtype": dt}, **({"xr": True} if xr_ else {})))
    # proposed known finding C13-batched-std-int32-overflow: the batched std squares the inputs in their own integer type
    out.append({"stmts": [{"op": "source", "dims": [["d0", [10 * j for j in range(60)]]], "base": 0}, nd_("std", "d0", 2), nd_("std", "d0", 0)],
                "internal": [2], "vseed": 30, "float": True, "dtype": "int32"})
    return out


CHANGED ="changed-after-build"             # a LATER STATEMENT of the same program changed what an earlier statement denotes
CHANGED_LATER = "changed-by-later-program"  # building ANOTHER program changed what a retained action denotes


def _cause(prog, k, kind):
    """mechanism probe for programs on NARROW INTEGER inputs (int32): the same program on int64 inputs — if the failure of
    statement k is gone there, it is an overflow of the narrow integer type inside the graph (the direct NumPy computation converts
    to float64 first); anything else keeps no cause and is never absorbed by that known finding"""
    if prog.get("dtype") != "int32":
        return None
    try:
        wide = dict(prog, dtype="int64")
        if not any(v[0] == k and v[1] == kind for v in check_program(wide)[2]):
            return "int32-overflow"
    except Exception:
        pass
    return None


def _signature(kind, st, by=None, cause=None):
    sig = {"kind": kind, "op": st["op"]}
    if cause:
        sig["cause"] = cause
    if st.get("dim", "") is None:
        sig["dim_omitted"] = True
    if st["op"] == "named":
        sig["name"] = st["name"]
    if "bs" in st:
        sig["batched"] = bool(st["bs"] > 1)
    if "keep" in st:
        sig["keep_dim"] = bool(st["keep"])
    if by is not None:
        sig["by"] = by["op"]
    return sig


def _closure(prog, roots):
    """(sub-program of the statements the roots depend on, old -> new statement numbers)"""
    from ekw import c13_fluent as F
    need = set()

    def visit(i):
        if i in need:
            return
        need.add(i)
        for o in F.operands(prog["stmts"][i]):
            visit(o)
    for r in roots:
        visit(r)
    order = sorted(need)
    ren = {old: new for new, old in enumerate(order)}
    stmts = []
    for i in order:
        st = dict(prog["stmts"][i])
        for key in ("a", "b"):
            if key in st and isinstance(st[key], int) and st["op"] != "source":
                st[key] = ren[st[key]]
        if st.get("func") == "lookup":
            st["r"] = [ren[j] for j in st["r"]]
        stmts.append(st)
    return dict(prog, stmts=stmts), ren


def _shrink(prog, k, failing, also=()):
    """drop statements the failing statement (and the statements in `also`) do not depend on; then try smaller sizes is left to the replay"""
    small, ren = _closure(prog, [k] + list(also))
    try:
        if failing(small, ren[k]):
            return small, ren[k]
    except Exception:
        pass
    return prog, k


def _first_changer(prog, k):
    """the first statement m > k after whose construction the action of statement k is no longer what it was right after
    statement k was built (every probe evaluates the graph anew); None if no single build shows it"""
    from ekw import c13_fluent as F
    base, found = [], []

    def hook(when, m, st, env):
        if when != "after" or found or m < k or isinstance(env[k], tuple):
            return
        snap = F.Snapshot(env[k], F.Interp(prog))
        if m == k:
            base.append(snap)
        elif base and F.snapshot_diff(base[0], snap):
            found.append(m)
    try:
        F.run_real(prog, hook=hook)
    except Exception:
        return None
    return found[0] if found else None


BATCH_BUILD = "batching-changes-build"      # the batched build raises while the unbatched one builds (or the other way round)
BATCH_VALUE = "batching-changes-value"      # both build, the values differ


def _batch_class(st):
    """is the statement in the class the property's last sentence speaks about — a BATCHABLE reduction (sum, prod, min, max,
    concatenate, a user function marked batchable) or mean / std — with a batch size given? (written from the property text and the
    documentation of reduce: a function that is not batchable, or a generator, with a batch size is refused by a documented ValueError)"""
    if not st.get("bs"):
        return False
    if st["op"] == "named":
        return st["name"] in ("sum", "prod", "min", "max", "mean", "std")
    if st["op"] == "reduce":
        return st["fn"] == "first" and not st.get("yields")
    return st["op"] == "concatenate"


def batching_oracle(prog, k, real, interp):
    """Metamorphic, needs no reference value: statement k (of the class above) is built once more with batch_size=0 on the SAME
    real operands. Building must succeed for both or fail for both, with the same dims / labels; the values must be equal (exact
    on Fractions; float tolerance otherwise). Returns None or (kind, text)."""
    from ekw import c13_fluent as F
    st = prog["stmts"][k]
    if not _batch_class(st) or (isinstance(real[k], tuple) and real[k][0] == "skip"):
        return None
    try:
        plain = F.exec_stmt(dict(st, bs=0), real)
    except Exception as e:
        plain = ("err", F.err_class(e), f"{type(e).__name__}: {str(e)[:120]}")
    r = real[k]
    if isinstance(r, tuple) != isinstance(plain, tuple):
        if isinstance(r, tuple):
            return (BATCH_BUILD, f"statement {k} {st} raised {r[2]} while the same statement with batch_size=0 builds")
        return (BATCH_BUILD, f"statement {k} {st} builds while the same statement with batch_size=0 raised {plain[2]}")
    if isinstance(r, tuple):
        return None
    a, b = F.Snapshot(r, interp), F.Snapshot(plain, F.Interp(prog))
    if a.dims != b.dims or a.sizes != b.sizes:
        return (BATCH_VALUE, f"statement {k} {st}: dimensions {list(zip(a.dims, a.sizes))}, with batch_size=0 {list(zip(b.dims, b.sizes))}")
    for d in a.dims:
        # the label keep_dim gives the kept dimension is the same text in both; every other label must be equal
        if a.labels[d] != b.labels[d]:
            return (BATCH_VALUE, f"statement {k} {st}: coordinate {d} = {a.labels[d]}, with batch_size=0 {b.labels[d]}")
    if dict(st.get("kw") or []).get("keepdims"):
        return None     # numpy keepdims=True per batch and again over the batches: the value SHAPE follows the batching (backend argument)
    if (a.exc is None) != (b.exc is None):
        return (BATCH_VALUE, f"statement {k} {st}: evaluating gives {'a value' if a.exc is None else repr(a.exc)[:100]}, "
                f"with batch_size=0 {'a value' if b.exc is None else repr(b.exc)[:100]}")
    if a.exc is not None:
        return None
    if a.inames != b.inames or a.values.shape != b.values.shape:
        return (BATCH_VALUE, f"statement {k} {st}: value shape {a.values.shape} {a.inames}, with batch_size=0 {b.values.shape} {b.inames}")
    if a.values.dtype == object or b.values.dtype == object:
        same = F._same_values(a.values, b.values)
    else:
        # float tolerance relative to the magnitude of the OPERAND (as in oracle_stmt): the std rewrite cancels at eps * x^2
        scale = 1.0
        try:
            ov, _ = interp.values(real[st["a"]])
            if ov.size and ov.dtype != object:
                scale = max(1.0, float(np.nanmax(np.abs(ov.astype(float)))))
        except Exception:
            pass
        if not np.isfinite(scale):
            return None
        same = F._allclose(a.values, b.values, scale, f32=a.values.dtype.itemsize <= 4 or b.values.dtype.itemsize <= 4)
    if not same:
        return (BATCH_VALUE, f"statement {k} {st}: the value differs from the value of the same statement with batch_size=0")
    return None


def check_program(prog):
    """oracle on the real code: list of (k, kind, text).
    Every statement is evaluated TWICE: right after it was built (one interpreter that follows the construction) and once more,
    with a fresh interpreter, after the WHOLE program was built. The value judged against NumPy is the final one (what an
    executor would compute from the finished graph); a statement whose dims / coordinates / value at the end differ from what
    they were when it was built is reported on its own (`changed-after-build`: a later statement reached into an existing node)."""
    from ekw import c13_fluent as F
    early, eint = {}, F.Interp(prog)

    def hook(when, k, st, env):
        if when == "after" and not isinstance(env[k], tuple):
            early[k] = F.Snapshot(env[k], eint)
    real = F.run_real(prog, hook=hook)
    refs = F.run_ref(prog, real)
    interp = F.Interp(prog)
    late = {k: F.Snapshot(real[k], interp) for k in sorted(early)}
    refs.late = late
    out = []
    tainted = set()
    changed = set()
    for k, (r, rf) in enumerate(zip(real, refs)):
        if k in early:
            d = F.snapshot_diff(early[k], late[k])
            if d:
                m = _first_changer(prog, k)
                inherited = m is None and any(o in changed for o in F.operands(prog["stmts"][k]))
                changed.add(k)
                if inherited:
                    # computed from a statement that is reported below as changed: the same cause, seen downstream
                    refs[k] = None
                    refs.why[k] = "computed from a statement whose value changed after it was built (reported)"
                    continue
                out.append((k, CHANGED, f"value of statement {k} {prog['stmts'][k]} changed after statement "
                            f"{m if m is not None else '?'} {prog['stmts'][m] if m is not None else ''} was built: {d}", m))
                continue
        if any(o in changed for o in F.operands(prog["stmts"][k])):
            changed.add(k)
            refs[k] = None
            refs.why[k] = "computed from a statement whose value changed after it was built (reported)"
            continue
        if any(o in tainted for o in F.operands(prog["stmts"][k])):
            # float programs only: an operand holds a nan the tolerance accepted (sqrt of a difference that cancels to -eps
            # where the true variance is 0); what is computed FROM a nan is float rounding too, not judged
            tainted.add(k)
            refs[k] = None
            refs.why[k] = "computed from a value that holds an accepted float nan"
            continue
        v = F.oracle_stmt(prog, k, r, rf, interp, F.float_scale(prog, k, refs))
        if not v:
            v = batching_oracle(prog, k, real, interp)
        if v:
            out.append((k, v[0], v[1], None))
        elif (prog.get("float") or prog.get("xr")) and rf is not None and not isinstance(r, tuple) and F.has_nan(interp, r):
            tainted.add(k)
    return real, refs, out


def recheck_retained(prog, real, snaps):
    """the actions of an EARLIER program, kept alive, evaluated anew: list of (k, text) for the statements that are no longer
    what they were when their own program was finished"""
    from ekw import c13_fluent as F
    interp = F.Interp(prog)
    out = []
    for k in sorted(snaps):
        d = F.snapshot_diff(snaps[k], F.Snapshot(real[k], interp))
        if d:
            out.append((k, d))
    return out


def check_pair(first, then):
    """build and evaluate `first`, build `then`, evaluate `first` again"""
    from ekw import c13_fluent as F
    real, refs, _ = check_program(first)
    F.run_real(then)
    return recheck_retained(first, real, refs.late)


def _report_pair(ctx, first, k, then, text):
    """shrink (statement k of `first` with what it depends on; the ONE statement of `then`, with what it depends on, that does it) and report"""
    small, ren = _closure(first, [k])
    kk = ren[k]
    try:
        if not any(v[0] == kk for v in check_pair(small, then)):
            small, kk = first, k
    except Exception:
        small, kk = first, k
    by = None
    for m in range(len(then["stmts"])):
        cand, _ = _closure(then, [m])
        try:
            if any(v[0] == kk for v in check_pair(small, cand)):
                then, by = cand, then["stmts"][m]
                break
        except Exception:
            pass
    txt = next((v[1] for v in check_pair(small, then) if v[0] == kk), text)
    ctx.violation(_signature(CHANGED_LATER, small["stmts"][kk], by),
                  {"prog": small, "statement": kk, "then": then},
                  f"value of statement {kk} {small['stmts'][kk]} changed after ANOTHER program {then['stmts']} was built "
                  f"(the action was kept, its graph evaluated again): {txt}")


def _why_class(text):
    """the reason a statement has no reference value, as a short counter key"""
    return text.split(":")[0][:60].replace(" ", "_")


def compare_model(ctx, progs, reals):
    """structural correspondence: model (Lean driver) vs real results, statement by statement"""
    from ekw import c13_fluent as F
    from ekw.core import lean_drive
    lines = lean_drive("C13", [json.dumps(p) for p in progs])
    for p, real, line in zip(progs, reals, lines):
        model = json.loads(line)
        unf = F.Unfolder(strict=True)
        oos = set()
        ctx.traces += 1
        for k, (st, r, m) in enumerate(zip(p["stmts"], real, model)):
            c = F.canon_result(r, unf, strict=True)
            if m.get("err") == "outOfScope" or (m.get("skip") and any(o in oos for o in F.operands(st))):
                oos.add(k)
                ctx.count("model_out_of_scope")
                continue
            ctx.count("statements_compared")
            if c != m:
                keys = [key for key in ("dims", "scalars", "exprs", "err", "skip") if c.get(key) != m.get(key)]
                brief = lambda d: {key: (str(d.get(key))[:400]) for key in keys}  # noqa: E731
                ctx.disagree("fluent-statement", {"stmts": p["stmts"][:k + 1], "internal": p["internal"], "xr": bool(p.get("xr")), "differs_in": keys}, brief(m), brief(c))
                break


def correspond(ctx):
    from ekw import c13_fluent as F
    from ekw.core import CORPUS_DIR
    n = ctx.budget(300, 5000)
    max_ops = ctx.budget(4, 6)
    progs = list(_known_witnesses())
    for f in sorted(glob.glob(str(CORPUS_DIR / "C13_*.json"))):
        progs.append(json.load(open(f))["prog"])
    for _ in range(n):
        progs.append(F.gen_program(ctx.rng, max_ops=max_ops, max_pos=48, ext=True))
    reals = []
    prev, reported = None, set()
    for p in progs:
        real, refs, viol = check_program(p)
        reals.append(real)
        for k, text in refs.crashed:
            # a bug of the REFERENCE is never "no reference value": the oracle was off for this statement
            ctx.count("reference_crashed")
            ctx.disagree("oracle-reference-crashed", {"stmts": p["stmts"][:k + 1], "internal": p["internal"], "xr": bool(p.get("xr"))},
                         "a reference value or RefUndefined", text)
        for k, why in refs.why.items():
            if not (isinstance(real[k], tuple) and real[k][0] == "skip"):
                ctx.count("unjudged:" + _why_class(why))
        _count_features(ctx, p, real, refs)
        nontrivial = any(not isinstance(r, tuple) and st["op"] != "source" for st, r in zip(p["stmts"], real))
        ctx.case({"stmts": p["stmts"][:8], "internal": p["internal"]}, nontrivial=nontrivial)
        ctx.count("programs")
        for st, r, rf in zip(p["stmts"], real, refs):
            ctx.count("op:" + st["op"])
            if st["op"] == "named":
                ctx.count("named:" + st["name"])
            if st.get("bs", 0) > 1 and not isinstance(r, tuple):
                ctx.count("batched_ok")
            if st.get("keep") and not isinstance(r, tuple):
                ctx.count("keep_dim_ok")
            if isinstance(r, tuple) and r[0] == "err":
                ctx.count("impl_error:" + r[1])
            if rf is not None:
                ctx.count("oracle_values_compared")
        depth = _depth(p)
        ctx.count("depth:%d" % depth)
        ctx.count("ndim:%d" % len(p["stmts"][0]["dims"]))
        seen = set()
        for k, kind, text, m in viol:
            sig = _signature(kind, p["stmts"][k], p["stmts"][m] if m is not None else None)
            key = json.dumps(sig, sort_keys=True)
            if key in seen or (kind == CHANGED and key in reported):
                continue
            seen.add(key)
            reported.add(key)

            def failing(q, kk, kind=kind):
                return any(v[0] == kk and v[1] == kind for v in check_program(q)[2])
            small, kk = _shrink(p, k, failing, also=[m] if m is not None else [])
            txt = next((v[2] for v in check_program(small)[2] if v[0] == kk and v[1] == kind), text)
            cause = _cause(small, kk, kind)
            if cause:
                sig = dict(sig, cause=cause)
            ctx.violation(sig, {"prog": small, "statement": kk}, txt)
            break   # later statements of the same program usually fail for the same reason
        # state that outlives a program: the previous program's actions were kept; now that this program has been built on
        # top of whatever module-lifetime state the fluent API has, they must still denote what they did
        if prev is not None:
            ctx.count("retained_programs_rechecked")
            for k, text in recheck_retained(*prev)[:1]:
                key = json.dumps(_signature(CHANGED_LATER, prev[0]["stmts"][k]), sort_keys=True)
                if key not in reported:
                    reported.add(key)
                    _report_pair(ctx, prev[0], k, p, text)
        prev = (p, real, refs.late) if not viol else None
    compare_model(ctx, progs, reals)
    ctx.extra["tolerance"] = ("exact Fractions compared with == (a float among the real values of an exact program is value-inexact); programs containing std or "
                              "power(0.5), on xarray DataArrays or on float32 / int inputs run on NumPy numbers: rtol 1e-7 (2e-5 when a float32 is involved), atol 1e-6 x "
                              "magnitude of the operand, nan accepted where NumPy gives |std| <= 1e-4 x magnitude (cancellation in the rewrite: float rounding is outside "
                              "the property); on double-precision inputs every value must be float64 (value-precision)")


def _count_features(ctx, p, real, refs):
    """distribution of the extended vocabulary, and how much of it the oracle judges"""
    if p.get("xr"):
        ctx.count("programs_xarray_values")
    if p.get("dtype"):
        ctx.count("programs_input_dtype:" + p["dtype"] + (":xarray" if p.get("xr") else ":numpy"))
    if p.get("family"):
        ctx.count("programs_family:" + p["family"])
    ctx.count("internal_shape:" + "x".join(map(str, p["internal"])) if p["internal"] else "internal_shape:scalar")
    for k, st in enumerate(p["stmts"]):
        op = st["op"]
        f = []
        if "reg" in st:
            f.append("registered:" + st["reg"])
        if op == "expand":
            f.append("expand:" + ("coord" if "icoord" in st else type(st["internal"]).__name__) + ("+kw" if st.get("kw") else ""))
        if op == "broadcast" and "exclude" in st:
            f.append("broadcast:exclude")
        if op in ("arith", "join") and "b" in st and not isinstance(real[st["a"]], tuple) and not isinstance(real[st["b"]], tuple):
            nm = st.get("dim")
            nm = nm if isinstance(nm, str) else (nm[0] if nm else None)
            da = {str(x) for x in real[st["a"]].nodes.dims} - {nm}
            db = {str(x) for x in real[st["b"]].nodes.dims} - {nm}
            f.append(op + (":same-dims" if da == db else ":different-dims"))
        if op in ("stack", "flatten") and st.get("axis", 0) < 0:
            f.append(op + ":negative-axis")
        if op in ("stack", "flatten", "concatenate") and st.get("kw"):
            f.append(op + ":backend-kwargs")
        if op == "selectn":
            f.append("selectn:%s%s" % (st["via"], ":alias" if st.get("alias") else ""))
        if op == "mapn":
            f.append("mapn:" + st.get("as", "ndarray"))
        if op == "named" and st.get("keep"):
            f.append("keep_dim")
        if op in ("named", "reduce", "flatten") and st.get("dim", "") is None:
            a_ = real[st["a"]]
            nd = len(a_.nodes.dims) if not isinstance(a_, tuple) else 0
            f.append("dim-omitted:" + (st.get("name") or op) + (":on>=2dims" if nd >= 2 else ":on-1dim"))
        if op == "arith" and st.get("fn") == "pow" and "scalar" in st:
            f.append("pow-exponent:%s" % st["scalar"])
        if op in ("named", "reduce", "concatenate") and st.get("bs", 0) > 1 and not isinstance(real[st["a"]], tuple):
            a_ = real[st["a"]].nodes
            d_ = st["dim"] if st.get("dim") else (str(a_.dims[0]) if a_.dims else None)
            if d_ in a_.sizes:
                n_, depth = int(a_.sizes[d_]), 0
                while st["bs"] < n_:
                    n_ = -(-n_ // st["bs"])
                    depth += 1
                f.append("batching-rounds:%d" % depth)
                if int(a_.sizes[d_]) >= 8:
                    f.append("reduced-dimension-size>=8")
        if not isinstance(real[k], tuple):
            for d in real[k].nodes.dims:
                if d not in real[k].nodes.coords and real[k].nodes.sizes[d] >= 1:
                    f.append("has-dimension-without-coordinate")
                    break
        judged = refs[k] is not None and not isinstance(real[k], tuple)
        for x in f:
            ctx.count("feature:" + x)
            if judged:
                ctx.count("feature-judged:" + x)


def _depth(p):
    d = {}
    from ekw import c13_fluent as F
    for k, st in enumerate(p["stmts"]):
        d[k] = 0 if st["op"] == "source" else 1 + max([d[o] for o in F.operands(st)] or [0])
    return max(d.values()) if d else 0


def search(ctx, why):
    """(P) or (T) broken: larger, targeted oracle search on the real code"""
    from ekw import c13_fluent as F
    progs = []
    for dgr in why.get("disagreements", []):
        c = dgr.get("case", {})
        if "stmts" in c:
            for vs in range(3):
                progs.append(dict({"stmts": c["stmts"], "internal": c.get("internal", [3]), "vseed": vs,
                                   "float": any(s.get("name") == "std" for s in c["stmts"])}, **({"xr": True} if c.get("xr") else {})))
    for _ in range(ctx.budget(600, 3000)):
        progs.append(F.gen_program(ctx.rng, max_ops=5, max_pos=48, ext=True))
    seen_sigs = set()
    for p in progs:
        try:
            _, _, viol = check_program(p)
        except Exception:
            continue
        ctx.count("search_programs")
        for k, kind, text, m in viol[:1]:
            sig = _signature(kind, p["stmts"][k], p["stmts"][m] if m is not None else None)
            key = json.dumps(sig, sort_keys=True)
            if key in seen_sigs:       # one failing input per kind of failure (shrinking re-runs the program)
                ctx.count("search_violations_of_a_kind_already_reported")
                continue
            seen_sigs.add(key)

            def failing(q, kk, kind=kind):
                return any(v[0] == kk and v[1] == kind for v in check_program(q)[2])
            small, kk = _shrink(p, k, failing, also=[m] if m is not None else [])
            cause = _cause(small, kk, kind)
            ctx.violation(dict(sig, cause=cause) if cause else sig, {"prog": small, "statement": kk}, text)


def oracle_only(ctx):
    search(ctx, {})


def replay(payload):
    prog = payload["case"]["prog"]
    real, refs, viol = check_program(prog)
    for k, (st, r) in enumerate(zip(prog["stmts"], real)):
        print(k, st, "->", r if isinstance(r, tuple) else (tuple(map(str, r.nodes.dims)), r.nodes.shape))
    for v in viol:
        print("oracle:", v[:3])
    then = payload["case"].get("then")
    if then is not None:
        pair = check_pair(prog, then)
        print("then:", then["stmts"])
        for v in pair:
            print("oracle (statement of the first program, evaluated again after the second was built):", v)
        return 1 if (viol or pair) else 0
    return 1 if viol else 0
