"""C13 — fluent programs denote the arrays NumPy would compute, batched or not.

Tie: random fluent programs are run on the REAL earthkit.workflows.fluent; every resulting
`Action.graph()` is unfolded into one expression per coordinate and compared STRUCTURALLY (no
floats) with the expressions of Model/Fluent.lean, together with dims / coordinates / scalar
coordinates, statement by statement.
Oracle (independent of the model): a small interpreter evaluates the real graph on exact
Fraction arrays (floats only when the program contains std) and the result is compared with the
same operation applied directly with NumPy to the stacked source arrays; dims/coords as documented.
"""
import glob
import json

PROPERTY = "C13"
LEVEL_TEXT = ("Lean theorems over Model/Fluent.lean (node arrays as dims + position -> unfolded expression): a non-batched reduce "
              "has the documented dims and evaluates, under every interpretation of the payload functions, to the payload applied to the "
              "values along the dimension in coordinate order; for every batchable payload, every batch size and every dimension size the "
              "iterated batching of reduce/_batch_transform terminates (batch_size >= 2) and changes neither dims nor any value; the batched "
              "mean is sum/n over exact rationals and the batched std is pow(.,1/2) of the population variance; shape and value theorems for "
              "map (+yields), select/iselect, broadcast, join, arithmetic between actions, stack/concatenate. Unbounded in array shape, dimension size and batch size; tied to the real "
              "fluent API by a structural correspondence check on unfolded graphs.")
LEVEL_NOTE = ("modelled, not verified: fluent.py Action.{map,reduce,sum..std,stack,concatenate,flatten,select,iselect,expand,transform,"
              "broadcast,join,add..power}, Node.__init__ argument insertion, _batch_transform, _expand_transform, _combine_nodes, from_source; "
              "xarray's own dims/coords bookkeeping is mirrored by hand for the cases the generator reaches (others are reported as out of "
              "scope and counted); float rounding is outside (exact Fractions; tolerance only for programs containing std, stated in the evidence); batchability "
              "of backend functions is a hypothesis here (C15 proves it per function); reductions over a dimension of size 1 are outside the "
              "property's quantifier (a backend function applied to one array reduces the array itself)")
TECHNIQUE = "Lean 4 proof by induction on the batching recursion over an executable model + structural differential correspondence of unfolded graphs + NumPy oracle"
LEAN_PROPS = ["EkwVerif.Props.C13"]
LEAN_DRIVERS = ["C13"]
RULE = ("random fluent programs: 1-3 sources (1-3 dims, sizes 1-5, int/str labels), chains of depth <= 4 (thorough <= 6) over named "
        "reductions (batch sizes 0..size+2, with/without keep_dim, backend kwargs), custom reduce/map payloads incl. generators (yields), "
        "stack/concatenate/flatten, select/iselect (value, list, drop), expand, transform, broadcast, join (new/existing/Coord dim, "
        "match_coord_values), arithmetic with scalars and actions; ~8% deliberately invalid arguments. non-trivial = program with >= 1 "
        "statement that succeeds and is not a source; distinct by content hash")
ASSUMPTIONS = [
    "source payloads are functools.partial(srcfn, id); the interpreter supplies their values (exact Fractions, nonzero)",
    "coordinate labels produced by keep_dim are compared as opaque (the docstring promises the dimension and its position only)",
    "IsBatchable of a payload function is a hypothesis of c13_batch_invariant (discharged per backend function by C15)",
]


def _known_witnesses():
    """inputs that exposed the defects of the pinned tree; run first on every check"""
    S = {"op": "source", "dims": [["d0", [0, 10, 20]]], "base": 0}
    S5 = {"op": "source", "dims": [["d0", [0, 10, 20, 30, 40]]], "base": 0}
    return [
        {"stmts": [S, {"op": "named", "a": 0, "name": "std", "dim": "d0", "bs": 0, "keep": True, "kw": []}], "internal": [3], "vseed": 1, "float": True},
        {"stmts": [S, {"op": "named", "a": 0, "name": "sum", "dim": "d0", "bs": 2, "keep": True, "kw": []}], "internal": [3], "vseed": 1, "float": False},
        {"stmts": [S5, {"op": "named", "a": 0, "name": "mean", "dim": "d0", "bs": 2, "keep": False, "kw": [["axis", 0]]}], "internal": [3], "vseed": 1, "float": False},
        {"stmts": [{"op": "source", "dims": [["d0", [0, 10]], ["d1", [0, 10]]], "base": 0},
                   {"op": "source", "dims": [["e", [0, 10]]], "base": 4},
                   {"op": "broadcast", "a": 0, "b": 1}], "internal": [], "vseed": 1, "float": False},
        {"stmts": [S, {"op": "source", "dims": [["d0", [0, 10, 20]]], "base": 3},
                   {"op": "join", "a": 0, "b": 1, "dim": ["w", ["x", "y"]], "match": False}], "internal": [], "vseed": 1, "float": False},
        {"stmts": [S, {"op": "transform", "a": 0, "func": "sel", "params": [10], "axis": 0, "fdim": "d0", "dim": "d0"}], "internal": [], "vseed": 1, "float": False},
        {"stmts": [S, {"op": "source", "dims": [["d0", [0, 10, 20]]], "base": 3},
                   {"op": "join", "a": 0, "b": 1, "dim": "d0", "match": False},
                   {"op": "named", "a": 2, "name": "sum", "dim": "d0", "bs": 2, "keep": False, "kw": []}], "internal": [], "vseed": 1, "float": False},
    ]


def _signature(kind, st):
    sig = {"kind": kind, "op": st["op"]}
    if st["op"] == "named":
        sig["name"] = st["name"]
    if "bs" in st:
        sig["batched"] = bool(st["bs"] > 1)
    if "keep" in st:
        sig["keep_dim"] = bool(st["keep"])
    return sig


def _shrink(prog, k, failing):
    """drop statements the failing statement does not depend on; then try smaller sizes is left to the replay"""
    from ekw import c13_fluent as F
    need = set()

    def visit(i):
        if i in need:
            return
        need.add(i)
        for o in F.operands(prog["stmts"][i]):
            visit(o)
    visit(k)
    order = sorted(need)
    ren = {old: new for new, old in enumerate(order)}
    stmts = []
    for i in order:
        st = dict(prog["stmts"][i])
        for key in ("a", "b"):
            if key in st and isinstance(st[key], int) and st["op"] != "source":
                st[key] = ren[st[key]]
        stmts.append(st)
    small = dict(prog, stmts=stmts)
    try:
        if failing(small, len(stmts) - 1):
            return small, len(stmts) - 1
    except Exception:
        pass
    return prog, k


def check_program(prog):
    """oracle on the real code: list of (k, kind, text)"""
    from ekw import c13_fluent as F
    real = F.run_real(prog)
    refs = F.run_ref(prog, real)
    interp = F.Interp(prog)
    out = []
    for k, (r, rf) in enumerate(zip(real, refs)):
        v = F.oracle_stmt(prog, k, r, rf, interp, F.float_scale(prog, k, refs))
        if v:
            out.append((k, v[0], v[1]))
    return real, refs, out


def compare_model(ctx, progs, reals):
    """structural correspondence: model (Lean driver) vs real results, statement by statement"""
    from ekw import c13_fluent as F
    from ekw.core import lean_drive
    lines = lean_drive("C13", [json.dumps(p) for p in progs])
    for p, real, line in zip(progs, reals, lines):
        model = json.loads(line)
        unf = F.Unfolder()
        oos = set()
        ctx.traces += 1
        for k, (st, r, m) in enumerate(zip(p["stmts"], real, model)):
            c = F.canon_result(r, unf)
            if m.get("err") == "outOfScope" or (m.get("skip") and any(o in oos for o in F.operands(st))):
                oos.add(k)
                ctx.count("model_out_of_scope")
                continue
            ctx.count("statements_compared")
            if c != m:
                keys = [key for key in ("dims", "scalars", "exprs", "err", "skip") if c.get(key) != m.get(key)]
                brief = lambda d: {key: (str(d.get(key))[:400]) for key in keys}  # noqa: E731
                ctx.disagree("fluent-statement", {"stmts": p["stmts"][:k + 1], "internal": p["internal"], "differs_in": keys}, brief(m), brief(c))
                break


def correspond(ctx):
    from ekw import c13_fluent as F
    from ekw.core import CORPUS_DIR
    n = ctx.budget(300, 5000)
    max_ops = ctx.budget(4, 6)
    progs = list(_known_witnesses())
    for f in sorted(glob.glob(str(CORPUS_DIR / "C13_*.json"))):
        progs.append(json.load(open(f))["prog"])
    for _ in range(n):
        progs.append(F.gen_program(ctx.rng, max_ops=max_ops))
    reals = []
    for p in progs:
        real, refs, viol = check_program(p)
        reals.append(real)
        nontrivial = any(not isinstance(r, tuple) and st["op"] != "source" for st, r in zip(p["stmts"], real))
        ctx.case({"stmts": p["stmts"][:8], "internal": p["internal"]}, nontrivial=nontrivial)
        ctx.count("programs")
        for st, r, rf in zip(p["stmts"], real, refs):
            ctx.count("op:" + st["op"])
            if st["op"] == "named":
                ctx.count("named:" + st["name"])
            if st.get("bs", 0) > 1 and not isinstance(r, tuple):
                ctx.count("batched_ok")
            if st.get("keep") and not isinstance(r, tuple):
                ctx.count("keep_dim_ok")
            if isinstance(r, tuple) and r[0] == "err":
                ctx.count("impl_error:" + r[1])
            if rf is not None:
                ctx.count("oracle_values_compared")
        depth = _depth(p)
        ctx.count("depth:%d" % depth)
        ctx.count("ndim:%d" % len(p["stmts"][0]["dims"]))
        seen = set()
        for k, kind, text in viol:
            sig = _signature(kind, p["stmts"][k])
            key = json.dumps(sig, sort_keys=True)
            if key in seen:
                continue
            seen.add(key)

            def failing(q, kk, kind=kind):
                return any(v[0] == kk and v[1] == kind for v in check_program(q)[2])
            small, kk = _shrink(p, k, failing)
            txt = next((v[2] for v in check_program(small)[2] if v[0] == kk and v[1] == kind), text)
            ctx.violation(sig, {"prog": small, "statement": kk}, txt)
            break   # later statements of the same program usually fail for the same reason
    compare_model(ctx, progs, reals)
    ctx.extra["tolerance"] = "exact Fractions; only programs containing std run on floats: rtol 1e-7, atol 1e-6 x magnitude of the operand, and nan accepted where NumPy gives |std| <= 1e-4 x magnitude (cancellation in the rewrite: float rounding is outside the property)"


def _depth(p):
    d = {}
    from ekw import c13_fluent as F
    for k, st in enumerate(p["stmts"]):
        d[k] = 0 if st["op"] == "source" else 1 + max([d[o] for o in F.operands(st)] or [0])
    return max(d.values()) if d else 0


def search(ctx, why):
    """(P) or (T) broken: larger, targeted oracle search on the real code"""
    from ekw import c13_fluent as F
    progs = []
    for dgr in why.get("disagreements", []):
        c = dgr.get("case", {})
        if "stmts" in c:
            for vs in range(3):
                progs.append({"stmts": c["stmts"], "internal": c.get("internal", [3]), "vseed": vs, "float": any(s.get("name") == "std" for s in c["stmts"])})
    for _ in range(ctx.budget(600, 3000)):
        progs.append(F.gen_program(ctx.rng, max_ops=5))
    for p in progs:
        try:
            _, _, viol = check_program(p)
        except Exception:
            continue
        ctx.count("search_programs")
        for k, kind, text in viol[:1]:
            sig = _signature(kind, p["stmts"][k])

            def failing(q, kk, kind=kind):
                return any(v[0] == kk and v[1] == kind for v in check_program(q)[2])
            small, kk = _shrink(p, k, failing)
            ctx.violation(sig, {"prog": small, "statement": kk}, text)


def oracle_only(ctx):
    search(ctx, {})


def replay(payload):
    prog = payload["case"]["prog"]
    real, refs, viol = check_program(prog)
    for k, (st, r) in enumerate(zip(prog["stmts"], real)):
        print(k, st, "->", r if isinstance(r, tuple) else (tuple(map(str, r.nodes.dims)), r.nodes.shape))
    for v in viol:
        print("oracle:", v)
    return 1 if viol else 0
