"""C02 — see DESIGN.md section 5; shares Model/Ctrl.lean, Drive/Ctrl.lean and harness/ekw/sim_ctrl.py with C01–C04."""
from ekw import ctrl_check

PROPERTY = "C02"
LEVEL_TEXT = ("Lean theorems over the small-step model of controller.impl.run + abstract executors (Model/Ctrl.lean): in every reachable "
              "state, for every job, cluster, admissible heuristic choice and event order/batching, each task is named by at most one "
              "task_sequence command, sent to a worker that exists, has nothing queued (idle in the controller implies free in the "
              "environment) and satisfies the GPU requirement (invariant Inv1, proved by induction over steps). The clauses 'inputs "
              "already produced / present on the target or in transfer' are monitored by the oracle on every run and are proof "
              "obligations still open in the model (see DESIGN.md).")
LEVEL_NOTE = ("modelled, not verified: scheduler/api.py initialize/assign(plumbing)/plan, scheduler/assign.py build_assignment + the pops of "
              "_assignment_heuristic, controller/act.py, controller/notify.py. Abstracted as an oracle validated by the model and supplied from the real "
              "run: which (idle worker, computable task) pairs the distance/overhead heuristics and host->component migration pick, and which "
              "available host is the transmit source. Executors are abstract (SimBridge mirrors Env). The worker-side wait loop "
              "(runner/entrypoint.py) is covered by the oracle of this check only through SimBridge's rule, not by a theorem.")
TECHNIQUE = "Lean 4 invariant proof over a small-step transition system (controller micro-steps x adversarial executors) + step-by-step state correspondence with the real controller driven through SimBridge"
LEAN_PROPS = ["EkwVerif.Props.C02"]
LEAN_DRIVERS = ["Ctrl"]
RULE = ctrl_check.RULE
ASSUMPTIONS = ctrl_check.ASSUMPTIONS


def correspond(ctx):
    ctrl_check.correspond(ctx, PROPERTY)


def replay(payload):
    return ctrl_check.replay(payload, PROPERTY)
