"""C02 — see DESIGN.md section 5; shares Model/Ctrl.lean, Drive/Ctrl.lean and harness/ekw/sim_ctrl.py with C01–C04."""
from ekw import ctrl_check

PROPERTY = "C02"
LEVEL_TEXT = ("Lean theorems over the small-step system controller x abstract executors (Model/Ctrl.lean): in every reachable state, for every job, "
              "cluster, admissible heuristic choice and event order/batching, each task is named by at most one task_sequence command (and exactly "
              "one once its completion was seen), sent to a worker that exists, has nothing queued and satisfies the GPU requirement, with every "
              "input already produced and present on the target host or in an outstanding transfer to it (all seven C02 monitors never fire; "
              "InvAll); with non-atomic task bodies (Model/CtrlN.lean) every input of a computable or dispatched task has really been published "
              "(c02_inputs_published). Worker side (Model/Worker.lean = runner/entrypoint.py wait loop): for every message interleaving the worker enters "
              "execute_sequence only after a DatasetPublished notice for every required dataset (c02_worker_waits).")
LEVEL_NOTE = ("modelled, not verified: scheduler/api.py initialize/plan, scheduler/assign.py build_assignment + the pops of _assignment_heuristic, controller/act.py act/flush_queues, controller/notify.py notify/consider_*, impl.run loop skeleton (Model/Ctrl.lean, one Lean function per Python function). Abstracted as an oracle argument validated for admissibility by the model and supplied from what the real run chose: which (idle worker, computable task) pairs the distance/overhead heuristics and host->component migration pick per round, and which `available` host is the transmit source; theorems quantify over all admissible choices. Executors are abstract (Env + the non-atomic layer Model/CtrlN.lean; SimBridge mirrors both): a dispatched task starts once its inputs are in its host's store and publishes its outputs in index order, one step per output, interleaved with everything else; transmit/fetch read the source store; purge is immediate. Hypothesis WF: tasks topologically numbered, inputs duplicate-free, >=1 output per task, requested outputs exist, worker ids distinct (the generator guarantees it). Worker model: availab_ds/missing_ds/waiting_ts bookkeeping of entrypoint(), driven in-process with fake zmq/Memory; `required` is computed by the harness as the code does.")
TECHNIQUE = "Lean 4 inductive system invariant over a small-step transition system (controller micro-steps x adversarial executors) + worker wait-loop invariant; step-by-step state correspondence with the real controller (SimBridge) and the real worker entrypoint"
LEAN_PROPS = ["EkwVerif.Props.C02"]
LEAN_DRIVERS = ["Ctrl"]
RULE = ctrl_check.RULE
ASSUMPTIONS = ctrl_check.ASSUMPTIONS


def correspond(ctx):
    ctrl_check.correspond(ctx, PROPERTY)


def replay(payload):
    return ctrl_check.replay(payload, PROPERTY)


# ----------------------------------------------------------------------------- worker side (runner/entrypoint.py wait loop)
LEAN_PROPS = ["EkwVerif.Props.C02", "EkwVerif.Props.C02Worker"]
LEAN_DRIVERS = ["Ctrl", "C02W"]


class _Done(Exception):
    pass


def _worker_job(rng):
    """small job: tasks t0..tn-1, each with 1-2 outputs and inputs from earlier tasks; returns (JobInstance, spec)"""
    from ekw import sim_ctrl as S
    spec = S.gen_job(rng, 6, allow_gpu=False)
    while not spec["tasks"]:
        spec = S.gen_job(rng, 6, allow_gpu=False)
    return S.build_job(spec), spec


def _gen_worker_history(rng, spec):
    """messages: ("task", [t...]) | ("pub", [t,k]) | ("purge", [t,k]) | ("shutdown",)"""
    n = len(spec["tasks"])
    allds = [[t, k] for t in range(n) for k in range(spec["tasks"][t]["nOut"])]
    msgs = []
    for _ in range(rng.randint(2, 14)):
        r = rng.random()
        if r < 0.3:
            k = rng.randint(1, min(2, n))
            ts = sorted(rng.sample(range(n), k))
            msgs.append(("task", ts))
        elif r < 0.85:
            msgs.append(("pub", rng.choice(allds)))
        elif r < 0.97:
            msgs.append(("purge", rng.choice(allds)))
        else:
            msgs.append(("shutdown",))
    return msgs


def _required(spec, ts):
    req = []
    for t in ts:
        for d in spec["tasks"][t]["params"]:
            if d not in req:
                req.append(d)
    own = [[t, k] for t in ts for k in range(spec["tasks"][t]["nOut"])]
    return [d for d in req if d not in own]


def run_worker_real(job, spec, msgs):
    """drive the REAL entrypoint() in-process; returns one canonical output per message"""
    import types
    from ekw import sim_ctrl as S_
    import cascade.executor.runner.entrypoint as ep
    import cascade.executor.serde as serde
    from cascade.executor.msg import DatasetPublished, DatasetPurge, TaskSequence, WorkerShutdown
    from cascade.low.core import DatasetId, WorkerId
    from cascade.low.views import param_source
    wid = WorkerId("h0", "w0")
    raw = []
    for m in msgs:
        if m[0] == "task":
            raw.append(serde.ser_message(TaskSequence(worker=wid, tasks=[f"t{t}" for t in m[1]], publish=set())))
        elif m[0] == "pub":
            raw.append(serde.ser_message(DatasetPublished(origin=wid, ds=S_.dsid(m[1]), transmit_idx=None)))
        elif m[0] == "purge":
            raw.append(serde.ser_message(DatasetPurge(ds=S_.dsid(m[1]))))
        else:
            raw.append(serde.ser_message(WorkerShutdown()))
    record = []

    class Sock:
        def bind(self, a):
            pass

        def recv(self):
            record.append(("recv",))
            if not raw:
                raise _Done()
            return raw.pop(0)

    class Ctx:
        def socket(self, k):
            return Sock()

    class Mem:
        def __init__(self, cb, worker):
            pass

        def __enter__(self):
            return self

        def __exit__(self, *a):
            return False

        def provide(self, ds, ann):
            record.append(("provide", S_.un_ds(ds)))

        def pop(self, ds):
            record.append(("pop", S_.un_ds(ds)))

        def flush(self):
            pass

    class Pk:
        def __enter__(self):
            return self

        def __exit__(self, *a):
            return False

        def extend(self, l):
            pass

    saved = (ep.zmq, ep.callback, ep.Memory, ep.PackagesEnv, ep.execute_sequence, ep.logging_config)
    ep.zmq = types.SimpleNamespace(Context=Ctx, PULL=0)
    ep.callback = lambda addr, msg: None
    ep.Memory, ep.PackagesEnv = Mem, Pk
    ep.execute_sequence = lambda ts, mem, pk, rc: record.append(("exec", [int(t[1:]) for t in ts.tasks]))
    ep.logging_config = {"version": 1, "disable_existing_loggers": False}
    try:
        rc = ep.RunnerContext(workerId=wid, job=job, callback="cb", param_source=param_source(job.edges))
        try:
            ep.entrypoint(rc)
            record.append(("returned",))
        except _Done:
            pass
        except Exception as e:
            record.append(("raised", f"{type(e).__name__}: {e}"[:60]))
    finally:
        ep.zmq, ep.callback, ep.Memory, ep.PackagesEnv, ep.execute_sequence, ep.logging_config = saved
    # segment per message
    segs, cur = [], None
    for r in record:
        if r[0] == "recv":
            if cur is not None:
                segs.append(cur)
            cur = []
        elif cur is not None:
            cur.append(r)
    if cur is not None and len(segs) < len(msgs):
        segs.append(cur)
    outs = []
    for seg in segs[:len(msgs)]:
        kinds = [r[0] for r in seg]
        if "raised" in kinds:
            outs.append({"out": "raised"})
        elif "exec" in kinds:
            outs.append({"out": "executed", "tasks": [r for r in seg if r[0] == "exec"][0][1]})
        elif "returned" in kinds:
            outs.append({"out": "stop"})
        elif "provide" in kinds:
            outs.append({"out": "provided", "ds": sorted(r[1] for r in seg if r[0] == "provide")})
        else:
            outs.append({"out": "nothing"})
    return outs


def correspond_worker(ctx):
    import json
    import random
    from ekw.core import lean_drive
    n = ctx.budget(150, 5000)
    lines, cases = [], []
    for _ in range(n):
        seed = ctx.rng.randrange(1 << 30)
        rng = random.Random(seed)
        job, spec = _worker_job(rng)
        msgs = _gen_worker_history(rng, spec)
        try:
            real = run_worker_real(job, spec, msgs)
        except Exception as e:   # harness-level trouble with the real entrypoint is a disagreement, not a crash
            ctx.disagree("worker-entrypoint-drive", {"spec": spec, "msgs": msgs}, "drivable", f"{type(e).__name__}: {e}")
            continue
        ids = {}
        ml = [json.dumps({"op": "reset"})]
        for i, m in enumerate(msgs):
            if m[0] == "task":
                ids[i] = m[1]
                ml.append(json.dumps({"op": "task", "id": i, "req": _required(spec, m[1])}))
            elif m[0] == "pub":
                ml.append(json.dumps({"op": "pub", "ds": m[1]}))
            elif m[0] == "purge":
                ml.append(json.dumps({"op": "purge", "ds": m[1]}))
            else:
                ml.append(json.dumps({"op": "shutdown"}))
        lines += ml
        cases.append((spec, msgs, real, ids))
        waits = any(o["out"] == "provided" for o in real)
        ctx.case({"worker_history": msgs, "tasks": len(spec["tasks"])}, nontrivial=waits)
        ctx.count("worker_histories")
        for o in real:
            ctx.count("worker_out:" + o["out"])
        # oracle (property text): execution only after every required dataset has been announced to this worker
        seen = []
        for i, (m, o) in enumerate(zip(msgs, real)):
            if m[0] == "pub" and m[1] not in seen:
                seen.append(m[1])
            if o["out"] == "executed":
                for d in _required(spec, o["tasks"]):
                    if d not in seen:
                        ctx.violation({"kind": "worker-started-before-input-announced"}, {"spec": spec, "msgs": msgs[:i + 1]},
                                      f"worker entered execute_sequence for tasks {o['tasks']} although dataset {d} was never announced to it")
    out = lean_drive("C02W", lines)
    k = 0
    for spec, msgs, real, ids in cases:
        k += 1   # reset line
        mo = [json.loads(x) for x in out[k:k + len(msgs)]]
        k += len(msgs)
        ctx.traces += 1
        dead = False
        for i, (m, r) in enumerate(zip(msgs, real)):
            o = mo[i]
            if o.get("out") == "dead":
                break
            o = o["o"]
            if o["out"] == "executed":
                want = {"out": "executed", "tasks": ids.get(o["id"])}
            elif o["out"] == "provided":
                want = {"out": "provided", "ds": sorted(o["ds"])} if o["ds"] else {"out": "nothing"}
            else:
                want = {"out": o["out"]}
            if want != r:
                ctx.disagree("worker-wait-loop", {"spec": spec, "msgs": msgs[:i + 1]}, want, r)
                break
            if r["out"] in ("raised", "stop"):
                break


_ctrl_correspond = correspond


def correspond(ctx):   # noqa: F811
    _ctrl_correspond(ctx)
    correspond_worker(ctx)
