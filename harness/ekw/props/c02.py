"""C02 — see DESIGN.md section 5; shares Model/Ctrl.lean, Drive/Ctrl.lean and harness/ekw/sim_ctrl.py with C01–C04."""
from ekw import ctrl_check

PROPERTY = "C02"
LEVEL_TEXT = ("Lean theorems over the small-step system controller x abstract executors (Model/Ctrl.lean) and its extension by the control flow of assign() (Model/Sched.lean): in every reachable state, for every job, cluster, admissible heuristic choice and event order/batching, each task is named by at most one task_sequence command (exactly one once its completion was seen), sent to a worker that exists, is free and satisfies the GPU requirement, with every input already produced and present on the target host or in an outstanding transfer to it (all C02 monitors never fire; InvAll). The GPU / free-worker clauses are derived from the REAL mechanism, not from the validation of an oracle value: every (task, worker) pair the control flow of assign_within_component/_assignment_heuristic can yield (GPU partition gpu_t/gpu_w, then cpu_t/cpu_w + idle gpu workers) is admissible, so the validation in the model never rejects what the code produces (c02_assign_admissible, c02_filter_never_rejects, c02_dispatch_by_control_flow). 'Not already busy' at full strength: a worker has at most one task in flight (c02_worker_single_flight); with non-atomic bodies an idle worker has nothing queued AND no body running, and no second body ever starts on a worker (c02_idle_means_free_running, c02_no_second_body); every input of a computable or dispatched task has really been published (c02_inputs_published). Worker side (Model/Worker.lean = runner/entrypoint.py wait loop): for every message interleaving the worker enters execute_sequence only after a DatasetPublished notice for every required dataset (c02_worker_waits; bookkeeping of availab_ds/missing_ds/waiting_ts: c02_worker_bookkeeping, c02_worker_avail_partial/_full_fails). Executor layer (Model/ExecLayer.lean = worker publish, executor fan-out and purge filter, data-server store, worker loop composed): at every entry into execute_sequence every required dataset had been completely WRITTEN into this host's shm before (c02_exec_inputs_arrived), is readable while the controller traffic keeps the C04 discipline (c02_exec_inputs_readable, _full_fails), every announcement anywhere names a dataset written before (c02_exec_announced_after_write), a worker only runs sequences addressed to it (c02_exec_named_worker), GPU worker i sees exactly device i (c02_gpu_own_device/_exclusive/_registered: facts about the two one-line models cudaFields/regGpu). 'Satisfies the GPU requirement' in the controller theorems is cl.hasGpu of the cluster the harness supplies; how that cluster arises is modelled too (Model/BridgeInit.lean = the registration loop of Bridge.__init__, Props/C02Bridge.lean): for ANY order, batching and repetition of the executors' registration messages the controller's Environment lists exactly the registered workers, once each, and believes worker i of host h to have a GPU iff i < CASCADE_GPU_COUNT(h) (c02_env_matches_registration), so a worker believed to have a GPU sees exactly one existing device, its own (c02_believed_gpu_has_device). Tie: the real Bridge.__init__ is fed the registration messages of the real Executor.__init__ (random batching, empty polls, repeats); its Environment (in insertion order) and routing table are compared with the model's and, independently, with the registered flags and the devices the workers see. ")
LEVEL_NOTE = ("modelled, not verified: scheduler/api.py initialize/plan, scheduler/assign.py build_assignment + the pops of _assignment_heuristic, controller/act.py act/flush_queues, controller/notify.py notify/consider_*, impl.run loop skeleton (Model/Ctrl.lean, one Lean function per Python function). Abstracted as an oracle argument validated for admissibility by the model and supplied from what the real run chose: which (idle worker, computable task) pairs the distance/overhead heuristics and host->component migration pick per round, and which `available` host is the transmit source; theorems quantify over all admissible choices. Executors are abstract (Env + the non-atomic layer Model/CtrlN.lean; SimBridge mirrors both): a dispatched task starts once its inputs are in its host's store and publishes its outputs in index order, one step per output, interleaved with everything else; transmit/fetch read the source store; purge is immediate. Hypothesis WF: tasks topologically numbered, inputs duplicate-free, >=1 output per task, requested outputs exist, worker ids distinct; WF, WFC (for the component map the real precompute/initialize produced) and Feasible are DECIDED by the Lean drivers on every replayed input (wfCheck/wfcCheck/feasCheck with soundness lemmas, Lemmas/CtrlWFCheck.lean; an input outside them is reported as a harness failure), not assumed of the generator. Worker model: availab_ds/missing_ds/waiting_ts bookkeeping of entrypoint(), driven in-process with fake zmq/Memory; `required` is computed by the harness as the code does. Since the audit response: the (task, worker) pair is no longer only validated - theorems over the extended system (Model/Sched.lean) show that the modelled control flow of assign() yields admissible pairs only; SimBridge counts a started body as busy and starts one body per worker at a time; commands are compared with their publish sets. Executor layer (Model/ExecLayer.lean, Props/C02Exec.lean, tie harness/ekw/c02_exec.py: the real Executor, worker entrypoint and data-server handlers of one host driven in-process over fake sockets under generated schedules): fan-out of DatasetPublished/DatasetPurge, purge filter, CUDA_VISIBLE_DEVICES and 'announcement implies bytes are in shm' are modelled there; a handler of the executor and what a worker does between two pause points are atomic in that model (assumption), c02_exec_inputs_readable is conditional on the controller discipline C04 proves (not composed in Lean), reads inside execute_sequence and soundness of the purge filter are judged by the oracle only. Bridge.__init__ (Model/BridgeInit.lean): only the registration loop is modelled (sender.hosts keys, environment.workers); the 3-minute registration grace, the heartbeat table and cpu/memory_mb are checked by the harness oracle only (bridge-init-heartbeat-table, bridge-environment-cpu-or-memory).")
TECHNIQUE = "Lean 4 inductive system invariant over a small-step transition system (controller micro-steps x adversarial executors) + worker wait-loop invariant; step-by-step state correspondence with the real controller (SimBridge) and the real worker entrypoint"
LEAN_PROPS = ["EkwVerif.Props.C02"]
LEAN_DRIVERS = ["Ctrl"]
RULE = ctrl_check.RULE
ASSUMPTIONS = ctrl_check.ASSUMPTIONS


def correspond(ctx):
    ctrl_check.correspond(ctx, PROPERTY)


def replay(payload):
    return ctrl_check.replay(payload, PROPERTY)


def search(ctx, why):
    ctrl_check.search(ctx, why, PROPERTY)


# ----------------------------------------------------------------------------- worker side (runner/entrypoint.py wait loop)
LEAN_PROPS = ["EkwVerif.Props.C02", "EkwVerif.Props.C02Worker", "EkwVerif.Props.C02Exec", "EkwVerif.Props.C02Bridge"]
LEAN_DRIVERS = ["Ctrl", "C02W", "C02X"]


class _Done(Exception):
    pass


def _worker_job(rng):
    """small job: tasks t0..tn-1, each with 1-2 outputs and inputs from earlier tasks; returns (JobInstance, spec)"""
    from ekw import sim_ctrl as S
    spec = S.gen_job(rng, 7, allow_gpu=False)
    while len(spec["tasks"]) < 2:
        spec = S.gen_job(rng, 7, allow_gpu=False)
    return S.build_job(spec), spec


def _required(spec, ts):
    req = []
    for t in ts:
        for d in spec["tasks"][t]["params"]:
            if d not in req:
                req.append(d)
    own = [[t, k] for t in ts for k in range(spec["tasks"][t]["nOut"])]
    return [d for d in req if d not in own]


def _gen_worker_history(rng, spec):
    """Messages as one worker of a host sees them under controller traffic:
    ("task", [t...], pub, fails) | ("pub", [t,k]) | ("purge", [t,k]) | ("shutdown",).
    Task sequences of 1-4 tasks whose required datasets are announced before / after / around the command (the command
    overtakes notices), notices of unrelated datasets and repeated notices, purges of datasets no waiting sequence needs
    (and, rarely, of one it needs: the class excluded by c02_worker_avail_partial), a second command while one waits
    (rare: the controller never does it), WorkerShutdown at any point incl. while a sequence waits."""
    n = len(spec["tasks"])
    allds = [[t, k] for t in range(n) for k in range(spec["tasks"][t]["nOut"])]
    msgs = []
    wild = rng.random() < 0.2
    done = []
    for _ in range(rng.randint(1, 3)):
        first = rng.randrange(n)
        seq = [first]
        while len(seq) < 4 and rng.random() < 0.5:
            cand = [u for u in range(seq[-1] + 1, n) if u not in seq]
            if not cand:
                break
            seq.append(rng.choice(cand))
        req = _required(spec, seq)
        outs = [[t, k] for t in seq for k in range(spec["tasks"][t]["nOut"])]
        pub = sorted(d for d in outs if rng.random() < 0.7) or [outs[0]]
        fails = sorted(t for t in seq if rng.random() < 0.12)
        before, after = [], []
        for d in req:
            r = rng.random()
            (before if r < 0.45 else after).append(d)
        body = [("pub", d) for d in before]
        rng.shuffle(body)
        tail = [("pub", d) for d in after]
        rng.shuffle(tail)
        noise = []
        for _ in range(rng.randint(0, 4)):
            r = rng.random()
            free = [d for d in allds if d not in req]
            if wild and req and r < 0.3:
                noise.append(("purge", rng.choice(req)))                # an input of the waiting sequence is purged
            elif r < 0.5 and free:
                noise.append(("pub", rng.choice(free)))
            elif r < 0.8 and free:
                noise.append(("purge", rng.choice(free)))
            elif r < 0.9 and (before or after):
                noise.append(("pub", rng.choice(before + after)))       # a repeated notice
        block = body + [("task", seq, pub, fails)] + tail
        for x in noise:
            block.insert(rng.randrange(len(block) + 1), x)
        if wild and rng.random() < 0.3:
            block.insert(rng.randrange(len(block) + 1), ("task", [rng.randrange(n)], [], []))
        msgs += block
        # purges of what the finished sequence consumed (what the controller does after completion)
        for d in req:
            if rng.random() < 0.4:
                msgs.append(("purge", d))
        done.append(seq)
    if rng.random() < 0.3:
        msgs.insert(rng.randrange(len(msgs) + 1), ("shutdown",))
    return msgs[:40]


def run_worker_real(job, spec, msgs):
    """Drive the REAL entrypoint() loop with the REAL execute_sequence in-process (fake zmq, recording Memory, a `run`
    that records and raises for the tasks flagged as failing). Returns per message: what the loop did (canonical outcome,
    the memory.provide / memory.pop calls, the tasks run, a reported TaskFailure) and availab_ds / missing_ds / waiting_ts
    as they are when the loop asks for the next message."""
    import sys
    import types
    from ekw import sim_ctrl as S_
    import cascade.executor.runner.entrypoint as ep
    import cascade.executor.serde as serde
    from cascade.executor.msg import DatasetPublished, DatasetPurge, TaskFailure, TaskSequence, WorkerShutdown
    from cascade.low.core import WorkerId
    from cascade.low.views import param_source
    wid = WorkerId("h0", "w0")
    raw, failing = [], {}
    for i, m in enumerate(msgs):
        if m[0] == "task":
            raw.append(serde.ser_message(TaskSequence(worker=wid, tasks=[f"t{t}" for t in m[1]], publish={S_.dsid(d) for d in m[2]})))
        elif m[0] == "pub":
            raw.append(serde.ser_message(DatasetPublished(origin=wid, ds=S_.dsid(m[1]), transmit_idx=None)))
        elif m[0] == "purge":
            raw.append(serde.ser_message(DatasetPurge(ds=S_.dsid(m[1]))))
        else:
            raw.append(serde.ser_message(WorkerShutdown()))
    record = []
    cur_fail = [set()]
    sent = [0]

    class Sock:
        def bind(self, a):
            pass

        def recv(self):
            loc = sys._getframe(1).f_locals
            wt = loc.get("waiting_ts")
            record.append(("state", sorted(S_.un_ds(d) for d in loc.get("availab_ds", ())), sorted(S_.un_ds(d) for d in loc.get("missing_ds", ())),
                           None if wt is None else [int(t[1:]) for t in wt.tasks]))
            record.append(("recv",))
            if not raw:
                raise _Done()
            i = sent[0]
            sent[0] += 1
            cur_fail[0] = set(msgs[i][3]) if msgs[i][0] == "task" else cur_fail[0]
            return raw.pop(0)

    class Ctx:
        def socket(self, k):
            return Sock()

    class Mem:
        def __init__(self, cb, worker):
            pass

        def __enter__(self):
            return self

        def __exit__(self, *a):
            return False

        def provide(self, ds, ann):
            record.append(("provide", S_.un_ds(ds)))

        def pop(self, ds):
            record.append(("pop", S_.un_ds(ds)))

        def flush(self):
            record.append(("flush",))

    def fake_run(task_id, execution_context, memory):
        t = int(task_id[1:])
        record.append(("run", t, sorted(S_.un_ds(d) for d in execution_context.publish)))
        if t in failing_now():
            raise RuntimeError(f"task {task_id} fails")

    def failing_now():
        return cur_seq_fail[0]

    cur_seq_fail = [set()]
    real_exec = ep.execute_sequence

    def exec_wrapper(ts, memory, pckg, rc):
        tasks = [int(t[1:]) for t in ts.tasks]
        record.append(("exec", tasks))
        # which flags belong to this sequence: the task message with these tasks that was delivered last
        for m in reversed(msgs[:sent[0]]):
            if m[0] == "task" and m[1] == tasks:
                cur_seq_fail[0] = set(m[3])
                break
        return real_exec(ts, memory, pckg, rc)

    def cb(addr, msg):
        if isinstance(msg, TaskFailure):
            record.append(("taskfail", None if msg.task is None else int(msg.task[1:])))

    saved = (ep.zmq, ep.callback, ep.Memory, ep.execute_sequence, ep.logging_config, ep.run, ep.label)
    env = os.environ.get("CUDA_VISIBLE_DEVICES")
    import logging
    dis = logging.root.manager.disable
    logging.disable(logging.CRITICAL)
    ep.zmq = types.SimpleNamespace(Context=Ctx, PULL=0)
    ep.callback = cb
    ep.Memory = Mem
    ep.execute_sequence = exec_wrapper
    ep.run = fake_run
    ep.label = lambda *a, **k: None
    ep.logging_config = {"version": 1, "disable_existing_loggers": False}
    try:
        rc = ep.RunnerContext(workerId=wid, job=job, callback="cb", param_source=param_source(job.edges))
        try:
            ep.entrypoint(rc)
            record.append(("returned",))
        except _Done:
            pass
        except Exception as e:
            record.append(("raised", f"{type(e).__name__}: {e}"[:60]))
    finally:
        ep.zmq, ep.callback, ep.Memory, ep.execute_sequence, ep.logging_config, ep.run, ep.label = saved
        logging.disable(dis)
        if env is None:
            os.environ.pop("CUDA_VISIBLE_DEVICES", None)
        else:
            os.environ["CUDA_VISIBLE_DEVICES"] = env
    # segment per message: everything between the recv that delivered message i and the next recv (whose preceding
    # "state" record is the state after message i)
    segs, cur = [], None
    for r in record:
        if r[0] == "recv":
            if cur is not None:
                segs.append(cur)
            cur = []
        elif cur is not None:
            cur.append(r)
    if cur is not None and len(segs) < len(msgs):
        segs.append(cur)
    outs = []
    for seg in segs[:len(msgs)]:
        kinds = [r[0] for r in seg]
        st = [r for r in seg if r[0] == "state"]
        o = {"provides": sorted(r[1] for r in seg if r[0] == "provide"), "pops": [r[1] for r in seg if r[0] == "pop"],
             "ran": [r[1] for r in seg if r[0] == "run"], "taskfail": [r[1] for r in seg if r[0] == "taskfail"],
             "flushed": kinds.count("flush"),
             "state": None if not st else {"avail": st[-1][1], "missing": st[-1][2], "waiting": st[-1][3]}}
        if "raised" in kinds:
            o["out"] = "raised"
        elif "exec" in kinds:
            o["out"] = "executed"
            o["tasks"] = [r for r in seg if r[0] == "exec"][0][1]
        elif "returned" in kinds:
            o["out"] = "stop"
        elif "provide" in kinds:
            o["out"] = "provided"
        else:
            o["out"] = "nothing"
        outs.append(o)
    return outs


import os   # noqa: E402

# Props/C02Worker.lean `c02_worker_avail_full_fails`: a required dataset is purged while its sequence waits
_WITNESS_SPEC = {"tasks": [{"nOut": 1, "gpu": False, "params": []}, {"nOut": 1, "gpu": False, "params": []},
                           {"nOut": 1, "gpu": False, "params": [[0, 0], [1, 0]]}], "ext": []}
_WITNESS_MSGS = [("task", [2], [[2, 0]], []), ("pub", [0, 0]), ("purge", [0, 0]), ("pub", [1, 0])]


def _worker_oracle(ctx, spec, msgs, real):
    """From the property text (nothing of the model): a sequence is executed only after every dataset it requires was
    announced to this worker; and, when no required dataset of a waiting sequence is purged while it waits, every required
    dataset is announced-and-not-purged-since at that moment. Failure path: a failing task ends its sequence with ONE
    TaskFailure for that task, later tasks of the sequence do not run, and the loop goes on."""
    announced, live = [], []
    waiting = None
    clean = True
    for i, (m, o) in enumerate(zip(msgs, real)):
        if m[0] == "pub":
            if m[1] not in announced:
                announced.append(m[1])
            if m[1] not in live:
                live.append(m[1])
        elif m[0] == "purge":
            if waiting is not None and m[1] in _required(spec, waiting):
                clean = False
            if m[1] in live:
                live.remove(m[1])
        if o["out"] == "executed":
            req = _required(spec, o["tasks"])
            for d in req:
                if d not in announced:
                    ctx.violation({"kind": "worker-started-before-input-announced"}, {"spec": spec, "msgs": [list(x) for x in msgs[:i + 1]]},
                                  f"worker entered execute_sequence for tasks {o['tasks']} although dataset {d} was never announced to it")
                elif clean and d not in live:
                    ctx.violation({"kind": "worker-started-with-purged-input"}, {"spec": spec, "msgs": [list(x) for x in msgs[:i + 1]]},
                                  f"worker entered execute_sequence for tasks {o['tasks']} although dataset {d} had been purged after its notice "
                                  f"(and not while the sequence was waiting)")
            flags = []
            for mm in reversed(msgs[:i + 1]):
                if mm[0] == "task" and mm[1] == o["tasks"]:
                    flags = mm[3]
                    break
            exp_ran, exp_fail = [], []
            for t in o["tasks"]:
                exp_ran.append(t)
                if t in flags:
                    exp_fail = [t]
                    break
            if o["ran"] != exp_ran or o["taskfail"] != exp_fail or o["flushed"] != (0 if exp_fail else 1):
                ctx.violation({"kind": "worker-failure-path"}, {"spec": spec, "msgs": [list(x) for x in msgs[:i + 1]]},
                              f"sequence {o['tasks']} with failing tasks {flags}: ran {o['ran']}, TaskFailure for {o['taskfail']}, "
                              f"flush x{o['flushed']}; expected ran {exp_ran}, TaskFailure {exp_fail}")
            waiting = None
        elif m[0] == "task" and o["out"] in ("provided", "nothing") and waiting is None:
            waiting = m[1]
        if o["out"] in ("raised", "stop"):
            break
    return clean


def _model_lines(spec, msgs):
    import json
    ids = {}
    ml = [json.dumps({"op": "reset"})]
    for i, m in enumerate(msgs):
        if m[0] == "task":
            ids[i] = m[1]
            ml.append(json.dumps({"op": "task", "id": i, "req": _required(spec, m[1])}))
        elif m[0] == "pub":
            ml.append(json.dumps({"op": "pub", "ds": m[1]}))
        elif m[0] == "purge":
            ml.append(json.dumps({"op": "purge", "ds": m[1]}))
        else:
            ml.append(json.dumps({"op": "shutdown"}))
    return ml, ids


def correspond_worker(ctx):
    import json
    import random
    from ekw import sim_ctrl as S
    from ekw.core import lean_drive
    n = ctx.budget(220, 6000)
    lines, cases = [], []
    # the decided witness of c02_worker_avail_full_fails on the real entrypoint
    wjob = S.build_job(_WITNESS_SPEC)
    wreal = run_worker_real(wjob, _WITNESS_SPEC, _WITNESS_MSGS)
    ok = (len(wreal) == 4 and wreal[3]["out"] == "executed" and wreal[3]["tasks"] == [2] and wreal[3]["state"] is not None
          and [0, 0] not in wreal[3]["state"]["avail"] and wreal[2]["pops"] == [[0, 0]])
    ctx.count("worker:witness_purged_input_reproduced" if ok else "worker:witness_purged_input_NOT_reproduced")
    if not ok:
        ctx.disagree("worker-witness", {"spec": _WITNESS_SPEC, "msgs": [list(x) for x in _WITNESS_MSGS]},
                     "c02_worker_avail_full_fails: the sequence is executed with (0,0) purged (missing_ds is not updated by a purge)", wreal)
    ml, ids = _model_lines(_WITNESS_SPEC, _WITNESS_MSGS)
    lines += ml
    cases.append((_WITNESS_SPEC, _WITNESS_MSGS, wreal, ids))
    for _ in range(n):
        seed = ctx.rng.randrange(1 << 30)
        rng = random.Random(seed)
        job, spec = _worker_job(rng)
        msgs = _gen_worker_history(rng, spec)
        try:
            real = run_worker_real(job, spec, msgs)
        except Exception as e:   # harness-level trouble with the real entrypoint is a disagreement, not a crash
            ctx.disagree("worker-entrypoint-drive", {"spec": spec, "msgs": [list(x) for x in msgs]}, "drivable", f"{type(e).__name__}: {e}")
            continue
        ml, ids = _model_lines(spec, msgs)
        lines += ml
        cases.append((spec, msgs, real, ids))
        waits = any(o["out"] == "provided" or (o["state"] and o["state"]["waiting"] is not None) for o in real)
        ctx.case({"worker_history": [list(x) for x in msgs], "tasks": len(spec["tasks"])}, nontrivial=waits)
        ctx.count("worker_histories")
        for m, o in zip(msgs, real):
            ctx.count("worker_out:" + o["out"])
            if o["out"] == "executed":
                ctx.count("worker:seq_len:%d" % len(o["tasks"]))
                ctx.count("worker:exec_" + ("with_failure" if o["taskfail"] else "ok"))
            if o["out"] == "stop":
                ctx.count("worker:shutdown_" + ("while_waiting" if any(x["state"] and x["state"]["waiting"] for x in real[max(0, real.index(o) - 1):real.index(o)]) else "idle"))
            if o["pops"]:
                ctx.count("worker:pop_calls")
        clean = _worker_oracle(ctx, spec, msgs, real)
        ctx.count("worker:history_" + ("no_purge_while_waiting" if clean else "purges_a_waited_input"))
    out = lean_drive("C02W", lines)
    k = 0
    for spec, msgs, real, ids in cases:
        k += 1   # reset line
        mo = [json.loads(x) for x in out[k:k + len(msgs)]]
        k += len(msgs)
        ctx.traces += 1
        for i, (m, r) in enumerate(zip(msgs, real)):
            o = mo[i]
            if o.get("out") == "dead":
                break
            st = {"avail": sorted(o["avail"]), "missing": sorted(o["missing"]), "waiting": ids.get(o["waiting"]) if o["waiting"] is not None else None}
            o = o["o"]
            want = {"out": o["out"]}
            if o["out"] == "executed":
                want["tasks"] = ids.get(o["id"])
                want["provides"] = [m[1]] if m[0] == "pub" else []
            elif o["out"] == "provided":
                want["provides"] = sorted(o["ds"])
                if not o["ds"]:
                    want["out"] = "nothing"
            else:
                want["provides"] = []
            want["pops"] = [m[1]] if m[0] == "purge" and o["out"] == "nothing" else []
            got = {"out": r["out"], "provides": r["provides"], "pops": r["pops"]}
            if r["out"] == "executed":
                got["tasks"] = r["tasks"]
            if r["out"] not in ("raised", "stop"):
                want["state"] = st
                got["state"] = r["state"]
            if want != got:
                ctx.disagree("worker-wait-loop", {"spec": spec, "msgs": [list(x) for x in msgs[:i + 1]]}, want, got)
                break
            if r["out"] in ("raised", "stop"):
                break


_ctrl_correspond = correspond


def correspond(ctx):   # noqa: F811
    from ekw import c02_exec
    _ctrl_correspond(ctx)
    correspond_worker(ctx)
    c02_exec.correspond(ctx)          # executor layer (clause (g)) and its GPU facts


_ctrl_replay = replay


def replay(payload):   # noqa: F811
    case = payload.get("case") or {}
    if isinstance(case, dict) and ("exec_layer" in case or "gpu_host" in case):
        from ekw import c02_exec
        return c02_exec.replay(payload)
    if isinstance(case, dict) and "msgs" in case:
        import json
        from ekw import sim_ctrl as S
        msgs = [tuple(x) for x in case["msgs"]]
        real = run_worker_real(S.build_job(case["spec"]), case["spec"], msgs)
        for m, o in zip(msgs, real):
            print(json.dumps(list(m)), "->", json.dumps(o))

        class _C:
            def __init__(self):
                self.v = []

            def violation(self, sig, c, what):
                self.v.append((sig, what))
        c = _C()
        _worker_oracle(c, case["spec"], msgs, real)
        for sig, what in c.v:
            print("FINDING", sig, what)
        return 1 if c.v else 0
    return _ctrl_replay(payload)
