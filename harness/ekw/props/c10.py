"""C10 — lowering a graph to a job and running a task preserves what each node computes.

Tie: the real fluent.Node constructor, the real graph2job and the real runner (entrypoint.execute_sequence ->
runner.run -> memory.Memory, is_last_output_of) against Model/Lower.lean + Model/Runner.lean, node by node and
task by task.
Oracle: written from the property text only (one task per node, one edge per argument that names an upstream
output, received arguments = declared arguments with upstream values substituted, k-th yielded value stored under
the k-th DECLARED output / coordinate, count mismatch => task failure, completion notice = last publication).
"""
import glob
import json

from ekw import c10_real as R

PROPERTY = "C10"
LEVEL_TEXT = ("Lean theorems over Model/Lower.lean (fluent Node constructor, node2task, graph2job, param_source) and Model/Runner.lean "
              "(argument assembly, output binding with strict-zip semantics, Memory.handle/provide, is_last_output_of): for every serialised "
              "graph one task per node and one positional edge per argument naming an input; the callable receives exactly the declared args with "
              "every input placeholder replaced by the upstream value and the declared kwargs; the k-th yielded value is stored under the k-th "
              "declared output for every number N >= 2 of outputs (also the fluent names '0'..'N-1', N > 10); a yield-count mismatch is an error; "
              "the output whose publication the controller takes as completion is the last one published. Unbounded in arity, number of nodes "
              "and number of outputs; tied to the real code by a node-by-node / task-by-task correspondence check.")
LEVEL_NOTE = ("modelled, not verified: low/into.py node2task+graph2job, low/views.py param_source, runner/runner.py run, runner/memory.py "
              "handle/provide, controller/notify.py is_last_output_of, fluent.Node.__init__ (argument completion and output naming); shared memory "
              "and the zmq callback are replaced by in-process fakes; cloudpickle/pydantic are exercised but trusted. Known finding: a generator "
              "declared with ONE output is stored as the generator object (c10_yield_binding_partial needs N >= 2)")
TECHNIQUE = "Lean 4 proof (induction over argument lists / output lists) + differential correspondence with the real graph2job and runner"
LEAN_PROPS = ["EkwVerif.Props.C10"]
LEAN_DRIVERS = ["C10"]
RULE = ("random graphs of 1-7 nodes built by hand (graph.Node), through fluent.Node (30% of the later nodes are built from the very "
        "Payload object of an earlier node, with another - often smaller - number of inputs), through a fluent program "
        "(from_source(yields=...).map; or 1-2 dimensional sources followed by 1-4 map / reduce steps that share 1-3 payloads given as "
        "Payload object, plain callable or functools.partial, with explicit placeholders; every run contains the batched reductions "
        "with EVERY batch size 2..size+1 over EVERY size 2..9, i.e. multiples, remainders and singleton batches; the callables of these "
        "programs return a value naming everything they received, so a stray or missing argument shows in every descendant) "
        "or directly as JobInstance: arity 0-6 with upstream/static positions mixed, 0-3 kwargs, input names inputN or arbitrary, the same "
        "parent output used by several inputs / several nodes / nobody, duplicated and missing placeholders, 1-14 outputs with numeric, "
        "unsorted or multi-letter names, generators yielding N-2..N+2 values, list/scalar/raising callables, keyword and positional edges "
        "with gaps, unpublished outputs. non-trivial = case with >= 1 upstream argument or >= 1 multi-output task; distinct by content hash")
ASSUMPTIONS = [
    "shared memory (cascade.shm.client) and the zmq callback are replaced by in-process fakes; serde is the real one (cloudpickle)",
    "each task is run as its own TaskSequence in topological order; values travel through the fake shared memory",
    "static arguments are str/int/None; upstream values are opaque tokens",
    "dict keys of node inputs, kwargs and output_schema are distinct (Python dicts); static_input_ps keys are decimal naturals",
    "edges name existing outputs of existing tasks (RunnerContext.project would raise KeyError otherwise; not modelled)",
    "fluent programs (kind fprog): what a node declares is read off the graph the fluent calls produced (its inputs) and the payload "
    "the author wrote (its arguments, completed by the inputs not placed explicitly); an 'inputK' string with K >= number of inputs of "
    "the node is a string the author wrote, any other 'inputK' must arrive as the upstream value",
]


# ----------------------------------------------------------------------------- generator

STATIC_STR = ["x", "mean", "input7", "0", "10", "b"]
PNAMES = ["a", "b", "c", "src", "left", "right", "q"]
KWKEYS = ["k0", "k1", "alpha", "axis"]


def _static(rng):
    r = rng.random()
    if r < 0.45:
        return {"i": rng.randint(-3, 40)}
    if r < 0.85:
        return {"s": rng.choice(STATIC_STR)}
    return None


def _outs(rng, hand):
    """declared outputs (list of names); hand-built nodes may use any names in any order"""
    r = rng.random()
    if r < 0.5:
        n = 1
    elif r < 0.8:
        n = rng.randint(2, 9)
    else:
        n = rng.randint(10, 14)
    if not hand:
        return [str(i) for i in range(n)]
    style = rng.random()
    if style < 0.55:
        return [str(i) for i in range(n)]
    if style < 0.8:
        names = ["a", "b", "c", "d", "e", "f", "g", "h", "i", "j", "k", "l", "m", "n", "o", "p"][:n]
        rng.shuffle(names)
        return names
    names = ["out%d" % i for i in range(n)]
    if rng.random() < 0.5:
        rng.shuffle(names)
    return names


def _beh(rng, n):
    r = rng.random()
    if n == 1:
        if r < 0.82:
            return {"kind": "ret", "m": 1}
        if r < 0.88:
            return {"kind": "raise", "m": 0}
        return {"kind": "gen", "m": rng.choice([1, 1, 1, 0, 2])}
    if r < 0.62:
        return {"kind": "gen", "m": n}
    if r < 0.88:
        return {"kind": "gen", "m": max(0, n + rng.choice([-2, -1, -1, 1, 1, 2]))}
    if r < 0.93:
        return {"kind": "list", "m": n + rng.choice([0, 0, -1, 1])}
    if r < 0.97:
        return {"kind": "ret", "m": 1}
    return {"kind": "raise", "m": 0}


def _pick_inputs(rng, prev_outs, k):
    """k references (parent index, output name); favours re-using one parent (several edges from the same parent)"""
    refs = []
    cand = [i for i, o in enumerate(prev_outs) if o]
    if not cand:
        return refs
    fav = rng.choice(cand)
    for _ in range(k):
        pi = fav if rng.random() < 0.5 else rng.choice(cand)
        refs.append((pi, rng.choice(prev_outs[pi])))
    return refs


def gen_hand(rng):
    n = rng.randint(1, 7)
    nodes, prev = [], []
    for i in range(n):
        outs = _outs(rng, True)
        arity = rng.randint(0, 6)
        k = rng.randint(0, arity) if prev else 0
        refs = _pick_inputs(rng, prev, k)
        arity = max(arity, len(refs))
        style = rng.random()
        if style < 0.5:
            pn = ["input%d" % j for j in range(len(refs))]
        else:
            pn = rng.sample(PNAMES, len(refs))
        slots = [None] * arity
        pos = rng.sample(range(arity), len(refs))
        for j, p in enumerate(pos):
            slots[p] = {"s": pn[j]}
        args = [s if s is not None else _static(rng) for s in slots]
        r = rng.random()
        if refs and r < 0.12:                     # the same placeholder twice
            args.insert(rng.randint(0, len(args)), {"s": rng.choice(pn)})
        elif refs and r < 0.16:                   # an input nobody mentions: lowering raises KeyError
            victim = rng.choice(pn)
            args = [a for a in args if a != {"s": victim}]
        kwargs = [[kk, _static(rng)] for kk in rng.sample(KWKEYS, rng.choice([0, 0, 1, 2, 3]))]
        inputs = []
        for (pi, o), p in zip(refs, pn):
            inputs.append([p, pi, None if (o == "0" and rng.random() < 0.7) else o])
        outputs = outs
        if outs == ["0"] and rng.random() < 0.5:
            outputs = None if rng.random() < 0.7 else []
        nodes.append({"name": "n%d" % i, "payload": "tuple" if rng.random() < 0.985 else "other", "args": args, "kwargs": kwargs,
                      "inputs": inputs, "outputs": outputs, "beh": _beh(rng, len(outs))})
        prev.append([] if outputs == [] else outs)
    return {"kind": "hand", "nodes": nodes}


def gen_fluent(rng):
    n = rng.randint(1, 7)
    nodes, prev = [], []
    for i in range(n):
        outs = _outs(rng, False)
        k = rng.randint(0, 4) if prev else 0
        refs = _pick_inputs(rng, prev, k)
        nstat = rng.randint(0, 3)
        args = [_static(rng) for _ in range(nstat)]
        # the author may place some placeholders explicitly; the constructor appends the others
        for j in range(len(refs)):
            if rng.random() < 0.45:
                args.insert(rng.randint(0, len(args)), {"s": "input%d" % j})
        if refs and rng.random() < 0.1:
            args.insert(rng.randint(0, len(args)), {"s": "input%d" % rng.randrange(len(refs))})
        kwargs = [[kk, _static(rng)] for kk in rng.sample(KWKEYS, rng.choice([0, 0, 1, 2, 3]))]
        inputs = [[pi, None if (o == "0" and len(prev[pi]) == 1 and rng.random() < 0.7) else o] for pi, o in refs]
        nd = {"name": "n%d" % i, "args": args, "kwargs": kwargs, "inputs": inputs, "num_outputs": len(outs),
              "single": rng.random() < 0.5, "beh": _beh(rng, len(outs))}
        if nodes and rng.random() < 0.3:
            # the SAME Payload object as an earlier node (its args/kwargs/callable), with this node's own inputs:
            # usually another number of inputs, often fewer
            j = rng.randrange(len(nodes))
            nj = len(nodes[j]["inputs"])
            if nj >= 1 and rng.random() < 0.6:
                nd["inputs"] = inputs[:rng.randint(0, nj - 1)]
            nd.update(reuse=j, args=nodes[j]["args"], kwargs=nodes[j]["kwargs"], beh=nodes[j]["beh"], num_outputs=nodes[j]["num_outputs"])
            if "reuse" in nodes[j]:
                nd["reuse"] = nodes[j]["reuse"]
            outs = [str(x) for x in range(nd["num_outputs"])]
        nodes.append(nd)
        prev.append(outs)
    return {"kind": "fluent", "nodes": nodes}


def _payload(rng, arity_hint):
    """a payload the author wrote: some static arguments, some placeholders placed explicitly (possibly naming an input
    only the larger nodes have), kwargs; as Payload object, plain callable or functools.partial"""
    wrap = rng.choice(["payload", "payload", "payload", "callable", "partial"])
    if wrap == "callable":
        return {"wrap": wrap, "args": [], "kwargs": []}
    args = [_static(rng) for _ in range(rng.choice([0, 0, 0, 1, 2]))]
    if rng.random() < 0.35:
        for j in rng.sample(range(arity_hint), rng.randint(1, min(2, arity_hint))):
            args.insert(rng.randint(0, len(args)), {"s": "input%d" % j})
    kwargs = [[kk, _static(rng)] for kk in rng.sample(KWKEYS, rng.choice([0, 0, 0, 1, 2]))]
    return {"wrap": wrap, "args": args, "kwargs": kwargs}


def gen_fprog(rng, size=None, batch=None):
    """fluent program: sources -> map / reduce steps; Payload objects shared between steps of different arity.
    size, batch given: a one-dimensional batched reduction of exactly that shape is among the steps."""
    if size is not None:
        dims = [size] if rng.random() < 0.75 else [size, rng.randint(2, 3)]
    elif rng.random() < 0.6:
        dims = [rng.randint(2, 9)]
    else:
        dims = [rng.randint(2, 5), rng.randint(2, 4)]
    npay = rng.choice([1, 1, 2, 2, 3])
    payloads = [_payload(rng, max(dims)) for _ in range(npay)]
    steps, left = [], {d: n for d, n in zip(["x", "y"], dims)}
    if size is not None:
        if rng.random() < 0.3:
            steps.append({"op": "map", "p": rng.randrange(npay)})
        steps.append({"op": "reduce", "p": rng.randrange(npay), "dim": "x", "batch": batch})
        del left["x"]
    for _ in range(rng.randint(0 if size is not None else 1, 3)):
        if left and rng.random() < 0.65:
            d = rng.choice(sorted(left))
            n = left.pop(d)
            b = rng.choice([0, 0, 1] + list(range(2, n + 2)) * 2)
            steps.append({"op": "reduce", "p": rng.randrange(npay), "dim": d, "batch": b})
        else:
            steps.append({"op": "map", "p": rng.randrange(npay)})
    return {"kind": "fprog", "dims": dims, "payloads": payloads, "steps": steps}


def fprog_sweep(rng):
    """batched reductions with every batch size 2..size+1 over every size 2..9 (multiples and non-multiples)"""
    out = []
    for size in range(2, 10):
        for b in range(2, size + 2):
            c = gen_fprog(rng, size, b)
            c["mode"] = "fresh" if rng.random() < 0.5 else "shared"
            c["nopub"] = []
            out.append(c)
    return out


def gen_prog(rng):
    n = rng.choice([1, 2, 3, 5, 9, 10, 11, 12, 13, 14])
    coords = rng.sample(range(0, 60), n)
    if rng.random() < 0.4:
        coords.sort()
    s = rng.randint(1, 2)
    ms = [n if rng.random() < 0.7 else max(0, n + rng.choice([-2, -1, 1, 2])) for _ in range(s)]
    return {"kind": "prog", "srcs": s, "coords": coords, "m": ms}


def gen_job(rng):
    n = rng.randint(1, 6)
    tasks, edges, prev = [], [], []
    for i in range(n):
        outs = _outs(rng, True)
        idxs = rng.sample(range(0, 7), rng.randint(0, 4))
        ps = [[j, _static(rng)] for j in idxs]
        kw = [[kk, _static(rng)] for kk in rng.sample(KWKEYS, rng.choice([0, 1, 2]))]
        if prev:
            for pi, o in _pick_inputs(rng, prev, rng.randint(0, 4)):
                r = rng.random()
                if r < 0.5:
                    free = [j for j in range(0, 8) if j not in idxs] or [7]
                    pos = rng.choice(free) if rng.random() < 0.85 else rng.choice(range(0, 8))
                    edges.append([pi, o, i, pos, None])
                    idxs = idxs + [pos] if rng.random() < 0.9 else idxs
                else:
                    edges.append([pi, o, i, None, rng.choice(KWKEYS + ["z"])])
        tasks.append({"name": "t%d" % i, "ps": ps, "kw": kw, "outs": outs, "beh": _beh(rng, len(outs))})
        prev.append(outs)
    return {"kind": "job", "tasks": tasks, "edges": edges}


def gen_case(rng):
    r = rng.random()
    if r < 0.34:
        c = gen_hand(rng)
    elif r < 0.64:
        c = gen_fluent(rng)
    elif r < 0.74:
        c = gen_prog(rng)
    elif r < 0.82:
        c = gen_fprog(rng)
    else:
        c = gen_job(rng)
    c["mode"] = "fresh" if rng.random() < 0.5 else "shared"
    c["nopub"] = []
    if rng.random() < 0.08:
        c["nopub_seed"] = rng.randint(0, 10 ** 6)
    return c


# ----------------------------------------------------------------------------- run on the real code

def run_real(case):
    """-> dict(built, lower (canonical job | {"error"}), runs: name -> result, fluent: [...])"""
    import random
    built = R.build(case)
    out = {"built": built, "runs": {}, "lower": None, "is_last": {}}
    if built["job"] is None:
        out["lower"] = {"error": built["lower_error"]}
        return out
    job = built["job"]
    try:
        out["lower"] = R.canon_job(job)
    except Exception as e:
        out["lower"] = {"error": "other:" + type(e).__name__}
        return out
    spec = built["spec"]
    prng = random.Random(case["nopub_seed"]) if "nopub_seed" in case else None
    runner = R.Runner(job, case.get("mode", "fresh"))
    try:
        for tid in built["order"]:
            if tid not in job.tasks:
                continue
            outs = list(job.tasks[tid].definition.output_schema.keys())
            publish = [o for o in outs if not (prng is not None and prng.random() < 0.3)]
            avail = runner.available()
            key = spec[tid]["key"] if tid in spec else tid
            res = runner.run_task(tid, key, publish)
            res["avail"] = avail
            res["publish"] = publish
            res["stored"] = {}
            for o in outs:
                v = runner.stored(tid, o)
                if v is not R._MISSING:
                    res["stored"][o] = R.enc(v)
            out["runs"][tid] = res
            out["is_last"][tid] = [[o, R.is_last_real(job, tid, o)] for o in outs]
    finally:
        runner.close()
    return out


# ----------------------------------------------------------------------------- oracle (from the property text)

def _status(spec, order, runs):
    st = {}
    for name in order:
        sp = spec[name]
        beh, n = sp["beh"], len(sp["outs"])
        ups = [a for a in list(sp["args"]) + list(sp["kwargs"].values()) if a[0] == "up"]
        unpublished = any(a[1] in runs and spec[a[1]]["outs"][_out_index(spec, a[1], a[2])] not in runs[a[1]]["publish"] for a in ups)
        if not sp["wellformed"] or unpublished or any(st.get(p) != "ok" for p in sp["parents"]):
            st[name] = "skip"     # ill-formed, or the harness withheld an input: the property has no opinion
        elif beh["kind"] == "raise":
            st[name] = "fail"
        elif beh["kind"] == "gen":
            st[name] = "ok" if beh["m"] == n else "fail"
        elif beh["kind"] == "ret":
            st[name] = "ok" if n == 1 else "fail"     # one value for N >= 2 declared outputs: count mismatch
        else:
            st[name] = "skip"                        # list results: the property speaks about generators
    return st


def _out_index(spec, parent, out):
    outs = spec[parent]["outs"]
    if out.startswith("@"):
        return int(out[1:])
    return outs.index(out)


def _expected(spec, ref):
    if ref[0] == "static":
        return R.enc(ref[1])
    _, parent, out = ref
    if "vals" in spec[parent]:
        return R.enc(spec[parent]["vals"][_out_index(spec, parent, out)])
    return R.enc(R.tok(spec[parent]["key"], _out_index(spec, parent, out)))


def oracle(case, real):
    """-> list of (signature, what). Independent of the model."""
    built = real["built"]
    spec, order = built["spec"], built["order"]
    fails = []
    lowering = case["kind"] != "job"
    wf = all(sp["wellformed"] for sp in spec.values())
    if case["kind"] == "fprog" and (built["lower_error"] or "").startswith("program:"):
        return [({"kind": "program-not-built"}, "the fluent calls of the program raised %s" % built["lower_error"][8:])]
    if lowering and wf:
        if built["job"] is None:
            return [({"kind": "lowering-failed"}, "graph2job raised %s on a well-formed graph" % built["lower_error"])]
        low = real["lower"]
        if "error" in low:
            return [({"kind": "lowering-failed"}, "lowered job unusable: %s" % low["error"])]
        got_tasks = sorted(t["name"] for t in low["tasks"])
        if got_tasks != sorted(spec.keys()):
            fails.append(({"kind": "lowering-tasks"}, "tasks %s for nodes %s" % (got_tasks, sorted(spec.keys()))))
        want_edges = []
        for name, sp in spec.items():
            for i, a in enumerate(sp["args"]):
                if a[0] == "up":
                    want_edges.append([a[1], spec[a[1]]["outs"][_out_index(spec, a[1], a[2])], name, i, None])
        if sorted(map(json.dumps, want_edges)) != sorted(map(json.dumps, low["edges"])):
            fails.append(({"kind": "lowering-edges"}, "edges %s, declared inputs need %s" % (low["edges"], want_edges)))
    if built["job"] is None or "error" in (real["lower"] or {}):
        return fails
    st = _status(spec, order, real["runs"])
    bad = set()      # tasks that already violated: what their consumers see is a consequence, report the root only
    for name in order:
        run = real["runs"].get(name)
        sp = spec[name]
        if any(p in bad for p in sp["parents"]):
            bad.add(name)
            continue
        if run is None or st[name] == "skip":
            continue
        mine = _check_task(name, sp, run, st[name], spec)
        if mine:
            bad.add(name)
            fails += mine
    if not fails:
        fails += _check_finals(built, real, st)
    return fails


def _check_finals(built, real, st):
    """fluent program, seen by its author: the value of every final node is made of every source of its coordinates,
    each exactly once, and of nothing that looks like a placeholder the author did not write"""
    import re
    fails = []
    for name, want in built.get("finals") or []:
        run = real["runs"].get(name)
        if run is None or st.get(name) != "ok" or "0" not in run["stored"]:
            continue
        got = run["stored"]["0"].get("t", "")
        srcs = sorted(re.findall(r"s[0-9_]+#0", got))
        if srcs != want:
            fails.append(({"kind": "program-value"}, "final node %s holds %s: sources %s, the program reduces %s" % (name, got, srcs, want)))
    return fails


def _check_task(name, sp, run, status, spec):
    fails = []
    n = len(sp["outs"])
    gen1 = sp["beh"]["kind"] == "gen" and n == 1
    if status == "fail":
        if run["error"] is None:
            kind = "count-mismatch-not-reported" if sp["beh"]["kind"] in ("gen", "ret") else "failure-not-reported"
            sig = {"kind": kind}
            if kind == "count-mismatch-not-reported":
                sig["class"] = "single-output-generator" if gen1 else ("fewer" if sp["beh"]["m"] < n else "more")
            fails.append((sig, "task %s declared %d outputs %s, callable %s: no task failure reported (stored %s)"
                          % (name, n, sp["outs"], sp["beh"], run["stored"])))
        return fails
    # status ok: declaration and behaviour agree, every input was made available
    want_args = [_expected(spec, a) for a in sp["args"]]
    want_kwargs = sorted([k, _expected(spec, v)] for k, v in sp["kwargs"].items())
    rec = run["received"]
    if rec is None or rec["calls"] != 1:
        fails.append(({"kind": "not-invoked-once"}, "task %s: callable invoked %s times, error %s" % (name, rec and rec["calls"], run["error"])))
    elif rec["args"] != want_args or rec["kwargs"] != want_kwargs:
        fails.append(({"kind": "args-binding"}, "task %s received args %s kwargs %s; declared arguments with upstream values substituted are %s %s"
                      % (name, rec["args"], rec["kwargs"], want_args, want_kwargs)))
    if run["error"] is not None:
        if gen1:
            fails.append(({"kind": "yield-binding", "class": "single-output-generator"},
                          "task %s: generator declared with ONE output %s yielded one value; instead of storing it the task failed with %s"
                          % (name, sp["outs"], run["error"])))
        else:
            fails.append(({"kind": "unexpected-failure"}, "task %s failed with %s; declaration and yield count agree" % (name, run["error"])))
        return fails
    if "vals" in sp:
        if fails:
            return fails     # the value of such a callable names what it received: already reported
        want = {sp["outs"][k]: R.enc(sp["vals"][k]) for k in range(n)}
    elif sp["beh"]["kind"] == "gen":
        want = {sp["outs"][k]: R.enc(R.tok(sp["key"], k)) for k in range(n)}
    else:
        want = {sp["outs"][0]: R.enc(R.tok(sp["key"], 0))}
    want = {o: v for o, v in want.items() if o in run["publish"]}
    if run["stored"] != want:
        sig = {"kind": "yield-binding", "class": "single-output-generator" if gen1 else ("single" if n == 1 else "multi")}
        fails.append((sig, "task %s: declared outputs %s; stored %s; k-th yielded value under k-th declared output would be %s"
                      % (name, sp["outs"], run["stored"], want)))
    if set(run["publish"]) == set(sp["outs"]):
        comp = run["completion"]
        if comp.count(True) != 1 or comp[-1] is not True or len(run["events"]) != n:
            fails.append(({"kind": "completion-not-last"}, "task %s: publications %s, completion rule fires at %s"
                          % (name, [e[1] for e in run["events"]], comp)))
    return fails


# ----------------------------------------------------------------------------- model side

def model_lines(case, real):
    """JSON lines for the Lean driver and the matching expected (real) outputs."""
    lines, expect, where = [], [], []
    built = real["built"]
    for fn in built["fluent_nodes"]:
        lines.append({"op": "fluent_node", "args": fn["args"], "n_inputs": fn["n_inputs"], "num_outputs": fn["num_outputs"]})
        ser = next(s for s in built["ser"] if s["name"] == fn["name"])
        expect.append({"args": ser["payload"]["args"], "outputs": ser["outputs"], "inputs": [i[0] for i in ser["inputs"]]})
        where.append("fluent-node-constructor")
    if built["ser"] is not None:
        lines.append({"op": "lower", "nodes": built["ser"]})
        expect.append(real["lower"])
        where.append("graph2job")
    low = real["lower"]
    if low is None or "error" in low:
        return lines, expect, where
    spec = built["spec"]
    for t in low["tasks"]:
        run = real["runs"].get(t["name"])
        if run is None:
            continue
        sp = spec[t["name"]]
        lines.append({"op": "run", "tid": t["name"], "ps": t["ps"], "kw": t["kw"], "outs": t["out_schema"], "edges": low["edges"],
                      "mem": run["avail"], "publish": run["publish"], "result": R.result_json(sp["key"], sp["beh"], sp.get("vals"))})
        rec = run["received"]
        expect.append({"received": None if rec is None else {"args": rec["args"], "kwargs": rec["kwargs"]},
                       "handled": run["handled"], "error": run["error"], "completion": run["completion"]})
        where.append("runner.run")
        lines.append({"op": "is_last", "outs": t["out_schema"]})
        expect.append({"is_last": real["is_last"][t["name"]]})
        where.append("is_last_output_of")
    return lines, expect, where


def _canon_model(o):
    if isinstance(o, dict) and isinstance(o.get("received"), dict):
        o = dict(o)
        o["received"] = {"args": o["received"]["args"], "kwargs": sorted(o["received"]["kwargs"])}
    return o


# ----------------------------------------------------------------------------- shrinking

def _restrict(case, keep):
    """sub-case with only the nodes/tasks at indices `keep` (closed under parents)"""
    keep = sorted(keep)
    idx = {old: new for new, old in enumerate(keep)}
    c = dict(case)
    if case["kind"] == "job":
        c["tasks"] = [case["tasks"][i] for i in keep]
        c["edges"] = [[idx[s], o, idx[d], ps, kw] for s, o, d, ps, kw in case["edges"] if s in idx and d in idx]
    elif case["kind"] == "hand":
        c["nodes"] = [dict(case["nodes"][i], inputs=[[p, idx[pi], o] for p, pi, o in case["nodes"][i]["inputs"]]) for i in keep]
    elif case["kind"] == "fluent":
        c["nodes"] = []
        for i in keep:
            nd = dict(case["nodes"][i], inputs=[[idx[pi], o] for pi, o in case["nodes"][i]["inputs"]])
            if nd.get("reuse") is not None:
                nd["reuse"] = idx[nd["reuse"]]
            c["nodes"].append(nd)
    return c


def _parents(case, i):
    if case["kind"] == "job":
        return {s for s, o, d, ps, kw in case["edges"] if d == i}
    if case["kind"] == "hand":
        return {pi for p, pi, o in case["nodes"][i]["inputs"]}
    if case["kind"] == "fluent":
        nd = case["nodes"][i]
        return {pi for pi, o in nd["inputs"]} | ({nd["reuse"]} if nd.get("reuse") is not None else set())
    return set()


def _fprog_smaller(case):
    """candidate simplifications of a fluent program (all stay inside the generator's language)"""
    steps = case["steps"]
    for i in range(len(steps)):
        if len(steps) > 1:
            yield dict(case, steps=steps[:i] + steps[i + 1:])
    used = {st.get("dim") for st in steps}
    if len(case["dims"]) == 2 and "y" not in used:
        yield dict(case, dims=case["dims"][:1])
    for di, n in enumerate(case["dims"]):
        d = "xy"[di]
        if n > 1:
            c = dict(case, dims=[m - 1 if k == di else m for k, m in enumerate(case["dims"])])
            # an explicit placeholder must keep naming an input of the largest node
            yield c
    for i, st in enumerate(steps):
        if st["op"] == "reduce" and st["batch"] not in (0, 2):
            for b in (0, 2, st["batch"] - 1):
                if b != st["batch"] and b >= 0 and b != 1:
                    yield dict(case, steps=steps[:i] + [dict(st, batch=b)] + steps[i + 1:])
    for i, pl in enumerate(case["payloads"]):
        if pl["args"] or pl["kwargs"]:
            yield dict(case, payloads=case["payloads"][:i] + [dict(pl, args=[], kwargs=[])] + case["payloads"][i + 1:])
        if pl["wrap"] != "payload":
            yield dict(case, payloads=case["payloads"][:i] + [dict(pl, wrap="payload")] + case["payloads"][i + 1:])


def _isolate(case, i):
    """node i alone, its inputs (and the arguments naming them) removed"""
    c = {k: v for k, v in case.items() if k != "nopub_seed"}
    if case["kind"] == "job":
        c["tasks"], c["edges"] = [case["tasks"][i]], []
    elif case["kind"] == "hand":
        nd = case["nodes"][i]
        names = [p for p, pi, o in nd["inputs"]]
        c["nodes"] = [dict(nd, inputs=[], args=[a for a in nd["args"] if not (isinstance(a, dict) and a.get("s") in names)])]
    else:
        nd = case["nodes"][i]
        names = ["input%d" % j for j in range(len(nd["inputs"]))]
        c["nodes"] = [dict(nd, inputs=[], args=[a for a in nd["args"] if not (isinstance(a, dict) and a.get("s") in names)])]
        c["nodes"][0].pop("reuse", None)
    return c


def shrink(case, sig):
    """keep one node and its ancestors, if the same kind of failure remains"""
    if case["kind"] == "prog":
        best = case
        for n in range(1, len(case["coords"])):
            c = dict(case, coords=case["coords"][:n], m=[max(0, m - (len(case["coords"]) - n)) for m in case["m"]], srcs=1)
            c["m"] = c["m"][:1]
            if _fails_with(c, sig):
                return c
        return best
    if case["kind"] == "fprog":
        cur, budget, progress = {k: v for k, v in case.items() if k != "nopub_seed"}, 60, True
        if not _fails_with(cur, sig):
            cur = case
        while progress and budget > 0:
            progress = False
            for c in _fprog_smaller(cur):
                budget -= 1
                if budget <= 0:
                    break
                if _fails_with(c, sig):
                    cur, progress = c, True
                    break
        return cur
    items = case["tasks"] if case["kind"] == "job" else case["nodes"]
    for i in range(len(items)):
        c = _isolate(case, i)
        if _fails_with(c, sig):
            return c
    best = case
    for i in range(len(items)):
        keep, todo = set(), [i]
        while todo:
            x = todo.pop()
            if x not in keep:
                keep.add(x)
                todo.extend(_parents(case, x))
        if len(keep) >= len(best["tasks"] if best["kind"] == "job" else best["nodes"]):
            continue
        c = _restrict(case, keep)
        if _fails_with(c, sig):
            best = c
    return best


def _fails_with(case, sig):
    try:
        return any(s == sig for s, _ in oracle(case, run_real(case)))
    except Exception:
        return False


# ----------------------------------------------------------------------------- check entry points

def _nontrivial(case):
    if case["kind"] in ("prog", "fprog"):
        return True
    if case["kind"] == "job":
        return bool(case["edges"]) or any(len(t["outs"]) > 1 for t in case["tasks"])
    if case["kind"] == "hand":
        return any(n["inputs"] or (n["outputs"] and len(n["outputs"]) > 1) for n in case["nodes"])
    return any(n["inputs"] or n["num_outputs"] > 1 for n in case["nodes"])


def _count(ctx, case, real):
    ctx.count("cases")
    ctx.count("kind:" + case["kind"])
    built = real["built"]
    if built["lower_error"]:
        ctx.count("lower_error:" + built["lower_error"])
    for name, sp in built["spec"].items():
        n = len(sp["outs"])
        ctx.count("tasks")
        ctx.count("outputs:" + ("1" if n == 1 else "2-10" if n <= 10 else "11-14"))
        ctx.count("arity:%d" % min(len(sp["args"]), 7))
        ups = [a for a in sp["args"] if a[0] == "up"]
        if ups:
            ctx.count("tasks_with_upstream_args")
        if len({(a[1], a[2]) for a in ups}) < len(ups):
            ctx.count("tasks_same_dataset_twice")
        if len({a[1] for a in ups}) < len(ups):
            ctx.count("tasks_two_edges_same_parent")
        if sp["kwargs"]:
            ctx.count("tasks_with_kwargs")
        beh = sp["beh"]
        if beh["kind"] == "gen" and n > 1:
            d = beh["m"] - n
            ctx.count("gen_yield_delta:%+d" % d)
        else:
            ctx.count("beh:%s%s" % (beh["kind"], "-multi" if n > 1 else ""))
    for run in real["runs"].values():
        ctx.count("run_error:%s" % run["error"])
    if case["kind"] == "fprog":
        left = {d: n for d, n in zip("xy", case["dims"])}
        for stp in case["steps"]:
            if stp["op"] == "reduce":
                n, b = left.pop(stp["dim"]), stp["batch"]
                if 1 < b < n:
                    ctx.count("fprog_batched_reduce")
                    ctx.count("fprog_batched_reduce:" + ("multiple" if n % b == 0 else "remainder-1" if n % b == 1 else "remainder>=2"))
                else:
                    ctx.count("fprog_unbatched_reduce")
            else:
                ctx.count("fprog_map")
        by_key = {}
        for sp in built["spec"].values():
            by_key.setdefault(sp["key"], set()).add(len(sp["parents"]))
        if any(len(v) > 1 for v in by_key.values()):
            ctx.count("fprog_one_payload_nodes_of_different_arity")
    if case["kind"] == "fluent":
        for nd in case["nodes"]:
            if nd.get("reuse") is not None:
                ctx.count("fluent_payload_object_reused")
                if len(nd["inputs"]) < len(case["nodes"][nd["reuse"]]["inputs"]):
                    ctx.count("fluent_payload_object_reused_with_fewer_inputs")


_REPORTED = {}


def _evaluate(ctx, cases, check_model=True):
    from ekw.core import lean_drive
    all_lines, all_expect = [], []
    for case in cases:
        real = run_real(case)
        ctx.case(case if len(json.dumps(case)) < 3000 else {"kind": case["kind"], "truncated": True}, nontrivial=_nontrivial(case))
        _count(ctx, case, real)
        for sig, what in oracle(case, real):
            key = json.dumps(sig, sort_keys=True)
            ctx.count("oracle_violation:" + sig["kind"])
            if key in _REPORTED.setdefault(id(ctx), set()):
                continue         # one (shrunk) witness per kind of failure and run
            _REPORTED[id(ctx)].add(key)
            small = shrink(case, sig)
            w2 = [w for s, w in oracle(small, run_real(small)) if s == sig]
            ctx.violation(sig, small, (w2 or [what])[0])
        if check_model:
            lines, expect, where = model_lines(case, real)
            for l, e, w in zip(lines, expect, where):
                all_lines.append(json.dumps(l))
                all_expect.append((case, l, e, w))
    if check_model and all_lines:
        res = lean_drive("C10", all_lines)
        if len(res) != len(all_lines):
            ctx.disagree("driver-output-length", {"lines": len(all_lines)}, len(res), len(all_lines))
            return
        reported = 0
        for out, (case, l, e, w) in zip(res, all_expect):
            if w == "runner.run":
                ctx.traces += 1
            m = _canon_model(json.loads(out))
            if m != e and reported < 20:
                reported += 1
                ctx.disagree(w, {"case": case, "line": l}, m, e)


def _corpus():
    from ekw.core import CORPUS_DIR
    out = []
    for f in sorted(glob.glob(str(CORPUS_DIR / "C10_*.json"))):
        d = json.load(open(f))
        out.append(d.get("case", d))
    return out


def correspond(ctx):
    n = ctx.budget(420, 12000)
    cases = _corpus() + fprog_sweep(ctx.rng)
    for _ in range(n):
        cases.append(gen_case(ctx.rng))
    _evaluate(ctx, cases)


def oracle_only(ctx):
    cases = _corpus() + fprog_sweep(ctx.rng) + [gen_case(ctx.rng) for _ in range(ctx.budget(420, 12000))]
    _evaluate(ctx, cases, check_model=False)


def search(ctx, why):
    """(P) or (T) broken: look for a failing input on the real code with a larger budget (oracle only); the inputs of
    disagreeing lines were already evaluated by the oracle in `correspond`."""
    if ctx.violations:
        return
    cases = fprog_sweep(ctx.rng) + [gen_case(ctx.rng) for _ in range(ctx.budget(1500, 20000))]
    _evaluate(ctx, cases, check_model=False)


def replay(payload):
    case = payload["case"]
    real = run_real(case)
    print("case:", json.dumps(case))
    print("lowered:", json.dumps(real["lower"]))
    for name, run in real["runs"].items():
        print("task", name, "received", run["received"], "stored", run["stored"], "error", run["error"],
              "published", [e[1] for e in run["events"]], "completion", run["completion"])
    fails = oracle(case, real)
    for sig, what in fails:
        print("oracle:", sig, what)
    if not fails:
        print("oracle: ok")
    return 1 if fails else 0
