"""C10 — lowering a graph to a job and running a task preserves what each node computes.

Tie: the real fluent.Node constructor, the real graph2job and the real runner (entrypoint.execute_sequence ->
runner.run -> memory.Memory, is_last_output_of) against Model/Lower.lean + Model/Runner.lean, node by node and
task by task.
Oracle: written from the property text only (one task per node, one edge per argument that names an upstream
output, received arguments = declared arguments with upstream values substituted, k-th yielded value stored under
the k-th DECLARED output / coordinate, count mismatch => task failure, completion notice = last publication).
"""
import glob
import json

from ekw import c10_real as R

PROPERTY = "C10"
LEVEL_TEXT = ("Lean theorems over Model/Lower.lean (fluent Node constructor, node2task, graph2job, param_source), Model/Runner.lean "
              "(argument assembly, output binding with strict-zip semantics, the stateful Memory with local/bufs/shared memory, "
              "execute_sequence over several tasks, is_last_output_of, all_outputs_published) and, for the coordinate step, "
              "Model/Fluent.lean (withYields): "
              "for every serialised graph one task per node and one positional edge per argument naming an input (c10_tasks_edges); the "
              "callable receives exactly the declared args with every argument naming an input replaced by the upstream value and the "
              "declared kwargs (c10_binding), and at every position whose declared argument is not a string EQUAL to an input name it "
              "receives that argument itself (c10_statics_received, on graph2job + run; c10_statics_unchanged is the lemma about subst it "
              "uses); the k-th yielded value is stored "
              "under the k-th declared output for every N >= 2 (c10_yield_binding_partial/_fluent); c10_yield_coordinate composes this "
              "with withYields through the convention 'array element out k = Output(parent, parent.outputs[k])' (refOf, a definition "
              "in Model/YieldRef.lean: the step from output name to coordinate is not derived from a model of apply_ufunc but compared "
              "with the real Action.__init__ by the tie - driver op ref_of on every position of every yields dimension of the prog "
              "cases - and by the oracle on their consumers); with one "
              "declared output the returned object itself - scalar, str, list, array - is the value (c10_single_output_value); a "
              "yield-count mismatch is an error (c10_count_mismatch_partial), a generator raising after m values binds and publishes "
              "exactly the first min(m, N) outputs and fails (c10_partial_publication); for EVERY run, failing ones included, the "
              "notices are a prefix of the declaration (c10_published_prefix); completion AS notify DECIDES IT (all_outputs_published): "
              "for every run, every publish set and every delivery order of the notices the rule answers 'complete' exactly at the last "
              "delivered notice and only if every declared output was published (c10_completion_all_outputs), exactly once for a "
              "successful fully published run (c10_completion_fires_once); c10_completion_is_last / c10_completion_after_all describe "
              "is_last_output_of, which is still in notify.py but which notify no longer calls (and the latter only for runs that publish "
              "the last declared output); execute_sequence over any history of the worker's own operations runs every task against what its "
              "predecessors in the sequence handled, published or not (c10_sequence_sees_local, c10_seq_unpublished_visible), never "
              "hits the corruption branch (c10_mem_never_corrupted: by the invariant bufs within keys(local) over those operations; a "
              "buffer closed by another party is not an operation of the model), reports exactly the first failure "
              "(c10_seq_failure_reported) and flush keeps only what shared memory backs (c10_flush_keeps_published). The Lean statements "
              "are unbounded in arity, nodes, outputs, sequence length and treat values as opaque; the tie (node-by-node / "
              "sequence-by-sequence / task-by-task correspondence with the real code) samples up to 13 inputs per node (placeholders "
              "input0..input12, static strings that contain or resemble an input name), up to 14 outputs, sequences of 1-4 tasks, and "
              "as task results opaque tokens, None, ints, floats, bools, str, bytes, dicts, lists, tuples (empty, nested) and int/float "
              "arrays, returned and yielded, compared by a canonical text that includes the array dtype. Carried by the tie only: that the "
              "payload at index i of an array given to Action.map reaches the node at index i (oracle 'wrong-callable'), the "
              "output-to-coordinate convention, which callable a task names (cloud-pickled func, entrypoint string through "
              "resolve_callable, func preferred when both), the gateway's job file stage, and that values pass through "
              "Memory.handle / shared memory / Memory.provide unchanged (the model stores values as given).")
LEVEL_NOTE = ("modelled, not verified: low/into.py node2task+graph2job, low/views.py param_source, runner/runner.py run, runner/memory.py "
              "handle/provide/flush/pop, runner/entrypoint.py execute_sequence, controller/notify.py is_last_output_of (dead code) and "
              "all_outputs_published, fluent.Node.__init__ "
              "(argument completion and output naming), fluent.Action.__init__ (yields dimension); shared memory and the zmq callback are "
              "replaced by in-process fakes; cloudpickle/pydantic are exercised but trusted. Known finding: a generator declared with ONE "
              "output is stored as the generator object (c10_yield_binding_partial needs N >= 2); the finding is matched by its observed "
              "mechanism (the generator object handed to Memory.handle under the single output, failing only by pickling when published), "
              "any other failure of a one-output generator is reported. The payload format cannot express a static "
              "string equal to an input name (c10_string_naming_input_is_reference); not a finding, the property's 'arguments that name "
              "other nodes' outputs'")
TECHNIQUE = ("Lean 4 proof (induction over argument lists / output lists / task sequences, memory invariant over operation histories) + "
             "differential correspondence with the real graph2job, execute_sequence and runner")
LEAN_PROPS = ["EkwVerif.Props.C10", "EkwVerif.Props.C10Seq", "EkwVerif.Props.C10Coord", "EkwVerif.Props.C10Done"]
LEAN_DRIVERS = ["C10"]
RULE = ("random graphs of 1-7 nodes built by hand (graph.Node; 30% of the later nodes carry the very callable OBJECT of an earlier node, "
        "mostly with as many outputs under other names / in another order; 2.5% non-tuple or absent payloads), through fluent.Node (30% of "
        "the later nodes are built from the very Payload object of an earlier node, with another - often smaller - number of inputs), "
        "through a fluent program (from_source(yields=...) over 1-3 generator sources followed by map(array of payloads), the payload for "
        "index (i, j) known to the oracle by its index only, a third of them with sources that yield None / numbers / containers / bytes; "
        "or 1-2 dimensional sources (a quarter of the 1-dimensional ones with 10-13 elements, reduced unbatched into one node with 10-13 "
        "inputs) followed by 1-4 map / reduce steps that share 1-3 "
        "payloads given as Payload object, plain callable or functools.partial, with explicit placeholders; every run contains the batched "
        "reductions with EVERY batch size 2..size+1 over EVERY size 2..9) or directly as JobInstance: arity 0-6 with upstream/static "
        "positions mixed, 0-3 kwargs, statics int/str/None and (one in five) float/bool/list/tuple/dict/ndarray, strings equal to an input "
        "name and strings that contain or resemble one ('input0_scaled', 'xinput1', 'input10', 'input00'), 12% of the fluent nodes "
        "with 10-13 inputs and explicit placeholders up to input12, three in eight tasks of a direct JobInstance name their callable "
        "by entrypoint string (func None -> resolve_callable('ekw.c10_real.EP_k')) or by both (func must win), input names inputN or "
        "arbitrary, the same parent output used by several inputs / several nodes / nobody, duplicated and "
        "missing placeholders, 1-14 outputs with numeric, unsorted or multi-letter names, generators yielding N-2..N+2 values, generators "
        "raising after 0..N+1 values, list/tuple/str/ndarray results (also for ONE output), scalar and raising callables; 30% of the "
        "returning / yielding callables give None, ints, floats, bools, str, bytes, dicts, empty containers, nested tuples, int/float "
        "arrays instead of opaque tokens (and their consumers must receive exactly these); keyword and "
        "positional edges with gaps. 55% of the cases are run as TaskSequences of 1-4 consecutive tasks with a random publish subset "
        "(p = 0, .3, .5, 1), so that consumers read unpublished outputs of the same sequence from Memory.local; the Memory persists across "
        "sequences (shared) or not (fresh). non-trivial = case with >= 1 upstream argument or >= 1 multi-output task; distinct by content hash")
ASSUMPTIONS = [
    "shared memory (cascade.shm.client) and the zmq callback are replaced by in-process fakes; serde is the real one (cloudpickle)",
    "tasks run in topological order in TaskSequences of 1-4 tasks on one worker; between sequences values travel through the fake shared "
    "memory (an unpublished output needed by a LATER sequence is 'withheld': the oracle has no opinion, the model is still compared)",
    "upstream values are opaque tokens, the list/tuple/str/array a one-output task returned, or None / int / float / bool / str / bytes / "
    "dict / list / tuple (empty, nested) / int or float array; pickled values are compared by a canonical text (type, contents, array dtype)",
    "keyword arguments are bound by name: the oracle compares them as a set of (name, value), the tie with the model compares the order "
    "in which the callable saw them as well",
    "a job whose static values are all JSON-native must survive the gateway's job file (a fallback there is a violation); for other "
    "jobs the in-memory job is used (C17's matter); more than 20% fallbacks among the native ones or fewer than 40% files overall "
    "fail the check",
    "a consumer whose parent failed / is no proper generator has no expected value, but if its callable is invoked it must receive the "
    "declared statics and what the store held under each upstream dataset when it started",
    "dict keys of node inputs, kwargs and output_schema are distinct (Python dicts); static_input_ps keys are decimal naturals",
    "edges name existing outputs of existing tasks (RunnerContext.project would raise KeyError otherwise; not modelled - seen as a disagreement)",
    "'declared': a slot where the author placed an input receives that input's upstream value; a value the author wrote is received as "
    "written, except that a string equal to one of the node's input names is, by the payload format (func, args, kwargs), the reference to "
    "that input (generated and counted as static_string_equals_input_name); strings in kwargs are never references",
    "fluent programs (kind fprog): what a node declares is read off the graph the fluent calls produced (its inputs) and the payload "
    "the author wrote (its arguments, completed by the inputs not placed explicitly); an 'inputK' string with K >= number of inputs of "
    "the node is a string the author wrote, any other 'inputK' must arrive as the upstream value",
    "a callable that returns a list/tuple/str/array of exactly N elements for N >= 2 declared outputs is not a generator: the runner may "
    "fail it (it does: 'not an iterator', after binding and publishing all N); the oracle then only demands in-order binding and that a "
    "completion notice comes last",
]


# ----------------------------------------------------------------------------- generator

STATIC_STR = ["x", "mean", "input7", "0", "10", "b", "a", "src", "input0", "input1",
              # strings that CONTAIN an input name without being one: values the author wrote
              "input0_scaled", "xinput1", "input10", "input1x", "my_input0", "input", "Input0", "input00", "src_b", "xa"]
# what a task may return / yield besides opaque tokens (text of Python literals)
WIDE = ["None", "None", "0", "7", "-3", "0.0", "2.5", "-0.5", "True", "False", "{}", "{'a': 1, 'b': [1, 2]}", "[]", "()", "''",
        "(1, (2, (3,)))", "((), [])", "b''", "b'ab\\x00'", "[None]", "(None, 0)", "{'k': None}", "'ok'", "{1: (2, 3)}", "[[], {}]",
        "1e+100", "'input0'", "{'input0': 0}"]


def _wide(rng):
    r = rng.random()
    if r < 0.12:
        return None
    if r < 0.9:
        return {"py": rng.choice(WIDE)}
    if r < 0.95:
        return {"ndf": [rng.choice([0.5, 1.0, -2.0]) for _ in range(rng.randint(0, 3))]}
    return {"nd": [rng.randint(0, 9) for _ in range(rng.randint(0, 3))]}


def _widen(rng, beh, p=0.3):
    """with probability p the callable returns / yields None, ints, floats, bools, dicts, empty containers, nested tuples,
    bytes, arrays instead of opaque tokens"""
    if beh["kind"] in ("ret", "gen", "genraise") and rng.random() < p:
        beh = dict(beh, vals=[_wide(rng) for _ in range(1 if beh["kind"] == "ret" else beh["m"])])
    return beh
PNAMES = ["a", "b", "c", "src", "left", "right", "q"]
KWKEYS = ["k0", "k1", "alpha", "axis"]


def _static(rng):
    """a value the author wrote: int / str / None mostly; float, bool, list, tuple, dict, ndarray (the unhashable and the
    element-wise comparing kinds) for about one in five"""
    r = rng.random()
    if r < 0.38:
        return {"i": rng.randint(-3, 40)}
    if r < 0.70:
        return {"s": rng.choice(STATIC_STR)}
    if r < 0.80:
        return None
    k = rng.choice(["f", "b", "l", "tu", "m", "nd", "nd"])
    if k == "f":
        return {"f": rng.choice([0.5, -1.25, 3.0])}
    if k == "b":
        return {"b": rng.random() < 0.5}
    if k == "l":
        return {"l": [rng.choice([1, 2, "x", "input0", "a"]) for _ in range(rng.randint(0, 3))]}
    if k == "tu":
        return {"tu": [rng.randint(0, 5) for _ in range(rng.randint(0, 3))]}
    if k == "m":
        return {"m": [[kk, rng.randint(0, 9)] for kk in rng.sample(["p", "q", "input0"], rng.randint(0, 2))]}
    return {"nd": [rng.randint(0, 9) for _ in range(rng.choice([1, 2, 3]))]}


def _outs(rng, hand):
    """declared outputs (list of names); hand-built nodes may use any names in any order"""
    r = rng.random()
    if r < 0.5:
        n = 1
    elif r < 0.8:
        n = rng.randint(2, 9)
    else:
        n = rng.randint(10, 14)
    if not hand:
        return [str(i) for i in range(n)]
    return _out_names(rng, n)


def _out_names(rng, n):
    style = rng.random()
    if style < 0.55:
        return [str(i) for i in range(n)]
    if style < 0.8:
        names = ["a", "b", "c", "d", "e", "f", "g", "h", "i", "j", "k", "l", "m", "n", "o", "p"][:n]
        rng.shuffle(names)
        return names
    names = ["out%d" % i for i in range(n)]
    if rng.random() < 0.5:
        rng.shuffle(names)
    return names


def _beh(rng, n):
    return _widen(rng, _beh0(rng, n))


def _beh0(rng, n):
    r = rng.random()
    if n == 1:
        if r < 0.66:
            return {"kind": "ret", "m": 1}
        if r < 0.72:
            return {"kind": "raise", "m": 0}
        if r < 0.84:     # ONE declared output: whatever the callable returns is the value, also a list / tuple / str / array
            return {"kind": rng.choice(["list", "list", "tuple", "str", "nd"]), "m": rng.choice([0, 1, 2, 3])}
        if r < 0.87:
            return {"kind": "genraise", "m": rng.choice([0, 1, 2])}
        return {"kind": "gen", "m": rng.choice([1, 1, 1, 0, 2])}
    if r < 0.52:
        return {"kind": "gen", "m": n}
    if r < 0.74:
        return {"kind": "gen", "m": max(0, n + rng.choice([-2, -1, -1, 1, 1, 2]))}
    if r < 0.84:         # a generator that raises after m values: before, at and after the declared count
        return {"kind": "genraise", "m": max(0, rng.choice([0, 1, n - 1, n - 1, n, n, n + 1, rng.randint(0, n)]))}
    if r < 0.93:         # iterables that are not iterators
        return {"kind": rng.choice(["list", "list", "tuple", "str", "nd"]), "m": max(0, n + rng.choice([0, 0, 0, -1, 1]))}
    if r < 0.97:
        return {"kind": "ret", "m": 1}
    return {"kind": "raise", "m": 0}


def _pick_inputs(rng, prev_outs, k):
    """k references (parent index, output name); favours re-using one parent (several edges from the same parent)"""
    refs = []
    cand = [i for i, o in enumerate(prev_outs) if o]
    if not cand:
        return refs
    fav = rng.choice(cand)
    for _ in range(k):
        pi = fav if rng.random() < 0.5 else rng.choice(cand)
        refs.append((pi, rng.choice(prev_outs[pi])))
    return refs


def gen_hand(rng):
    n = rng.randint(1, 7)
    nodes, prev = [], []
    for i in range(n):
        outs = _outs(rng, True)
        beh = _beh(rng, len(outs))
        share = None
        if nodes and rng.random() < 0.3:
            # the very callable OBJECT of an earlier node (same kwarg names), mostly with as many outputs as that node
            # declares but under other names / in another order
            share = rng.randrange(len(nodes))
            share = nodes[share].get("share", share) if nodes[share].get("share") is not None else share
            beh = nodes[share]["beh"]
            nprev = len(prev[share]) if prev[share] else 1
            if rng.random() < 0.8:
                outs = _out_names(rng, nprev)
                if outs == prev[share] and nprev > 1:
                    outs = list(reversed(outs))
        arity = rng.randint(0, 6)
        k = rng.randint(0, arity) if prev else 0
        refs = _pick_inputs(rng, prev, k)
        arity = max(arity, len(refs))
        style = rng.random()
        if style < 0.5:
            pn = ["input%d" % j for j in range(len(refs))]
        else:
            pn = rng.sample(PNAMES, len(refs))
        slots = [None] * arity
        pos = rng.sample(range(arity), len(refs))
        for j, p in enumerate(pos):
            slots[p] = {"ph": pn[j]}
        args = [s if s is not None else _static(rng) for s in slots]
        r = rng.random()
        if refs and r < 0.12:                     # the same placeholder twice
            args.insert(rng.randint(0, len(args)), {"ph": rng.choice(pn)})
        elif refs and r < 0.16:                   # an input nobody mentions: lowering raises KeyError
            victim = rng.choice(pn)
            args = [a for a in args if a != {"ph": victim} and a != {"s": victim}]
        elif refs and r < 0.22:                   # a string the author wrote that equals an input name
            args.insert(rng.randint(0, len(args)), {"s": rng.choice(pn)})
        if share is not None:
            kwargs = [[kk, _static(rng)] for kk, _ in nodes[share]["kwargs"]]
        else:
            kwargs = [[kk, _static(rng)] for kk in rng.sample(KWKEYS, rng.choice([0, 0, 1, 2, 3]))]
        inputs = []
        for (pi, o), p in zip(refs, pn):
            inputs.append([p, pi, None if (o == "0" and rng.random() < 0.7) else o])
        outputs = outs
        if outs == ["0"] and rng.random() < 0.5:
            outputs = None if rng.random() < 0.7 else []
        r = rng.random()
        nd = {"name": "n%d" % i, "payload": "tuple" if r < 0.975 else ("other" if r < 0.9875 else "none"), "args": args, "kwargs": kwargs,
              "inputs": inputs, "outputs": outputs, "beh": beh}
        if share is not None:
            nd["share"] = share
        nodes.append(nd)
        prev.append([] if outputs == [] else outs)
    return {"kind": "hand", "nodes": nodes}


def gen_fluent(rng):
    n = rng.randint(1, 7)
    nodes, prev = [], []
    for i in range(n):
        outs = _outs(rng, False)
        k = (rng.randint(0, 4) if rng.random() < 0.88 else rng.randint(10, 13)) if prev else 0    # 10-13 inputs: input1 vs input10..12
        refs = _pick_inputs(rng, prev, k)
        nstat = rng.randint(0, 3)
        args = [_static(rng) for _ in range(nstat)]
        # the author may place some placeholders explicitly; the constructor appends the others
        for j in range(len(refs)):
            if rng.random() < 0.45:
                args.insert(rng.randint(0, len(args)), {"ph": "input%d" % j})
        if refs and rng.random() < 0.1:
            args.insert(rng.randint(0, len(args)), {"ph": "input%d" % rng.randrange(len(refs))})
        kwargs = [[kk, _static(rng)] for kk in rng.sample(KWKEYS, rng.choice([0, 0, 1, 2, 3]))]
        inputs = [[pi, None if (o == "0" and len(prev[pi]) == 1 and rng.random() < 0.7) else o] for pi, o in refs]
        nd = {"name": "n%d" % i, "args": args, "kwargs": kwargs, "inputs": inputs, "num_outputs": len(outs),
              "single": rng.random() < 0.5, "beh": _beh(rng, len(outs))}
        if nodes and rng.random() < 0.3:
            # the SAME Payload object as an earlier node (its args/kwargs/callable), with this node's own inputs:
            # usually another number of inputs, often fewer
            j = rng.randrange(len(nodes))
            nj = len(nodes[j]["inputs"])
            if nj >= 1 and rng.random() < 0.6:
                nd["inputs"] = inputs[:rng.randint(0, nj - 1)]
            nd.update(reuse=j, args=nodes[j]["args"], kwargs=nodes[j]["kwargs"], beh=nodes[j]["beh"], num_outputs=nodes[j]["num_outputs"])
            if "reuse" in nodes[j]:
                nd["reuse"] = nodes[j]["reuse"]
            outs = [str(x) for x in range(nd["num_outputs"])]
        nodes.append(nd)
        prev.append(outs)
    return {"kind": "fluent", "nodes": nodes}


def _payload(rng, arity_hint):
    """a payload the author wrote: some static arguments, some placeholders placed explicitly (possibly naming an input
    only the larger nodes have), kwargs; as Payload object, plain callable or functools.partial"""
    wrap = rng.choice(["payload", "payload", "payload", "callable", "partial"])
    if wrap == "callable":
        return {"wrap": wrap, "args": [], "kwargs": []}
    args = [_static(rng) for _ in range(rng.choice([0, 0, 0, 1, 2]))]
    if rng.random() < 0.35:
        for j in rng.sample(range(arity_hint), rng.randint(1, min(2, arity_hint))):
            args.insert(rng.randint(0, len(args)), {"ph": "input%d" % j})
    # a string the author wrote that equals a placeholder placed in the same payload would name that input twice (the
    # program-level expectation "every source exactly once" is about programs without that collision; the collision
    # itself is generated for hand-written and fluent nodes)
    placed = {a["ph"] for a in args if isinstance(a, dict) and "ph" in a}
    args = [a for a in args if not (isinstance(a, dict) and a.get("s") in placed)]
    kwargs = [[kk, _static(rng)] for kk in rng.sample(KWKEYS, rng.choice([0, 0, 0, 1, 2]))]
    return {"wrap": wrap, "args": args, "kwargs": kwargs}


def gen_fprog(rng, size=None, batch=None):
    """fluent program: sources -> map / reduce steps; Payload objects shared between steps of different arity.
    size, batch given: a one-dimensional batched reduction of exactly that shape is among the steps."""
    if size is not None:
        dims = [size] if rng.random() < 0.75 else [size, rng.randint(2, 3)]
    elif rng.random() < 0.25:
        dims = [rng.randint(10, 13)]      # an unbatched reduce over it is a node with 10-13 inputs (placeholders input10..input12)
    elif rng.random() < 0.6:
        dims = [rng.randint(2, 9)]
    else:
        dims = [rng.randint(2, 5), rng.randint(2, 4)]
    npay = rng.choice([1, 1, 2, 2, 3])
    payloads = [_payload(rng, max(dims)) for _ in range(npay)]
    steps, left = [], {d: n for d, n in zip(["x", "y"], dims)}
    if size is None and dims[0] >= 10 and rng.random() < 0.7:
        if rng.random() < 0.4:
            steps.append({"op": "map", "p": rng.randrange(npay)})
        steps.append({"op": "reduce", "p": rng.randrange(npay), "dim": "x", "batch": 0})
        del left["x"]
    if size is not None:
        if rng.random() < 0.3:
            steps.append({"op": "map", "p": rng.randrange(npay)})
        steps.append({"op": "reduce", "p": rng.randrange(npay), "dim": "x", "batch": batch})
        del left["x"]
    for _ in range(rng.randint(0 if size is not None else 1, 3)):
        if left and rng.random() < 0.65:
            d = rng.choice(sorted(left))
            n = left.pop(d)
            b = rng.choice([0, 0, 1] + list(range(2, n + 2)) * 2)
            steps.append({"op": "reduce", "p": rng.randrange(npay), "dim": d, "batch": b})
        else:
            steps.append({"op": "map", "p": rng.randrange(npay)})
    return {"kind": "fprog", "dims": dims, "payloads": payloads, "steps": steps}


def fprog_sweep(rng):
    """batched reductions with every batch size 2..size+1 over every size 2..9 (multiples and non-multiples)"""
    out = []
    for size in range(2, 10):
        for b in range(2, size + 2):
            c = gen_fprog(rng, size, b)
            c["mode"] = "fresh" if rng.random() < 0.5 else "shared"
            c["nopub"] = []
            out.append(c)
    return out


def gen_prog(rng):
    n = rng.choice([1, 2, 3, 5, 9, 10, 11, 12, 13, 14])
    coords = rng.sample(range(0, 60), n)
    if rng.random() < 0.4:
        coords.sort()
    s = rng.randint(1, 3)
    ms = [n if rng.random() < 0.7 else max(0, n + rng.choice([-2, -1, 1, 2])) for _ in range(s)]
    c = {"kind": "prog", "srcs": s, "coords": coords, "m": ms}
    if rng.random() < 0.35:     # sources that yield None / numbers / containers / bytes instead of tokens
        c["gvals"] = [[_wide(rng) for _ in range(m)] if rng.random() < 0.7 else None for m in ms]
    return c


def gen_job(rng):
    n = rng.randint(1, 6)
    tasks, edges, prev = [], [], []
    for i in range(n):
        outs = _outs(rng, True)
        idxs = rng.sample(range(0, 7), rng.randint(0, 4))
        ps = [[j, _static(rng)] for j in idxs]
        kw = [[kk, _static(rng)] for kk in rng.sample(KWKEYS, rng.choice([0, 1, 2]))]
        if prev:
            for pi, o in _pick_inputs(rng, prev, rng.randint(0, 4)):
                r = rng.random()
                if r < 0.5:
                    free = [j for j in range(0, 8) if j not in idxs] or [7]
                    pos = rng.choice(free) if rng.random() < 0.85 else rng.choice(range(0, 8))
                    edges.append([pi, o, i, pos, None])
                    idxs = idxs + [pos] if rng.random() < 0.9 else idxs
                else:
                    edges.append([pi, o, i, None, rng.choice(KWKEYS + ["z"])])
        tk = {"name": "t%d" % i, "ps": ps, "kw": kw, "outs": outs, "beh": _beh(rng, len(outs))}
        how = rng.choice([None] * 5 + ["entrypoint", "entrypoint", "both"])
        if how:     # func None + entrypoint 'ekw.c10_real.EP_k' (resolve_callable), or both given (func is preferred)
            tk["entry"] = how
        tasks.append(tk)
        prev.append(outs)
    return {"kind": "job", "tasks": tasks, "edges": edges}


def gen_case(rng):
    r = rng.random()
    if r < 0.34:
        c = gen_hand(rng)
    elif r < 0.60:
        c = gen_fluent(rng)
    elif r < 0.72:
        c = gen_prog(rng)
    elif r < 0.80:
        c = gen_fprog(rng)
    else:
        c = gen_job(rng)
    c["mode"] = "fresh" if rng.random() < 0.5 else "shared"
    c["nopub"] = []
    # a quarter of the jobs travel as the gateway submits them: written by router._spawn_local as a job-spec file and read back
    # by cascade.benchmarks.get_job before any task runs (the declaration order of output_schema IS the yield order)
    c["via_gateway"] = rng.random() < 0.25
    # a third of the cases build their callables as plain functions sharing ONE code object, the behaviour bound as a default argument
    c["fn_wrap"] = rng.random() < 0.33
    r = rng.random()
    if r < 0.55:
        # several tasks per TaskSequence (consecutive in topological order), with its own publish subset: an unpublished
        # output is read by a later task of the same sequence from Memory.local
        c["seq_seed"] = rng.randint(0, 10 ** 6)
        c["nopub_seed"] = rng.randint(0, 10 ** 6)
        c["nopub_p"] = rng.choice([0.0, 0.3, 0.5, 0.5, 1.0])
    elif r < 0.63:
        c["nopub_seed"] = rng.randint(0, 10 ** 6)
    return c


# ----------------------------------------------------------------------------- run on the real code

def _sequences(case, order):
    """partition of the topological order into TaskSequences (consecutive chunks of 1-4 tasks)"""
    import random
    if "seqs" in case:          # explicit chunk sizes (corpus witnesses); the rest one by one
        out, i = [], 0
        for k in list(case["seqs"]) + [1] * len(order):
            if i >= len(order):
                break
            out.append(order[i:i + k])
            i += k
        return out
    if "seq_seed" not in case:
        return [[t] for t in order]
    prng = random.Random(case["seq_seed"])
    out, i = [], 0
    while i < len(order):
        k = prng.choice([1, 2, 2, 3, 4])
        out.append(order[i:i + k])
        i += k
    return out


def run_real(case):
    """-> dict(built, lower (canonical job | {"error"}), seqs: [sequence result], runs: name -> result of that task,
    seq_of: name -> index of its sequence, is_last)"""
    import random
    built = R.build(case)
    out = {"built": built, "runs": {}, "seqs": [], "seq_of": {}, "lower": None, "is_last": {}, "memops": []}
    if built["job"] is None:
        out["lower"] = {"error": built["lower_error"]}
        return out
    job = built["job"]
    try:
        out["lower"] = R.canon_job(job)
    except Exception as e:
        out["lower"] = {"error": "other:" + type(e).__name__}
        return out
    prng = random.Random(case["nopub_seed"]) if "nopub_seed" in case else None
    nopub_p = case.get("nopub_p", 0.3)
    order = [t for t in built["order"] if t in job.tasks]
    runner = R.Runner(job, case.get("mode", "fresh"))
    try:
        mprng = random.Random(case["seq_seed"] + 1) if "seq_seed" in case else None
        for si, tids in enumerate(_sequences(case, order)):
            if si and mprng is not None and case.get("mode") == "shared" and mprng.random() < 0.4:
                # between two sequences the worker's loop handles a DatasetPurge (pop) or a DatasetPublished (provide)
                snap = runner.snapshot()
                kind = mprng.choice(["pop", "provide"])
                cand = (snap["loc"] + snap["shm"]) if kind == "pop" or mprng.random() < 0.8 else [[t, "nope", None] for t in order[:1]]
                if cand:
                    t, o, _ = mprng.choice(cand)
                    out["memops"].append((si, runner.memop(kind, t, o)))
            publish = []
            for tid in tids:
                for o in job.tasks[tid].definition.output_schema.keys():
                    if case.get("nopub") == "all" or [tid, o] in (case.get("nopub") or []):
                        continue
                    if not (prng is not None and prng.random() < nopub_p):
                        publish.append([tid, o])
            sq = runner.run_seq(tids, publish)
            out["seqs"].append(sq)
            for tid in tids:
                outs = list(job.tasks[tid].definition.output_schema.keys())
                res = sq["tasks"][tid]
                res["publish"] = [o for t, o in publish if t == tid]
                res["stored"] = {}
                for o in outs:
                    v = runner.stored(tid, o)
                    if v is not R._MISSING:
                        res["stored"][o] = R.enc(v)
                out["runs"][tid] = res
                out["seq_of"][tid] = si
                out["is_last"][tid] = [[o, R.is_last_real(job, tid, o)] for o in outs]
    finally:
        runner.close()
    return out


# ----------------------------------------------------------------------------- oracle (from the property text)

ITERABLES = ("list", "tuple", "str", "nd")


def _status(spec, order, real):
    """what the property says about each task: "ok" (must succeed), "fail" (a task failure must be reported), "iter" (N >= 2
    outputs, the callable returns a list / tuple / str / array of exactly N elements: not a generator, the runner may
    refuse it, but whatever it stores must be bound in order), "skip" (no opinion)"""
    runs, seq_of = real["runs"], real["seq_of"]
    st = {}
    for name in order:
        sp = spec[name]
        beh, n = sp["beh"], len(sp["outs"])
        ups = [a for a in list(sp["args"]) + list(sp["kwargs"].values()) if a[0] == "up"]
        withheld = False
        for a in ups:
            p = a[1]
            if p not in runs:
                continue
            same_seq_earlier = seq_of.get(p) == seq_of.get(name) and order.index(p) < order.index(name)
            published = spec[p]["outs"][_out_index(spec, p, a[2])] in runs[p]["publish"]
            if not (same_seq_earlier or published):
                withheld = True      # the harness kept the value on another "worker": no opinion
        if name in runs and not runs[name]["started"]:
            st[name] = "skip"        # never started (execute_sequence stopped at an earlier task of its sequence; checked in oracle())
        elif not sp["wellformed"] or withheld or any(st.get(p) != "ok" for p in sp["parents"]):
            st[name] = "skip"
        elif beh["kind"] in ("raise", "genraise"):
            st[name] = "fail"        # (one declared output + generator: the known single-output class, see _check_task)
        elif beh["kind"] == "gen":
            st[name] = "ok" if beh["m"] == n else "fail"
        elif beh["kind"] == "ret":
            ys = R.yielded(sp["key"], "ret", 1, beh["vals"]) if beh.get("vals") is not None else None
            # one value for N >= 2 declared outputs: count mismatch (unless that value is a list / tuple / dict / str / bytes /
            # array of exactly N elements: "iter")
            st[name] = "ok" if n == 1 else ("iter" if ys is not None and len(ys) == n else "fail")
        elif n == 1:
            st[name] = "ok"          # ONE declared output: the returned object, whatever it is, is the value
        else:
            st[name] = "iter" if beh["m"] == n else "fail"
    return st


def _out_index(spec, parent, out):
    outs = spec[parent]["outs"]
    if out.startswith("@"):
        return int(out[1:])
    return outs.index(out)


def _val_k(sp, k):
    """the k-th value the callable of this node yields (the value it returns, for k = 0 of a `ret` callable)"""
    vals = sp["beh"].get("vals")
    return R.tok(sp["key"], k) if vals is None else R.dec(vals[k])


def _expected(spec, ref):
    if ref[0] == "static":
        return R.enc(ref[1])
    _, parent, out = ref
    k = _out_index(spec, parent, out)
    sp = spec[parent]
    if "vals" in sp:
        return R.enc(sp["vals"][k])
    if len(sp["outs"]) == 1 and sp["beh"]["kind"] in ITERABLES:
        return R.enc(R.result_of(sp["key"], sp["beh"]["kind"], sp["beh"]["m"]))
    return R.enc(_val_k(sp, k))


def oracle(case, real):
    """-> list of (signature, what). Independent of the model."""
    built = real["built"]
    spec, order = built["spec"], built["order"]
    fails = []
    lowering = case["kind"] != "job"
    wf = all(sp["wellformed"] for sp in spec.values())
    if case["kind"] == "fprog" and (built["lower_error"] or "").startswith("program:"):
        return [({"kind": "program-not-built"}, "the fluent calls of the program raised %s" % built["lower_error"][8:])]
    if (built["lower_error"] or "").startswith("construct:"):
        cf = built.get("construct_failed") or {}
        return [({"kind": "node-construction-failed"}, "fluent.Node(Payload(f, args=%s), %d input(s)) raised %s"
                 % (cf.get("args"), cf.get("n_inputs", 0), built["lower_error"][10:]))]
    gw = built.get("gateway")
    if gw is not None and gw != "file" and built.get("gateway_expect_file"):
        # every static value of the job is JSON-native, yet the job did not survive the gateway's job file (writer
        # router._spawn_local / reader benchmarks.get_job): the tasks would never run what the graph declares
        fails.append(({"kind": "job-file-roundtrip-failed", "how": gw.split(":")[0]}, "a job whose static values are all JSON-native "
                      "(None/bool/int/float/str, lists and str-keyed dicts of them) did not travel through the gateway's job file: %s" % gw))
    if built.get("relower") is not None:
        fails.append(({"kind": "lowering-changes-the-graph"}, "graph2job on the same graph a second time gives %s, the first time %s"
                      % (built["relower"], real["lower"])))
    if lowering and wf:
        if built["job"] is None:
            return [({"kind": "lowering-failed"}, "graph2job raised %s on a well-formed graph" % built["lower_error"])]
        low = real["lower"]
        if "error" in low:
            return [({"kind": "lowering-failed"}, "lowered job unusable: %s" % low["error"])]
        got_tasks = sorted(t["name"] for t in low["tasks"])
        if got_tasks != sorted(spec.keys()):
            fails.append(({"kind": "lowering-tasks"}, "tasks %s for nodes %s" % (got_tasks, sorted(spec.keys()))))
        for t in low["tasks"]:
            sp = spec.get(t["name"])
            if sp is not None and t["out_schema"] != list(dict.fromkeys(sp["outs"])):
                fails.append(({"kind": "lowering-outputs"}, "task %s has outputs %s, its node declares %s"
                              % (t["name"], t["out_schema"], sp["outs"])))
                break
        want_edges = []
        for name, sp in spec.items():
            for i, a in enumerate(sp["args"]):
                if a[0] == "up":
                    want_edges.append([a[1], spec[a[1]]["outs"][_out_index(spec, a[1], a[2])], name, i, None])
        if sorted(map(json.dumps, want_edges)) != sorted(map(json.dumps, low["edges"])):
            fails.append(({"kind": "lowering-edges"}, "edges %s, declared inputs need %s" % (low["edges"], want_edges)))
    if built["job"] is None or "error" in (real["lower"] or {}):
        return fails
    st = _status(spec, order, real)
    bad = set()      # tasks that already violated: what their consumers see is a consequence, report the root only
    seq_failed = {}  # sequence index -> an earlier task of it ended with an error (later ones are not started)
    for name in order:
        run = real["runs"].get(name)
        sp = spec[name]
        si = real["seq_of"].get(name)
        earlier_failed = seq_failed.get(si, False)
        if run is not None and run["error"] is not None:
            seq_failed[si] = True
        if any(p in bad for p in sp["parents"]):
            bad.add(name)
            continue
        if run is not None and not run["started"] and not earlier_failed and run["error"] is None:
            # execute_sequence stops at the first failing task and starts nothing after it; otherwise every task runs
            bad.add(name)
            fails.append(({"kind": "task-not-started"}, "task %s of sequence %s was never started although no earlier task of the "
                          "sequence failed" % (name, real["seqs"][si]["tids"])))
            continue
        if run is not None and st[name] == "skip" and sp["wellformed"] and run["started"] and run["received"] is not None:
            # no opinion on what this task should compute (a parent failed / is no proper generator / its value was withheld),
            # but if its callable IS invoked it still receives the declared statics and, in each upstream slot, whatever the
            # worker's memory or shared memory held under that dataset when the task started
            mine = _check_args_vs_store(name, sp, run, spec)
            _STATS["consumer_of_failed_or_withheld_parent_checked_against_store"] = _STATS.get("consumer_of_failed_or_withheld_parent_checked_against_store", 0) + 1
            if mine:
                bad.add(name)
                fails += mine
            continue
        if run is None or st[name] == "skip":
            continue
        mine = _check_task(name, sp, run, st[name], spec)
        if mine:
            bad.add(name)
            fails += mine
    for sq in real["seqs"]:
        errs = [t for t in sq["tids"] if sq["tasks"][t]["error"] is not None]
        if sq["nfailures"] > 1 or (sq["failed"] is None) != (not errs):
            fails.append(({"kind": "sequence-failure-report"}, "sequence %s: %d TaskFailure messages, failed=%s, tasks with an error %s"
                          % (sq["tids"], sq["nfailures"], sq["failed"], errs)))
    if not fails:
        fails += _check_finals(built, real, st)
    return fails


def _check_args_vs_store(name, sp, run, spec):
    avail = {(t, o): v for t, o, v in run["avail"] or []}
    rec = run["received"]

    def want(ref):
        if ref[0] == "static":
            return True, R.enc(ref[1])
        _, parent, out = ref
        ds = (parent, spec[parent]["outs"][_out_index(spec, parent, out)])
        return (ds in avail), avail.get(ds)
    wa = [want(a) for a in sp["args"]]
    wk = {k: want(v) for k, v in sp["kwargs"].items()}
    got_kw = {k: v for k, v in rec["kwargs"]}
    ok = len(rec["args"]) == len(wa) and all(g == w for g, (known, w) in zip(rec["args"], wa) if known) and \
        set(got_kw) == set(wk) and all(got_kw[k] == w for k, (known, w) in wk.items() if known)
    if rec["key"] != sp["key"]:
        return [({"kind": "wrong-callable", "class": "consumer-of-a-failed-parent"}, "task %s ran the callable %s; the author gave it %s"
                 % (name, rec["key"], sp["key"]))]
    if not ok:
        return [({"kind": "args-binding", "class": "against-store"}, "task %s (a parent of it did not succeed) received args %s kwargs %s; "
                 "declared statics and what the store held under each upstream dataset are %s %s"
                 % (name, rec["args"], rec["kwargs"], [w for _, w in wa], {k: w for k, (_, w) in wk.items()}))]
    return []


def _check_finals(built, real, st):
    """fluent program, seen by its author: the value of every final node is made of every source of its coordinates,
    each exactly once, and of nothing that looks like a placeholder the author did not write"""
    import re
    fails = []
    for name, want in built.get("finals") or []:
        run = real["runs"].get(name)
        if run is None or st.get(name) != "ok" or "0" not in run["stored"]:
            continue
        got = run["stored"]["0"].get("t", "")
        srcs = sorted(re.findall(r"s[0-9_]+#0", got))
        if srcs != want:
            fails.append(({"kind": "program-value"}, "final node %s holds %s: sources %s, the program reduces %s" % (name, got, srcs, want)))
    return fails


def _check_bound(name, sp, run, cls):
    """every value found under a published output (in shared memory) or handed to Memory.handle is the one yielded at the
    position at which that output was declared -- also in runs that end in a failure"""
    ys = R.yielded(sp["key"], sp["beh"]["kind"], sp["beh"]["m"], sp["beh"].get("vals")) or []
    want = {sp["outs"][k]: R.enc(ys[k]) for k in range(min(len(ys), len(sp["outs"])))}
    for o, v in run.get("kept") or []:
        if want.get(o) != v:
            return [({"kind": "yield-binding", "class": cls}, "task %s: declared outputs %s; the worker's memory holds %s under %s; k-th yielded "
                     "value under k-th declared output would be %s" % (name, sp["outs"], v, o, want))]
    for o, v in run["stored"].items():
        if want.get(o) != v:
            return [({"kind": "yield-binding", "class": cls}, "task %s: declared outputs %s; output %s holds %s; k-th yielded value under "
                     "k-th declared output would be %s" % (name, sp["outs"], o, v, want))]
    for o, v, _ in run["handled"]:
        if want.get(o) != v:
            return [({"kind": "yield-binding", "class": cls}, "task %s: declared outputs %s; %s stored locally under %s; k-th yielded value "
                     "under k-th declared output would be %s" % (name, sp["outs"], v, o, want))]
    return []


GEN1_MECHANISM = "generator-object-handed-to-Memory.handle-as-the-value-of-the-single-output"


def _gen1_mechanism(sp, run):
    """the mechanism of the known single-output finding, OBSERVED on this run: runner.run took the one-output path, i.e.
    Memory.handle was called exactly once, for the single declared output, with the generator object itself (never
    iterated), the worker's memory holds that object, and the only consequence is the pickling failure if (and only if)
    that output is published. Anything else that goes wrong with a one-output generator is another defect."""
    h = run["handled"]
    if len(h) != 1 or h[0][0] != sp["outs"][0] or h[0][1] != {"o": "generator"}:
        return False
    if [list(x) for x in run.get("kept") or []] != [[sp["outs"][0], {"o": "generator"}]]:
        return False
    rec = run["received"]
    if rec is None or rec["calls"] != 1 or run["stored"]:
        return False
    return run["error"] == ("unpicklable" if sp["outs"][0] in run["publish"] else None)


def _check_task(name, sp, run, status, spec):
    fails = []
    n = len(sp["outs"])
    kind = sp["beh"]["kind"]
    gen1 = kind in ("gen", "genraise") and n == 1
    # the known-finding class only while its mechanism is what is seen; otherwise the failure is reported as its own kind
    gen1_cls = {"class": "single-output-generator", "mechanism": GEN1_MECHANISM} if gen1 and _gen1_mechanism(sp, run) \
        else {"class": "single-output-generator-without-the-known-mechanism"}
    if status == "fail":
        if run["error"] is None:
            k2 = "count-mismatch-not-reported" if kind in ("gen", "ret") + ITERABLES else "failure-not-reported"
            sig = {"kind": k2}
            if gen1:
                sig.update(gen1_cls)
            elif k2 == "count-mismatch-not-reported":
                sig["class"] = "fewer" if sp["beh"]["m"] < n else "more"
            fails.append((sig, "task %s declared %d outputs %s, callable %s: no task failure reported (stored %s)"
                          % (name, n, sp["outs"], sp["beh"], run["stored"])))
        elif n >= 2 and kind in ("gen", "genraise") + ITERABLES:
            fails += _check_bound(name, sp, run, "partial")
        return fails
    if status == "iter":
        # not a generator: failing it is the runner's business, but what it binds it must bind in order, and a completion
        # notice may only go out after every other output
        fails += _check_bound(name, sp, run, "iterable")
        if run["error"] is None and set(run["publish"]) == set(sp["outs"]) and len(run["events"]) != n:
            fails.append(({"kind": "completion-not-last"}, "task %s succeeded with publications %s" % (name, run["events"])))
        comp = run["complete"]
        if True in comp and (comp.count(True) != 1 or comp[-1] is not True or
                             [e[1] for e in run["events"]] != [o for o in sp["outs"] if o in run["publish"]]):
            fails.append(({"kind": "completion-not-last"}, "task %s: publications %s, completion rule fires at %s"
                          % (name, [e[1] for e in run["events"]], comp)))
        return fails
    # status ok: declaration and behaviour agree, every input was made available
    want_args = [_expected(spec, a) for a in sp["args"]]
    want_kwargs = sorted(([k, _expected(spec, v)] for k, v in sp["kwargs"].items()), key=lambda e: e[0])
    rec = run["received"]
    if rec is not None:      # keyword arguments are bound by name: their order is not part of the declaration (the tie compares it)
        rec = dict(rec, kwargs=sorted(rec["kwargs"], key=lambda e: e[0]))
    if rec is None or rec["calls"] != 1:
        fails.append(({"kind": "not-invoked-once"}, "task %s: callable invoked %s times, error %s" % (name, rec and rec["calls"], run["error"])))
    elif rec["key"] != sp["key"]:
        fails.append(({"kind": "wrong-callable"}, "task %s ran the callable %s; the author gave it %s" % (name, rec["key"], sp["key"])))
    elif rec["args"] != want_args or rec["kwargs"] != want_kwargs:
        fails.append(({"kind": "args-binding"}, "task %s received args %s kwargs %s; declared arguments with upstream values substituted are %s %s"
                      % (name, rec["args"], rec["kwargs"], want_args, want_kwargs)))
    if run["error"] is not None:
        if gen1:
            fails.append((dict({"kind": "yield-binding"}, **gen1_cls),
                          "task %s: generator declared with ONE output %s yielded one value; instead of storing it the task failed with %s"
                          % (name, sp["outs"], run["error"])))
        else:
            fails.append(({"kind": "unexpected-failure"}, "task %s failed with %s; declaration and yield count agree" % (name, run["error"])))
        return fails
    if "vals" in sp:
        if fails:
            return fails     # the value of such a callable names what it received: already reported
        want = {sp["outs"][k]: R.enc(sp["vals"][k]) for k in range(n)}
    elif kind == "gen":
        want = {sp["outs"][k]: R.enc(_val_k(sp, k)) for k in range(n)}
    elif kind in ITERABLES:
        want = {sp["outs"][0]: R.enc(R.result_of(sp["key"], kind, sp["beh"]["m"]))}
    else:
        want = {sp["outs"][0]: R.enc(_val_k(sp, 0))}
    local = {o: v for o, v, _ in run["handled"]}
    kept = {o: v for o, v in run.get("kept") or []}
    if local == want and kept != want:
        # what Memory.handle was given is right, what the worker's memory holds afterwards (and a consumer in the same
        # sequence will read) is not
        sig = dict({"kind": "yield-binding"}, **(gen1_cls if gen1 else {"class": "kept-single" if n == 1 else "kept-multi"}))
        fails.append((sig, "task %s: declared outputs %s; after Memory.handle the worker's memory holds %s; k-th yielded value under "
                      "k-th declared output would be %s" % (name, sp["outs"], kept, want)))
    if local != want:
        sig = dict({"kind": "yield-binding"}, **(gen1_cls if gen1 else {"class": "single" if n == 1 else "multi"}))
        fails.append((sig, "task %s: declared outputs %s; stored locally %s; k-th yielded value under k-th declared output would be %s"
                      % (name, sp["outs"], local, want)))
    want = {o: v for o, v in want.items() if o in run["publish"]}
    if run["stored"] != want and not fails:
        sig = dict({"kind": "yield-binding"}, **(gen1_cls if gen1 else {"class": "single" if n == 1 else "multi"}))
        fails.append((sig, "task %s: declared outputs %s; stored %s; k-th yielded value under k-th declared output would be %s"
                      % (name, sp["outs"], run["stored"], want)))
    if True in run["complete"] and set(run["publish"]) != set(sp["outs"]):
        fails.append(({"kind": "completion-before-all-outputs"}, "task %s: publications %s of declared outputs %s, yet the controller's "
                      "completion rule answers %s" % (name, [e[1] for e in run["events"]], sp["outs"], run["complete"])))
    if set(run["publish"]) == set(sp["outs"]):
        comp = run["complete"]       # notify.all_outputs_published, notice by notice in the order sent
        if comp.count(True) != 1 or comp[-1] is not True or len(run["events"]) != n:
            fails.append(({"kind": "completion-not-last"}, "task %s: publications %s, completion rule fires at %s"
                          % (name, [e[1] for e in run["events"]], comp)))
    return fails


# ----------------------------------------------------------------------------- model side

def model_lines(case, real):
    """JSON lines for the Lean driver and the matching expected (real) outputs."""
    lines, expect, where = [], [], []
    built = real["built"]
    if built["ser"] is None and built["job"] is None:
        return lines, expect, where
    for fn in built["fluent_nodes"]:
        lines.append({"op": "fluent_node", "args": fn["args"], "n_inputs": fn["n_inputs"], "num_outputs": fn["num_outputs"]})
        ser = next(s for s in built["ser"] if s["name"] == fn["name"])
        expect.append({"args": ser["payload"]["args"], "outputs": ser["outputs"], "inputs": [i[0] for i in ser["inputs"]]})
        where.append("fluent-node-constructor")
    for parent, n, k, ref in built.get("yield_refs") or []:
        # Action.__init__(yields): the element at the k-th declared coordinate is Output(parent, parent.outputs[k])
        lines.append({"op": "ref_of", "parent": parent, "n": n, "k": k})
        expect.append({"output": ref[1], "task": ref[0]})
        where.append("Action.__init__(yields)")
    if built["ser"] is not None:
        lines.append({"op": "lower", "nodes": built["ser"]})
        expect.append(real["lower"])
        where.append("graph2job")
    low = real["lower"]
    if low is None or "error" in low:
        return lines, expect, where
    spec = built["spec"]
    tasks = {t["name"]: t for t in low["tasks"]}

    def result_of(name):
        sp = spec[name]
        return R.result_json(sp["key"], sp["beh"], sp.get("vals"))

    memops = {}
    for si, mo in real.get("memops") or []:
        memops.setdefault(si, []).append(mo)
    def edges_for(tids):
        # the edges into these tasks (param_source only looks at those), plus every malformed edge (a TypeError wherever it sinks)
        return [e for e in low["edges"] if e[2] in tids or (e[3] is None) == (e[4] is None)]

    for si, sq in enumerate(real["seqs"]):
        for mo in memops.get(si, []):
            lines.append({"op": "memop", "kind": mo["kind"], "ds": mo["ds"], "loc": mo["before"]["loc"], "bufs": mo["before"]["bufs"],
                          "shm": mo["before"]["shm"]})
            expect.append({"result": mo["result"], "loc": mo["after"]["loc"], "bufs": mo["after"]["bufs"], "shm": mo["after"]["shm"]})
            where.append("Memory." + mo["kind"])
        # the whole TaskSequence against the stateful Memory model
        lines.append({"op": "seq", "edges": edges_for(sq["tids"]), "publish": sq["publish"], "loc": sq["before"]["loc"], "bufs": sq["before"]["bufs"],
                      "shm": sq["before"]["shm"],
                      "tasks": [{"tid": t, "ps": tasks[t]["ps"], "kw": tasks[t]["kw"], "outs": tasks[t]["out_schema"], "result": result_of(t)}
                                for t in sq["tids"]]})
        runs = []
        for t in sq["tids"]:
            run = sq["tasks"][t]
            if not run["started"]:
                continue
            rec = run["received"]
            runs.append({"tid": t, "out": {"received": None if rec is None else {"args": rec["args"], "kwargs": rec["kwargs"]},
                                           "handled": run["handled"], "error": run["error"], "published": [e[1] for e in run["events"]]}})
        expect.append({"runs": runs, "failed": sq["failed"], "loc": sq["after"]["loc"], "bufs": sq["after"]["bufs"], "shm": sq["after"]["shm"]})
        where.append("execute_sequence")
        # every started task against the memory-free `run` of the theorems
        for t in sq["tids"]:
            run = sq["tasks"][t]
            if not run["started"]:
                continue
            es = edges_for([t])
            srcs = {(e[0], e[1]) for e in es}
            lines.append({"op": "run", "tid": t, "ps": tasks[t]["ps"], "kw": tasks[t]["kw"], "outs": tasks[t]["out_schema"], "edges": es,
                          "mem": [a for a in run["avail"] if (a[0], a[1]) in srcs], "publish": run["publish"], "result": result_of(t)})
            rec = run["received"]
            expect.append({"received": None if rec is None else {"args": rec["args"], "kwargs": rec["kwargs"]},
                           "handled": run["handled"], "error": run["error"], "completion": run["completion"]})
            where.append("runner.run")
            import random as _random
            notices = [e[1] for e in run["events"]]
            lines.append({"op": "all_published", "n_outputs": len(tasks[t]["out_schema"]), "notices": notices})
            expect.append({"flags": run["complete"]})
            where.append("all_outputs_published")
            if notices:      # notices may overtake each other and be repeated (retries)
                prng = _random.Random(len(lines))
                other = list(notices)
                prng.shuffle(other)
                other.insert(prng.randint(0, len(other)), prng.choice(other))
                lines.append({"op": "all_published", "n_outputs": len(tasks[t]["out_schema"]), "notices": other})
                expect.append({"flags": R.all_published_real(built["job"], t, other)})
                where.append("all_outputs_published")
            lines.append({"op": "is_last", "outs": tasks[t]["out_schema"]})
            expect.append({"is_last": real["is_last"][t]})
            where.append("is_last_output_of")
    return lines, expect, where


def _canon_recv(r):
    if isinstance(r, dict):
        return {"args": r["args"], "kwargs": r["kwargs"]}     # in the order the callable saw them (dict order of **kwargs)
    return r


def _canon_model(o):
    if isinstance(o, dict) and isinstance(o.get("received"), dict):
        o = dict(o)
        o["received"] = _canon_recv(o["received"])
    if isinstance(o, dict) and "runs" in o:
        o = dict(o)
        o["runs"] = [{"tid": r["tid"], "out": dict(r["out"], received=_canon_recv(r["out"]["received"]))} for r in o["runs"]]
    return o


# ----------------------------------------------------------------------------- shrinking

def _restrict(case, keep):
    """sub-case with only the nodes/tasks at indices `keep` (closed under parents)"""
    keep = sorted(keep)
    idx = {old: new for new, old in enumerate(keep)}
    c = dict(case)
    if case["kind"] == "job":
        c["tasks"] = [case["tasks"][i] for i in keep]
        c["edges"] = [[idx[s], o, idx[d], ps, kw] for s, o, d, ps, kw in case["edges"] if s in idx and d in idx]
    elif case["kind"] == "hand":
        c["nodes"] = []
        for i in keep:
            nd = dict(case["nodes"][i], inputs=[[p, idx[pi], o] for p, pi, o in case["nodes"][i]["inputs"]])
            if nd.get("share") is not None:
                nd["share"] = idx[nd["share"]]
            c["nodes"].append(nd)
    elif case["kind"] == "fluent":
        c["nodes"] = []
        for i in keep:
            nd = dict(case["nodes"][i], inputs=[[idx[pi], o] for pi, o in case["nodes"][i]["inputs"]])
            if nd.get("reuse") is not None:
                nd["reuse"] = idx[nd["reuse"]]
            c["nodes"].append(nd)
    return c


def _parents(case, i):
    if case["kind"] == "job":
        return {s for s, o, d, ps, kw in case["edges"] if d == i}
    if case["kind"] == "hand":
        nd = case["nodes"][i]
        return {pi for p, pi, o in nd["inputs"]} | ({nd["share"]} if nd.get("share") is not None else set())
    if case["kind"] == "fluent":
        nd = case["nodes"][i]
        return {pi for pi, o in nd["inputs"]} | ({nd["reuse"]} if nd.get("reuse") is not None else set())
    return set()


def _fprog_smaller(case):
    """candidate simplifications of a fluent program (all stay inside the generator's language)"""
    steps = case["steps"]
    for i in range(len(steps)):
        if len(steps) > 1:
            yield dict(case, steps=steps[:i] + steps[i + 1:])
    used = {st.get("dim") for st in steps}
    if len(case["dims"]) == 2 and "y" not in used:
        yield dict(case, dims=case["dims"][:1])
    for di, n in enumerate(case["dims"]):
        d = "xy"[di]
        if n > 1:
            c = dict(case, dims=[m - 1 if k == di else m for k, m in enumerate(case["dims"])])
            # an explicit placeholder must keep naming an input of the largest node
            yield c
    for i, st in enumerate(steps):
        if st["op"] == "reduce" and st["batch"] not in (0, 2):
            for b in (0, 2, st["batch"] - 1):
                if b != st["batch"] and b >= 0 and b != 1:
                    yield dict(case, steps=steps[:i] + [dict(st, batch=b)] + steps[i + 1:])
    for i, pl in enumerate(case["payloads"]):
        if pl["args"] or pl["kwargs"]:
            yield dict(case, payloads=case["payloads"][:i] + [dict(pl, args=[], kwargs=[])] + case["payloads"][i + 1:])
        if pl["wrap"] != "payload":
            yield dict(case, payloads=case["payloads"][:i] + [dict(pl, wrap="payload")] + case["payloads"][i + 1:])


def _isolate(case, i):
    """node i alone, its inputs (and the arguments naming them) removed"""
    c = {k: v for k, v in case.items() if k not in ("nopub_seed", "seq_seed", "nopub_p", "seqs", "nopub")}
    c["nopub"] = []
    if case["kind"] == "job":
        c["tasks"], c["edges"] = [case["tasks"][i]], []
    elif case["kind"] == "hand":
        nd = case["nodes"][i]
        names = [p for p, pi, o in nd["inputs"]]
        c["nodes"] = [dict(nd, inputs=[], args=[a for a in nd["args"]
                                                if not (isinstance(a, dict) and (a.get("s") in names or a.get("ph") in names))])]
        c["nodes"][0].pop("share", None)
    else:
        nd = case["nodes"][i]
        names = ["input%d" % j for j in range(len(nd["inputs"]))]
        c["nodes"] = [dict(nd, inputs=[], args=[a for a in nd["args"]
                                                if not (isinstance(a, dict) and (a.get("s") in names or a.get("ph") in names))])]
        c["nodes"][0].pop("reuse", None)
    return c


def shrink(case, sig):
    """keep one node and its ancestors, if the same kind of failure remains"""
    if case["kind"] == "prog":
        best = case
        for n in range(1, len(case["coords"])):
            c = dict(case, coords=case["coords"][:n], m=[max(0, m - (len(case["coords"]) - n)) for m in case["m"]], srcs=1)
            c["m"] = c["m"][:1]
            if _fails_with(c, sig):
                return c
        return best
    if case["kind"] == "fprog":
        cur, budget, progress = {k: v for k, v in case.items() if k != "nopub_seed"}, 60, True
        if not _fails_with(cur, sig):
            cur = case
        while progress and budget > 0:
            progress = False
            for c in _fprog_smaller(cur):
                budget -= 1
                if budget <= 0:
                    break
                if _fails_with(c, sig):
                    cur, progress = c, True
                    break
        return cur
    return _shrink_vals(_shrink_nodes(case, sig), sig)


def _shrink_nodes(case, sig):
    items = case["tasks"] if case["kind"] == "job" else case["nodes"]
    for i in range(len(items)):
        c = _isolate(case, i)
        if _fails_with(c, sig):
            return c
    best = case
    for i in range(len(items)):
        keep, todo = set(), [i]
        while todo:
            x = todo.pop()
            if x not in keep:
                keep.add(x)
                todo.extend(_parents(case, x))
        if len(keep) >= len(best["tasks"] if best["kind"] == "job" else best["nodes"]):
            continue
        c = _restrict(case, keep)
        if _fails_with(c, sig):
            best = c
    return best


def _shrink_vals(case, sig):
    """replace the non-token result values of each node / task by opaque tokens, and wide values by None, while the same
    kind of failure remains"""
    key = "tasks" if case["kind"] == "job" else "nodes"
    if key not in case:
        return case
    cur = case
    for i in range(len(cur[key])):
        beh = cur[key][i].get("beh") or {}
        if beh.get("vals") is None:
            continue
        cands = [{k: v for k, v in beh.items() if k != "vals"}]
        cands += [dict(beh, vals=[v if j == k else None for j, v in enumerate(beh["vals"])]) for k in range(len(beh["vals"]))]
        for b2 in cands[:8]:
            c = dict(cur)
            c[key] = [dict(x, beh=b2) if j == i else x for j, x in enumerate(cur[key])]
            if _fails_with(c, sig):
                cur = c
                break
    return cur


def _fails_with(case, sig):
    try:
        return any(s == sig for s, _ in oracle(case, run_real(case)))
    except Exception:
        return False


# ----------------------------------------------------------------------------- check entry points

def _nontrivial(case):
    if case["kind"] in ("prog", "fprog"):
        return True
    if case["kind"] == "job":
        return bool(case["edges"]) or any(len(t["outs"]) > 1 for t in case["tasks"])
    if case["kind"] == "hand":
        return any(n["inputs"] or (n["outputs"] and len(n["outputs"]) > 1) for n in case["nodes"])
    return any(n["inputs"] or n["num_outputs"] > 1 for n in case["nodes"])


def _static_kind(a):
    v = a[1]
    if v is None:
        return "none"
    return type(v).__name__


def _count(ctx, case, real):
    ctx.count("cases")
    ctx.count("kind:" + case["kind"])
    built = real["built"]
    if built.get("gateway"):
        ctx.count("via_gateway:" + built["gateway"])
        ctx.count("via_gateway_json_native_statics:%s" % bool(built.get("gateway_expect_file")))
    if built["lower_error"]:
        ctx.count("lower_error:" + built["lower_error"])
    if built.get("yield_refs"):
        ctx.count("yields_dimension_elements_compared_with_refOf", len(built["yield_refs"]))
    if built.get("static_string_equals_input_name"):
        ctx.count("static_string_equals_input_name", built["static_string_equals_input_name"])
    by_key = {}
    for name, sp in built["spec"].items():
        n = len(sp["outs"])
        ctx.count("tasks")
        ctx.count("outputs:" + ("1" if n == 1 else "2-10" if n <= 10 else "11-14"))
        ctx.count("arity:%d" % min(len(sp["args"]), 7))
        ups = [a for a in sp["args"] if a[0] == "up"]
        for a in list(sp["args"]) + list(sp["kwargs"].values()):
            if a[0] == "static":
                ctx.count("static:" + _static_kind(a))
        if ups:
            ctx.count("tasks_with_upstream_args")
        if len({(a[1], a[2]) for a in ups}) < len(ups):
            ctx.count("tasks_same_dataset_twice")
        if len({a[1] for a in ups}) < len(ups):
            ctx.count("tasks_two_edges_same_parent")
        if sp["kwargs"]:
            ctx.count("tasks_with_kwargs")
        beh = sp["beh"]
        for v in beh.get("vals") or []:
            pv = R.dec(v)
            tn = "None" if pv is None else type(pv).__name__
            if isinstance(pv, (list, tuple, dict, str, bytes)) and len(pv) == 0:
                tn = "empty-" + tn
            elif isinstance(pv, tuple) and any(isinstance(x, tuple) for x in pv):
                tn = "nested-tuple"
            ctx.count("task_result_value:%s:%s" % ("returned" if beh["kind"] == "ret" else "yielded", tn))
        if beh.get("vals") is not None and any(a[0] == "up" and a[1] == name for o in built["spec"].values()
                                               for a in list(o["args"]) + list(o["kwargs"].values())):
            ctx.count("task_with_non_token_result_has_consumers")
        npl = len(sp["parents"])
        if npl >= 10:
            ctx.count("tasks_with_10-13_inputs:" + case["kind"])
        import re as _re
        for a in sp["args"]:
            if a[0] == "static" and isinstance(a[1], str) and _re.search(r"input\d", a[1]):
                m = _re.fullmatch(r"input(\d+)", a[1])
                ctx.count("static_string_%s_an_input_name" % ("is_like" if m else "contains"))
        if beh["kind"] in ("gen", "genraise") and n > 1:
            d = beh["m"] - n
            ctx.count("%s_yield_delta:%+d" % (beh["kind"], max(-3, min(3, d))))
        else:
            ctx.count("beh:%s%s" % (beh["kind"], "-multi" if n > 1 else ""))
        if case["kind"] == "hand":
            by_key.setdefault(sp["key"], []).append(sp["outs"])
    for outs in by_key.values():
        if len(outs) > 1:
            ctx.count("hand_callable_shared")
            if any(len(a) == len(b) and a != b and len(a) > 1 for a in outs for b in outs):
                ctx.count("hand_callable_shared_same_count_other_output_names")
    if case["kind"] == "job":
        for t in case["tasks"]:
            ctx.count("task_callable_named_by:" + {None: "func", "entrypoint": "entrypoint_only(resolve_callable)",
                                                    "both": "func_and_entrypoint"}[t.get("entry")])
    for nd in case.get("nodes") or []:
        for a in nd.get("args") or []:
            if isinstance(a, dict) and "ph" in a and a["ph"][:5] == "input" and a["ph"][5:].isdigit() and int(a["ph"][5:]) >= 9:
                ctx.count("explicit_placeholder_input9-12")
    for pl in case.get("payloads") or []:
        for a in pl.get("args") or []:
            if isinstance(a, dict) and "ph" in a and a["ph"][5:].isdigit() and int(a["ph"][5:]) >= 9:
                ctx.count("explicit_placeholder_input9-12")
    for run in real["runs"].values():
        ctx.count("run_error:%s" % run["error"])
        if not run["started"]:
            ctx.count("task_not_started_after_failure_in_sequence")
    spec = built["spec"]
    for si, mo in real.get("memops") or []:
        ctx.count("memory_op_between_sequences:%s:%s" % (mo["kind"], "error" if isinstance(mo["result"], str) else "ok"))
    for sq in real["seqs"]:
        ctx.count("sequence_size:%d" % len(sq["tids"]))
        pub = {(t, o) for t, o in sq["publish"]}
        for t in sq["tids"]:
            if not sq["tasks"][t]["started"] or t not in spec:
                continue
            for a in list(spec[t]["args"]) + list(spec[t]["kwargs"].values()):
                if a[0] == "up" and a[1] in sq["tids"] and a[1] in spec:
                    o = spec[a[1]]["outs"][_out_index(spec, a[1], a[2])]
                    ctx.count("intra_sequence_read:" + ("published" if (a[1], o) in pub else "UNPUBLISHED_from_local"))
    if case["kind"] == "fprog":
        left = {d: n for d, n in zip("xy", case["dims"])}
        for stp in case["steps"]:
            if stp["op"] == "reduce":
                n, b = left.pop(stp["dim"]), stp["batch"]
                if 1 < b < n:
                    ctx.count("fprog_batched_reduce")
                    ctx.count("fprog_batched_reduce:" + ("multiple" if n % b == 0 else "remainder-1" if n % b == 1 else "remainder>=2"))
                else:
                    ctx.count("fprog_unbatched_reduce")
            else:
                ctx.count("fprog_map")
        by_key = {}
        for sp in built["spec"].values():
            by_key.setdefault(sp["key"], set()).add(len(sp["parents"]))
        if any(len(v) > 1 for v in by_key.values()):
            ctx.count("fprog_one_payload_nodes_of_different_arity")
    if case["kind"] == "fluent":
        for nd in case["nodes"]:
            if nd.get("reuse") is not None:
                ctx.count("fluent_payload_object_reused")
                if len(nd["inputs"]) < len(case["nodes"][nd["reuse"]]["inputs"]):
                    ctx.count("fluent_payload_object_reused_with_fewer_inputs")


_REPORTED = {}
_GATEWAY = {}
_STATS = {}


def _evaluate(ctx, cases, check_model=True):
    from ekw.core import lean_drive
    all_lines, all_expect = [], []
    for case in cases:
        real = run_real(case)
        ctx.case(case if len(json.dumps(case)) < 3000 else {"kind": case["kind"], "truncated": True}, nontrivial=_nontrivial(case))
        _count(ctx, case, real)
        _STATS.clear()
        verdicts = oracle(case, real)
        for k in list(_STATS):
            ctx.count(k, _STATS.pop(k))
        for sig, what in verdicts:
            key = json.dumps(sig, sort_keys=True)
            ctx.count("oracle_violation:" + sig["kind"])
            if key in _REPORTED.setdefault(id(ctx), set()):
                continue         # one (shrunk) witness per kind of failure and run
            _REPORTED[id(ctx)].add(key)
            small = shrink(case, sig)
            w2 = [w for s, w in oracle(small, run_real(small)) if s == sig]
            ctx.violation(sig, small, (w2 or [what])[0])
        gw = real["built"].get("gateway")
        if gw is not None:
            tally = _GATEWAY.setdefault(id(ctx), {"attempts": 0, "file": 0, "native": 0, "native_fallback": 0})
            tally["attempts"] += 1
            tally["file"] += gw == "file"
            if real["built"].get("gateway_expect_file"):
                tally["native"] += 1
                tally["native_fallback"] += gw != "file"
        if check_model:
            lines, expect, where = model_lines(case, real)
            for l, e, w in zip(lines, expect, where):
                all_lines.append(json.dumps(l))
                all_expect.append((case, l, e, w))
    tally = _GATEWAY.get(id(ctx))
    if tally and tally["attempts"] >= 20:
        # floor under the job-file path: a fallback to the in-memory job is only legitimate for static values JSON cannot
        # carry; more than 20 % fallbacks among the JSON-native jobs, or fewer than 40 % files overall, means the
        # file stage is (being) switched off: a failure of the harness, not a quiet pass
        if tally["native"] and tally["native_fallback"] > 0.2 * tally["native"]:
            ctx.disagree("gateway-job-file-path-floor", tally, "at most 20% fallbacks among jobs with JSON-native statics", tally)
        elif tally["file"] < 0.4 * tally["attempts"]:
            ctx.disagree("gateway-job-file-path-floor", tally, "at least 40% of the via_gateway jobs travel as a file", tally)
    if check_model and all_lines:
        res = lean_drive("C10", all_lines)
        if len(res) != len(all_lines):
            ctx.disagree("driver-output-length", {"lines": len(all_lines)}, len(res), len(all_lines))
            return
        reported = 0
        for out, (case, l, e, w) in zip(res, all_expect):
            if w == "runner.run":
                ctx.traces += 1
            m = _canon_model(json.loads(out))
            if m != e and reported < 20:
                reported += 1
                ctx.disagree(w, {"case": case, "line": l}, m, e)


def _corpus():
    from ekw.core import CORPUS_DIR
    out = []
    for f in sorted(glob.glob(str(CORPUS_DIR / "C10_*.json"))):
        d = json.load(open(f))
        out.append(d.get("case", d))
    return out


def correspond(ctx):
    n = ctx.budget(420, 12000)
    cases = _corpus() + fprog_sweep(ctx.rng)
    for _ in range(n):
        cases.append(gen_case(ctx.rng))
    _evaluate(ctx, cases)


def oracle_only(ctx):
    cases = _corpus() + fprog_sweep(ctx.rng) + [gen_case(ctx.rng) for _ in range(ctx.budget(420, 12000))]
    _evaluate(ctx, cases, check_model=False)


def search(ctx, why):
    """(P) or (T) broken: look for a failing input on the real code with a larger budget (oracle only); the inputs of
    disagreeing lines were already evaluated by the oracle in `correspond`."""
    if ctx.violations:
        return
    cases = fprog_sweep(ctx.rng) + [gen_case(ctx.rng) for _ in range(ctx.budget(1500, 20000))]
    _evaluate(ctx, cases, check_model=False)


def replay(payload):
    case = payload["case"]
    real = run_real(case)
    print("case:", json.dumps(case))
    print("lowered:", json.dumps(real["lower"]))
    for sq in real["seqs"]:
        print("sequence", sq["tids"], "publish", sq["publish"], "failed", sq["failed"], "memory after", sq["after"])
    for name, run in real["runs"].items():
        print("task", name, "started", run["started"], "received", run["received"], "handled", run["handled"], "stored", run["stored"], "error", run["error"],
              "published", [e[1] for e in run["events"]], "completion", run["completion"])
    fails = oracle(case, real)
    for sig, what in fails:
        print("oracle:", sig, what)
    if not fails:
        print("oracle: ok")
    return 1 if fails else 0
