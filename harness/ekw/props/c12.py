"""C12 — serialising a graph and reading it back gives an equal graph, nothing lost.

Tie: the real serialise / deserialise / to_json / from_json (graph/export.py) and
Cascade.serialise / Cascade.from_serialised (dill file) against Model/Export.lean on random DAGs
and on graphs built by random fluent programs: reachable node set, serialised dict, its JSON image,
the round-tripped node records, the sinks chosen by deserialise, Graph.__eq__ both ways; plus
deserialise on hand-damaged dicts (missing parent entry -> KeyError, missing output -> AttributeError).
Oracle: from the property text only: after each round trip (dict, JSON, file) the result, traversed
by the oracle's own walk from the result's sinks, has exactly the original's nodes with the same
outputs, inputs and payloads (JSON: for payloads JSON represents faithfully), and `==` holds.
"""
import functools
import glob
import json
import os
import tempfile

PROPERTY = "C12"
LEVEL_TEXT = ("Lean theorems over Model/Export.lean (Node.serialise/Output.serialise, serialise, deserialise incl. the choice of sinks, JSON "
              "normalisation, Graph.__eq__): for every graph with unique names given as the topologically ordered list of its nodes - any number "
              "of nodes, sinks, multi-output nodes, shared parents, terminal nodes with or without outputs, the empty graph - deserialise(serialise g) "
              "succeeds, rebuilds exactly the node records (names, outputs, inputs, payloads), all of them reachable from the chosen sinks, and is == g "
              "in both directions; through JSON the same with tuple payloads read back as lists, hence identical and == for JSON-faithful payloads. "
              "Unbounded in graph size and payload depth; tied to the real export functions by a correspondence check on random DAGs and fluent graphs.")
LEVEL_NOTE = ("modelled, not verified: graph/export.py serialise/deserialise/to_json/from_json, nodes.py Node.serialise/Output.serialise, graph.py "
              "Graph.__eq__. Graph.nodes() is modelled by its result set (reachability sweep over a topological order); DFS order, "
              "graphlib.TopologicalSorter order and dict order are not modelled (nothing in the property depends on them; results are compared sorted by "
              "name). Object identity is a name (the property's unique-names hypothesis). json and dill are trusted; the dill file path "
              "(Cascade.serialise/from_serialised) and payloads holding callables (fluent graphs) are sampled, callables being opaque atoms in the model.")
TECHNIQUE = "Lean 4 proof (induction over the topological node list; reachability of every node from the terminal nodes) + differential correspondence with the real export functions"
LEAN_PROPS = ["EkwVerif.Props.C12"]
LEAN_DRIVERS = ["C12"]
RULE = ("random DAG specs of 0-12 nodes (default-output, output-less and multi-output nodes; 0-3 inputs each from any earlier node's outputs, so "
        "parents are shared; odd names; in 55% of the specs node names, output names and input-parameter names come from ONE pool of 26 names "
        "(incl. '0' = DEFAULT_OUTPUT, '1', '__default__', dotted 'stats.mean' next to 'stats'/'mean', prefixes/suffixes 'n','n1','n10'), node "
        "names being preferably the output names earlier nodes declare and references preferring named outputs, names kept unique; payloads None/int/str/bool/list/tuple/dict nested to depth 3; sinks = all terminal nodes, a subset of them, "
        "or terminals plus inner nodes), graphs of random fluent programs (from_source with/without yields, map, sum/mean/max/min/prod with batching, "
        "add/multiply with scalar and action, select, concatenate, stack; single actions and Cascade.from_actions unions), and hand-damaged dicts. "
        "non-trivial = graph with >= 3 nodes having a terminal node with outputs or a multi-output parent; distinct by content hash")
ASSUMPTIONS = [
    "node names are unique and the graph is acyclic (the property's quantifier)",
    "payload universe of the model: None, bool, int, str, list, tuple, dict with string keys; callables in fluent payloads are opaque atoms",
    "dill round-trips module-level functions by reference (trusted); floats are not generated",
]

D = "0"


# ----------------------------------------------------------------------------- payload coding

def tag(p):
    """Python payload -> tagged JSON form understood by the Lean driver."""
    if p is None:
        return {"t": "none"}
    if isinstance(p, bool):
        return {"t": "bool", "v": p}
    if isinstance(p, int):
        return {"t": "int", "v": p}
    if isinstance(p, str):
        return {"t": "str", "v": p}
    if isinstance(p, list):
        return {"t": "list", "v": [tag(x) for x in p]}
    if isinstance(p, tuple):
        return {"t": "tuple", "v": [tag(x) for x in p]}
    if isinstance(p, dict):
        return {"t": "dict", "v": [[str(k), tag(v)] for k, v in p.items()]}
    if callable(p):
        return {"t": "str", "v": "<callable %s>" % getattr(p, "__qualname__", type(p).__name__)}
    try:
        import numpy as np
        if isinstance(p, np.integer):
            return {"t": "int", "v": int(p)}
    except Exception:
        pass
    return {"t": "str", "v": "<%s %s>" % (type(p).__name__, str(p)[:40])}


def untag(t):
    k = t["t"]
    if k == "none":
        return None
    if k in ("bool", "int", "str"):
        return t["v"]
    if k == "list":
        return [untag(x) for x in t["v"]]
    if k == "tuple":
        return tuple(untag(x) for x in t["v"])
    return {a: untag(b) for a, b in t["v"]}


def tag_ref(r):
    if isinstance(r, str):
        return r
    return {"t": "tuple" if isinstance(r, tuple) else "list", "v": list(r)}


# ----------------------------------------------------------------------------- generators

def gen_payload(rng, depth=0):
    x = rng.random()
    if depth == 0 and x < 0.3:
        return None
    if x < 0.45 or depth >= 3:
        return rng.choice([0, 1, 7, -2, "s", "input0", "", True, False, None])
    if x < 0.65:
        return [gen_payload(rng, depth + 1) for _ in range(rng.randint(0, 3))]
    if x < 0.85:
        return tuple(gen_payload(rng, depth + 1) for _ in range(rng.randint(0, 3)))
    return {rng.choice(["k", "a", "b", "0"]): gen_payload(rng, depth + 1) for _ in range(rng.randint(0, 2))}


# one small pool for the three namespaces (node names, output names, input-parameter names): a node may be called like
# an output of another node, like one of its own outputs or parameters, like a serialised reference "parent.output",
# like a prefix / suffix of another name, or like the default output
POOL = ["0", "1", "2", "x", "y", "out", "aux", "a", "b", "in", "input0", "input1", "mean", "std", "stats", "__default__",
        "a.b", "x.y", "stats.mean", "in0", "n", "n1", "n10", "ab", "0.1", "00"]
_NOT_A_PARAM = {"name", "outputs", "payload", "self"}        # parameter names of Node.__init__ itself


def _node_name(rng, i, used, earlier_outs, collide):
    if not collide:
        nm = rng.choice(["0", "x.y", "a b", "n", "name-1", "Ω"]) if rng.random() < 0.1 else "n%d" % i
    else:
        r = rng.random()
        cands = []
        if r < 0.4:                                   # the name of an output some earlier node declares
            cands = sorted({o for o in earlier_outs if o not in used})
        if not cands and r < 0.85:
            cands = [p for p in POOL if p not in used]
        if cands:
            nm = rng.choice(cands)
        elif used:                                    # prefix / suffix / dotted extension of an existing name
            base = rng.choice(used)
            nm = rng.choice([base + ".0", base + "0", base[:-1] or "n", "0" + base, base + "." + rng.choice(POOL), base + "."])
        else:
            nm = rng.choice(POOL)
    while nm in used:
        nm += "'"
    return nm


def gen_spec(rng, maxn):
    n = rng.choice([0, 1, 2]) if rng.random() < 0.08 else rng.randint(2, maxn)
    collide = rng.random() < 0.55
    names = []
    nodes = []
    for i in range(n):
        names.append(_node_name(rng, i, names, [o for p in nodes for o in p["outputs"]], collide))
        x = rng.random()
        if x < (0.4 if collide else 0.5):
            outputs = [D]
        elif x < (0.5 if collide else 0.62):
            outputs = []
        elif collide:
            # output names from the pool and from the names of the nodes (this one's too)
            outputs = rng.sample(sorted(set(POOL) | set(names)), rng.randint(1, 3))
        else:
            outputs = rng.choice([["x", "y"], ["0", "1", "2"], ["out"], ["0", "aux"], ["b", "a"]])
        cands = [(p["name"], o) for p in nodes for o in p["outputs"]]
        inputs = []
        if cands:
            k = rng.choice([0, 1, 1, 2, 2, 3])
            if collide:
                ipool = sorted((set(POOL) | set(names) | {o for _, o in cands}) - _NOT_A_PARAM)
            else:
                ipool = ["input0", "input1", "a", "b", "in"]
            named = [c for c in cands if c[1] != D]
            for iname in rng.sample(ipool, k):
                if collide and named and rng.random() < 0.45:   # a reference that is serialised with the output's name
                    par, out = rng.choice(named)
                elif rng.random() < 0.6:          # prefer recent nodes: deeper graphs
                    par, out = rng.choice(cands[-4:])
                else:
                    par, out = rng.choice(cands)
                inputs.append([iname, par, out])
        nodes.append({"name": names[i], "outputs": outputs, "dflt": outputs == [D] and rng.random() < 0.5,
                      "payload": tag(gen_payload(rng)), "inputs": inputs})
    consumed = {i[1] for nd in nodes for i in nd["inputs"]}
    terminal = [nd["name"] for nd in nodes if nd["name"] not in consumed]
    x = rng.random()
    if x < 0.7 or not terminal:
        sinks = list(terminal)
    elif x < 0.85:
        sinks = rng.sample(terminal, rng.randint(1, len(terminal)))
    else:
        inner = [nd["name"] for nd in nodes if nd["name"] in consumed]
        sinks = list(terminal) + rng.sample(inner, min(len(inner), rng.randint(1, 2)))
    rng.shuffle(sinks)
    return {"kind": "dag", "nodes": nodes, "sinks": sinks}


# functions used by fluent programs: module level, so that dill pickles them by reference
def c12_src(*a):
    return list(a)


def c12_f1(x, k=1):
    return x


def c12_f2(x, y=None, *, tag=""):
    return x


def gen_fluent(rng):
    nd = rng.choice([1, 2, 2])
    shape = [rng.randint(1, 3) for _ in range(nd)]
    steps = []
    for _ in range(rng.randint(1, 5)):
        x = rng.random()
        dim = "d%d" % rng.randrange(nd)
        if x < 0.25:
            steps.append(["map", rng.choice(["f1", "f2", "f1kw"])])
        elif x < 0.55:
            steps.append([rng.choice(["sum", "mean", "max", "min", "prod"]), dim, rng.choice([0, 0, 2, 3])])
        elif x < 0.7:
            steps.append([rng.choice(["add", "multiply", "subtract"]), rng.choice([3, "self", "base"])])
        elif x < 0.8:
            steps.append(["select", dim, 0])
        elif x < 0.9:
            steps.append([rng.choice(["concatenate", "stack"]), dim])
        else:
            steps.append(["map", "f2"])
    return {"kind": "fluent", "shape": shape, "yields": rng.choice([0, 0, 2, 3]), "steps": steps,
            "union": rng.random() < 0.4, "salt": rng.randint(0, 9)}


def build_fluent(desc):
    """Run the fluent program on the real API; steps that the API rejects are skipped (deterministically)."""
    import numpy as np
    from earthkit.workflows import Cascade
    from earthkit.workflows.fluent import Payload, from_source
    shape = tuple(desc["shape"])
    dims = ["d%d" % i for i in range(len(shape))]
    arr = np.empty(shape, dtype=object)
    for idx in np.ndindex(*shape):
        arr[idx] = functools.partial(c12_src, desc["salt"], *idx)
    coords = {d: list(range(s)) for d, s in zip(dims, shape)}
    if desc["yields"]:
        base = from_source(arr, yields=("y", list(range(desc["yields"]))), dims=dims, coords=coords)
    else:
        base = from_source(arr, dims=dims, coords=coords)
    cur = base
    acts = [base]
    applied = []
    for st in desc["steps"]:
        try:
            if st[0] == "map":
                pl = {"f1": c12_f1, "f2": Payload(c12_f2, ["input0", (1, "t")], {"tag": "k"}), "f1kw": Payload(c12_f1, kwargs={"k": 2})}[st[1]]
                nxt = cur.map(pl)
            elif st[0] in ("sum", "mean", "max", "min", "prod"):
                nxt = getattr(cur, st[0])(st[1], batch_size=st[2])
            elif st[0] in ("add", "multiply", "subtract"):
                other = {"self": cur, "base": base}.get(st[1], st[1])
                nxt = getattr(cur, st[0])(other)
            elif st[0] == "select":
                nxt = cur.select({st[1]: st[2]})
            else:
                nxt = getattr(cur, st[0])(st[1])
            cur = nxt
            acts.append(cur)
            applied.append(st[0])
        except Exception:
            continue
    if desc["union"] and len(acts) > 1:
        g = Cascade.from_actions([acts[len(acts) // 2], cur])._graph
    else:
        g = cur.graph()
    return g, applied


# ----------------------------------------------------------------------------- real side

def build_real(spec):
    from earthkit.workflows.graph import Graph, Node
    objs = {}
    for nd in spec["nodes"]:
        ins = {}
        for iname, par, out in nd["inputs"]:
            ins[iname] = objs[par].get_output() if (out == D and len(iname) % 2 == 0) else objs[par].get_output(out)
        if nd.get("dflt"):
            objs[nd["name"]] = Node(nd["name"], payload=untag(nd["payload"]), **ins)
        else:
            objs[nd["name"]] = Node(nd["name"], list(nd["outputs"]), untag(nd["payload"]), **ins)
    return Graph([objs[s] for s in spec["sinks"]])


def walk(sinks):
    """The oracle's own traversal: every node object reachable from the sinks, parents first.
    Returns (records by name, list of duplicate names)."""
    seen = {}
    order = []
    dups = []
    stack = [(s, False) for s in reversed(list(sinks))]
    while stack:
        node, done = stack.pop()
        if done:
            order.append(node)
            continue
        if id(node) in seen:
            continue
        seen[id(node)] = node
        stack.append((node, True))
        for src in node.inputs.values():
            if id(src.parent) not in seen:
                stack.append((src.parent, False))
    recs = {}
    for n in order:
        if n.name in recs:
            dups.append(n.name)
        recs[n.name] = {"name": n.name, "outputs": list(n.outputs), "payload": n.payload,
                        "inputs": {k: (v.parent.name, v.name) for k, v in n.inputs.items()}}
    return recs, order, dups


def spec_of_graph(g, desc):
    """Topologically ordered spec of a real graph (used for fluent graphs)."""
    recs, order, dups = walk(g.sinks)
    nodes = [{"name": n.name, "outputs": list(n.outputs), "payload": tag(n.payload),
              "inputs": [[k, v.parent.name, v.name] for k, v in n.inputs.items()]} for n in order]
    return {"kind": "fluent", "desc": desc, "nodes": nodes, "sinks": [s.name for s in g.sinks]}


def canon_node(name, outputs, payload, inputs):
    return {"name": name, "outputs": list(outputs), "payload": payload, "inputs": sorted([list(i) for i in inputs])}


def canon_graph_real(g):
    return sorted([canon_node(n.name, n.outputs, tag(n.payload), [[k, v.parent.name, v.name] for k, v in n.inputs.items()])
                   for n in g.nodes()], key=lambda r: r["name"])


def canon_ser_real(d):
    out = []
    for name, e in d.items():
        out.append([name, {"outputs": list(e.get("outputs", [])),
                           "inputs": sorted([[k, tag_ref(r)] for k, r in e.get("inputs", {}).items()], key=lambda x: x[0]),
                           "payload": tag(e["payload"]) if "payload" in e else None}])
    return sorted(out, key=lambda x: x[0])


def canon_ser_model(l):
    return sorted([[name, {"outputs": e["outputs"], "inputs": sorted(e["inputs"], key=lambda x: x[0]), "payload": e["payload"]}] for name, e in l],
                  key=lambda x: x[0])


def canon_round_model(r, with_eq=True):
    if not r["ok"]:
        return {"ok": False, "err": r["err"]}
    out = {"ok": True, "nodes": sorted([canon_node(n["name"], n["outputs"], n["payload"], n["inputs"]) for n in r["nodes"]], key=lambda x: x["name"]),
           "sinks": sorted(r["sinks"])}
    if with_eq:
        out["eq"], out["eq_rev"] = r["eq"], r["eq_rev"]
    return out


def round_real(g, fn, with_eq=True):
    try:
        r = fn()
    except Exception as e:
        return {"ok": False, "err": type(e).__name__}, None
    try:
        out = {"ok": True, "nodes": canon_graph_real(r), "sinks": sorted(s.name for s in r.sinks)}
        if with_eq:
            out["eq"], out["eq_rev"] = bool(r == g), bool(g == r)
    except Exception as e:
        return {"ok": False, "err": "after:" + type(e).__name__}, None
    return out, r


def _file_trip(g):
    from earthkit.workflows import Cascade
    with tempfile.TemporaryDirectory(prefix="ekw_c12_") as d:
        path = os.path.join(d, "graph.dill")
        Cascade(g).serialise(path)
        return Cascade.from_serialised(path)._graph


def jsonable(p):
    if p is None or isinstance(p, (bool, int, str)):
        return True
    if isinstance(p, (list, tuple)):
        return all(jsonable(x) for x in p)
    if isinstance(p, dict):
        return all(isinstance(k, str) and jsonable(v) for k, v in p.items())
    return False


def faithful(p):
    """JSON represents p faithfully: reading it back gives an equal value (no tuples, string keys)."""
    if p is None or isinstance(p, (bool, int, str)):
        return True
    if isinstance(p, list):
        return all(faithful(x) for x in p)
    if isinstance(p, dict):
        return all(isinstance(k, str) and faithful(v) for k, v in p.items())
    return False


def oracle_compare(path, orig_sinks, res_graph, need_payload):
    """Property text: same nodes, outputs, inputs, payloads, nothing lost; and `==`."""
    a, _, _ = walk(orig_sinks)
    b, _, dups = walk(res_graph.sinks)
    lost = sorted(set(a) - set(b))
    if lost:
        return ({"kind": "nodes-lost", "path": path}, f"{path} round trip lost {len(lost)} of {len(a)} nodes: {lost[:6]}")
    extra = sorted(set(b) - set(a))
    if extra or dups:
        return ({"kind": "nodes-added", "path": path}, f"{path} round trip produced nodes not in the original: {extra[:6]} duplicates {dups[:6]}")
    for name, ra in a.items():
        rb = b[name]
        if ra["outputs"] != rb["outputs"]:
            return ({"kind": "outputs-differ", "path": path}, f"{path}: node {name!r} outputs {ra['outputs']} came back as {rb['outputs']}")
        if ra["inputs"] != rb["inputs"]:
            return ({"kind": "inputs-differ", "path": path}, f"{path}: node {name!r} inputs {ra['inputs']} came back as {rb['inputs']}")
        if need_payload(ra["payload"]):
            same = ra["payload"] == rb["payload"] and tag(ra["payload"]) == tag(rb["payload"])
            if not same:
                return ({"kind": "payload-differs", "path": path}, f"{path}: node {name!r} payload {ra['payload']!r} came back as {rb['payload']!r}")
    return None


def run_case(spec, g=None):
    """Real side of one graph case. Returns (impl outputs for the model comparison, oracle failure or None)."""
    from earthkit.workflows.graph import deserialise, from_json, serialise, to_json
    fail = None
    impl = {}
    try:
        if g is None:
            g = build_real(spec)
        impl["reach"] = sorted(n.name for n in g.nodes())
        impl["ser"] = canon_ser_real(serialise(g))
    except Exception as e:
        return {"crash": type(e).__name__ + ": " + str(e)[:100]}, ({"kind": "serialise-crash"}, f"serialise raised {type(e).__name__}: {e}")
    fluent = spec["kind"] == "fluent"
    recs, _, _ = walk(g.sinks)
    all_faithful = all(faithful(r["payload"]) for r in recs.values())
    paths = [("dict", lambda: deserialise(serialise(g)), lambda p: True),
             ("file", lambda: _file_trip(g), lambda p: True)]
    if not fluent:
        paths.insert(1, ("json", lambda: from_json(to_json(g)), faithful))
        try:
            impl["json_ser"] = canon_ser_real(json.loads(to_json(g)))
        except Exception as e:
            impl["json_ser"] = "crash:" + type(e).__name__
    for path, fn, need in paths:
        out, r = round_real(g, fn)
        impl[path] = out
        if fail is not None:
            continue
        if not out["ok"]:
            fail = ({"kind": "roundtrip-crash", "path": path, "exc": out["err"]}, f"{path} round trip raised {out['err']}")
            continue
        fail = oracle_compare(path, g.sinks, r, need)
        if fail is None and (path != "json" or all_faithful) and not (out["eq"] and out["eq_rev"]):
            fail = ({"kind": "not-equal", "path": path}, f"{path} round trip: result == original is {out['eq']}, original == result is {out['eq_rev']}")
    return impl, fail


def model_line(spec):
    return json.dumps({"op": "graph", "sinks": spec["sinks"],
                       "nodes": [{"name": n["name"], "outputs": n["outputs"], "payload": n["payload"], "inputs": n["inputs"]} for n in spec["nodes"]]})


def compare_graph(ctx, spec, impl, mo):
    if "crash" in impl:
        ctx.disagree("serialise", {"spec": spec}, "no exception", impl["crash"])
        return
    checks = [("reach", sorted(mo["reach"]), impl["reach"]), ("serialise", canon_ser_model(mo["ser"]), impl["ser"]),
              ("dict-roundtrip", canon_round_model(mo["dict"]), impl["dict"]), ("file-roundtrip", canon_round_model(mo["dict"]), impl["file"])]
    if "json" in impl:
        checks += [("to_json", canon_ser_model(mo["json_ser"]), impl["json_ser"]), ("json-roundtrip", canon_round_model(mo["json"]), impl["json"])]
    for where, m, i in checks:
        if m != i:
            ctx.disagree(where, {"spec": spec}, m, i)
            return


# ----------------------------------------------------------------------------- damaged dicts

def gen_damage(rng, spec):
    """A serialised dict of `spec` (in spec order) with at most one defect."""
    reach = None
    entries = []
    for n in spec["nodes"]:
        e = {"outputs": list(n["outputs"]), "inputs": [[i[0], i[1] if i[2] == D else {"t": rng.choice(["tuple", "list"]), "v": [i[1], i[2]]}] for i in n["inputs"]],
             "payload": None if n["payload"]["t"] == "none" else n["payload"]}
        entries.append([n["name"], e])
    x = rng.random()
    what = "intact"
    consumed = [i[1] for n in spec["nodes"] for i in n["inputs"]]
    if x < 0.35 and consumed:
        victim = rng.choice(consumed)
        entries = [e for e in entries if e[0] != victim]
        # entries that consumed nothing else stay; the victim's own parents stay
        what = "missing-entry"
    elif x < 0.7 and consumed:
        cands = [(k, j) for k, e in enumerate(entries) for j, i in enumerate(e[1]["inputs"])]
        k, j = rng.choice(cands)
        par = entries[k][1]["inputs"][j][1]
        par = par if isinstance(par, str) else par["v"][0]
        entries[k][1]["inputs"][j][1] = {"t": "tuple", "v": [par, "no_such_output"]}
        what = "missing-output"
    order = list(range(len(entries)))
    rng.shuffle(order)
    return {"kind": "damage", "what": what, "data": entries, "order": order}


def run_damage(case):
    from earthkit.workflows.graph import deserialise
    data = {}
    for k in case["order"]:
        name, e = case["data"][k]
        d = {"outputs": list(e["outputs"]), "inputs": {i[0]: (i[1] if isinstance(i[1], str) else (tuple(i[1]["v"]) if i[1]["t"] == "tuple" else list(i[1]["v"]))) for i in e["inputs"]}}
        if e["payload"] is not None:
            d["payload"] = untag(e["payload"])
        data[name] = d
    out, _ = round_real(None, lambda: deserialise(data), with_eq=False)
    return out


# ----------------------------------------------------------------------------- check

def _nontrivial(spec):
    consumed = {i[1] for n in spec["nodes"] for i in n["inputs"]}
    term_out = any(n["name"] not in consumed and n["outputs"] for n in spec["nodes"])
    multi = any(len(n["outputs"]) > 1 and n["name"] in consumed for n in spec["nodes"])
    return len(spec["nodes"]) >= 3 and (term_out or multi)


def _account(ctx, spec, impl):
    ctx.count("graphs:" + spec["kind"])
    ctx.count("nodes", len(spec["nodes"]))
    consumed = {i[1] for n in spec["nodes"] for i in n["inputs"]}
    for n in spec["nodes"]:
        term = n["name"] not in consumed
        ctx.count("node:" + ("terminal" if term else "inner") + ("-no-outputs" if not n["outputs"] else ("-multi-output" if len(n["outputs"]) > 1 else "-one-output")))
        ctx.count("payload:" + n["payload"]["t"])
        for i in n["inputs"]:
            ctx.count("input:" + ("default-output" if i[2] == D else "named-output"))
    if spec["kind"] == "dag":
        node_names = {n["name"] for n in spec["nodes"]}
        out_names = {o for n in spec["nodes"] for o in n["outputs"]}
        ref_outs = {i[2] for n in spec["nodes"] for i in n["inputs"] if i[2] != D}
        par_names = {i[0] for n in spec["nodes"] for i in n["inputs"]}
        if node_names & out_names:
            ctx.count("graphs-node-named-like-an-output")
        if any(n["name"] not in consumed and n["name"] in ref_outs for n in spec["nodes"]):
            ctx.count("graphs-terminal-node-named-like-a-referenced-output")
        if any(n["name"] in consumed and n["name"] in ref_outs for n in spec["nodes"]):
            ctx.count("graphs-inner-node-named-like-a-referenced-output")
        if node_names & par_names:
            ctx.count("graphs-node-named-like-an-input-parameter")
        if any(a != b and (a.startswith(b) or a.endswith(b)) for a in node_names for b in node_names if b):
            ctx.count("graphs-node-name-prefix-or-suffix-of-another")
        if any(n["name"] in n["outputs"] for n in spec["nodes"]):
            ctx.count("graphs-node-named-like-its-own-output")
        if any("%s.%s" % (i[1], i[2]) in node_names for n in spec["nodes"] for i in n["inputs"]):
            ctx.count("graphs-node-named-parent.output-of-a-reference")
    if not spec["nodes"]:
        ctx.count("empty-graph")
    if len(spec["sinks"]) > 1:
        ctx.count("graphs-with-several-sinks")
    if "reach" in impl and len(impl["reach"]) < len(spec["nodes"]):
        ctx.count("graphs-with-unreachable-spec-nodes")
    shared = [p for p in consumed if sum(1 for n in spec["nodes"] for i in n["inputs"] if i[1] == p) > 1]
    if shared:
        ctx.count("graphs-with-shared-parents")


def shrink_spec(spec, pred):
    """Drop nodes (with everything depending on them) while the failure persists."""
    cur = spec
    changed = True
    while changed:
        changed = False
        for k in range(len(cur["nodes"]) - 1, -1, -1):
            victim = cur["nodes"][k]["name"]
            gone = {victim}
            nodes = []
            for n in cur["nodes"]:
                if n["name"] in gone or any(i[1] in gone for i in n["inputs"]):
                    gone.add(n["name"])
                else:
                    nodes.append(n)
            sinks = [s for s in cur["sinks"] if s not in gone]
            if not sinks:                         # the only sink went: the remaining terminal nodes take over
                used = {i[1] for n in nodes for i in n["inputs"]}
                sinks = [n["name"] for n in nodes if n["name"] not in used]
            cand = {"kind": "dag", "nodes": nodes, "sinks": sinks}
            if nodes and sinks and pred(cand):
                cur, changed = cand, True
                break
    return cur


def _same(fail):
    def pred(spec):
        f = run_case(spec)[1]
        return f is not None and f[0] == fail[0]
    return pred


def _load_corpus():
    from ekw.core import CORPUS_DIR
    return [json.load(open(f))["spec"] for f in sorted(glob.glob(str(CORPUS_DIR / "C12_*.json")))]


def _cases(ctx, n_dag, n_fluent, n_damage, maxn):
    specs = _load_corpus()
    for _ in range(n_dag):
        specs.append(gen_spec(ctx.rng, maxn))
    graphs = [None] * len(specs)
    for _ in range(n_fluent):
        desc = gen_fluent(ctx.rng)
        try:
            g, applied = build_fluent(desc)
            spec = spec_of_graph(g, desc)
            for a in applied:
                ctx.count("fluent-op:" + a)
        except Exception as e:
            ctx.count("fluent-program-rejected:" + type(e).__name__)
            continue
        specs.append(spec)
        graphs.append(g)
    damages = [gen_damage(ctx.rng, gen_spec(ctx.rng, 7)) for _ in range(n_damage)]
    return specs, graphs, damages


def _run(ctx, specs, graphs, damages, compare=True):
    from ekw.core import lean_drive
    impls = []
    shrunk = set()
    for spec, g in zip(specs, graphs):
        impl, fail = run_case(spec, g)
        impls.append(impl)
        _account(ctx, spec, impl)
        ctx.case({"kind": spec["kind"], "n_nodes": len(spec["nodes"]), "sinks": spec["sinks"], "desc": spec.get("desc"),
                  "nodes": [[n["name"], n["outputs"], n["inputs"]] for n in spec["nodes"][:8]]}, nontrivial=_nontrivial(spec))
        if fail:
            key = json.dumps(fail[0], sort_keys=True)
            case = {"spec": spec}
            what = fail[1]
            if spec["kind"] == "dag" and key not in shrunk:
                shrunk.add(key)
                small = shrink_spec(spec, _same(fail))
                f2 = run_case(small)[1]
                case, what = {"spec": small}, (f2 or fail)[1]
            ctx.violation(fail[0], case, what)
    dam_out = []
    for c in damages:
        dam_out.append(run_damage(c))
        ctx.count("damaged-dict:" + c["what"])
        ctx.count("damaged-dict-result:" + (dam_out[-1]["err"] if not dam_out[-1]["ok"] else "ok"))
    if not compare:
        return
    lines = [model_line(s) for s in specs] + [json.dumps({"op": "deser", "data": c["data"]}) for c in damages]
    res = [json.loads(x) for x in lean_drive("C12", lines)]
    for spec, impl, mo in zip(specs, impls, res):
        ctx.traces += 1
        compare_graph(ctx, spec, impl, mo)
    for c, out, mo in zip(damages, dam_out, res[len(specs):]):
        ctx.traces += 1
        m = canon_round_model(mo["deser"], with_eq=False)
        if m != out:
            ctx.disagree("deserialise-damaged", {"damage": c}, m, out)


def correspond(ctx):
    specs, graphs, damages = _cases(ctx, ctx.budget(400, 15000), ctx.budget(60, 1500), ctx.budget(120, 3000), ctx.budget(10, 14))
    _run(ctx, specs, graphs, damages)


def oracle_only(ctx):
    specs, graphs, damages = _cases(ctx, ctx.budget(600, 15000), ctx.budget(60, 1500), 0, 12)
    _run(ctx, specs, graphs, [], compare=False)


def search(ctx, why):
    if ctx.violations:
        return
    specs = [d["case"]["spec"] for d in ctx.disagreements if isinstance(d.get("case"), dict) and "spec" in d["case"] and d["case"]["spec"]["kind"] == "dag"][:100]
    more, graphs, _ = _cases(ctx, ctx.budget(1500, 30000), ctx.budget(100, 2000), 0, 14)
    _run(ctx, specs + more, [None] * len(specs) + graphs, [], compare=False)


def replay(payload):
    spec = payload["case"]["spec"]
    g = None
    if spec["kind"] == "fluent":
        g, applied = build_fluent(spec["desc"])
        print("fluent program", spec["desc"], "applied", applied)
    for n in spec["nodes"]:
        print("node", n["name"], "outputs", n["outputs"], "inputs", n["inputs"], "payload", n["payload"])
    print("sinks", spec["sinks"])
    impl, fail = run_case(spec, g)
    for k in ("dict", "json", "file"):
        if k in impl:
            print(k, "->", json.dumps(impl[k])[:400])
    print("oracle:", fail)
    return 1 if fail else 0
