"""C12 — serialising a graph and reading it back gives an equal graph, nothing lost.

Translator `export_params`: graph/export.py + graph/nodes.py (ast, cross-checked with inspect.signature of the
imported functions) -> lean/EkwVerif/Gen/ExportParams.lean: the functions through which `deserialise` hands a
node's inputs on as **kwargs, with their keyword-bindable parameter names (an input of such a name makes the
call raise TypeError).  Props/C12 decides on that table that only names of `Node.__init__` are reserved.
Tie: the real serialise / deserialise / to_json / from_json (graph/export.py) and
Cascade.serialise / Cascade.from_serialised (dill file) against Model/Export.lean on random DAGs
and on graphs built by random fluent programs: reachable node set, serialised dict, its JSON image (or TypeError),
the round-tripped node records of the dict, JSON, file and inverting-node-factory paths, the sinks chosen by
deserialise, Graph.__eq__ both ways on every path; Graph.__eq__ both ways on a graph and a copy with ONE small change (payload,
outputs reversed / repeated / added, input renamed / rewired / dropped / reordered, node renamed, sink dropped, none) against the
model's graphEq and against the oracle's own comparison of nodes, outputs, inputs, payloads; plus deserialise on hand-damaged dicts (missing parent entry ->
KeyError, missing output -> AttributeError, input named like a parameter on the call path -> TypeError or success).
Opaque payload objects (functions, objects with a serialise() method) are numbered by IDENTITY per case, so that
the comparison sees whether the very same object, a copy, or another object came back.
Oracle: from the property text only: after each round trip (dict, JSON, file) the result, traversed
by the oracle's own walk from the result's sinks, has exactly the original's nodes with the same
outputs (as a list: order and repetitions), inputs (names, references, dict order) and payloads (same type, same value; JSON: for
payloads JSON represents faithfully), and `==` says what Python's own comparison of the payloads says (True when they all compare
equal, False when one differs; a comparison that raises with no differing payload must make `==` raise).  `==` itself is demanded
wherever the payloads' own `==` can hold across a copy; where it cannot although the payload IS the same (a NaN; a function the
file path re-creates) the outcome is measured (distribution keys measured:eq-false-by-python-semantics:*), not demanded: the
property's text defines equal as "same nodes, outputs, inputs and payloads".
"""
import functools
import glob
import json
import math
import os
import sys
import tempfile
import types

PROPERTY = "C12"
LEVEL_TEXT = ("Lean theorems over Model/Export.lean (Node.serialise incl. the payload's serialise() hook, Output.serialise, serialise, deserialise "
              "incl. the choice of sinks and the TypeError for inputs named like a keyword-bindable parameter on the call path, to_json/from_json "
              "incl. json's key and tuple normalisation and its TypeError, Cascade.serialise/from_serialised with dill as a parameter, Graph.__eq__ "
              "with Python's NaN and identity semantics): for every graph with unique names given as the topologically ordered list of its nodes "
              "- any number of nodes, sinks, multi-output nodes, shared parents, terminal nodes with or without outputs, any input names a node "
              "can have (e.g. 'data', 'node_factory'), the empty graph - each of the three round trips succeeds (JSON: iff json.dumps accepts the "
              "payloads), rebuilds every node record with its name, outputs and inputs and with the payload mapped by the path (dict: the "
              "payload itself, or the result of its serialise() method; JSON: that, normalised; file: that, through dill), all nodes reachable "
              "from the chosen sinks (c12_nothing_lost, c12_json, c12_file, all full strength), and `==` in either direction is EXACTLY the "
              "conjunction of the payload comparisons (c12_dict_exact and the same clauses of c12_json, c12_file). Hence identical records and "
              "`==` through JSON for JSON-faithful payloads (c12_json); through the dict unless a payload is a NaN or has a serialise() method "
              "(c12_dict_partial; both exclusions are needed: c12_dict_full_fails, c12_dict_hook_full_fails; a node factory that maps what comes "
              "back for every node to that node's payload - the object itself for a payload with serialise(), identity elsewhere - gives "
              "identical records and `==` unless a payload is a NaN: c12_hook_factory, with an instance); through the file when dill behaves structurally (dillPV) unless a payload holds a NaN or an object "
              "dill pickles by value, e.g. a lambda (c12_file_partial, c12_file_full_fails). c12_reserved_subset is decided on the table "
              "generated from the source. The Lean statements are unbounded in graph size, numbers of inputs/outputs (repeated output names "
              "included: WF asks for unique NODE names only) and payload depth, over the payload universe of ASSUMPTIONS[1]; the tie SAMPLES "
              "them (RULE: up to 14 nodes, 7 outputs, 7 inputs, depth 3, a fixed list of value leaves) on random DAGs and fluent graphs; that the "
              "real Graph.__eq__ is the model's graphEq also on graphs that DIFFER is carried by the tie only (eq-probe:* cases).")
LEVEL_NOTE = ("modelled, not verified: graph/export.py serialise/deserialise/to_json/from_json/_deserialise_node/default_node_factory, nodes.py "
              "Node.serialise/Output.serialise/get_output, graph.py Graph.__eq__, workflows/__init__.py Cascade.serialise/from_serialised. "
              "Graph.nodes() is modelled by its result set (reachability sweep over a topological order); DFS order, graphlib.TopologicalSorter "
              "order and the order of the serialised dict's entries are not modelled (nothing in the property depends on them; node records are "
              "compared sorted by name; the ORDER of a node's inputs dict and of its outputs list IS modelled and compared; the sink list is "
              "compared as a sorted list, so with multiplicity). Object "
              "identity of nodes is a name (the property's unique-names hypothesis). json is trusted on the payload universe of the model; dill is "
              "a PARAMETER of c12_file (any map on payload values; names, output lists and references are assumed to be rebuilt exactly) and "
              "its structural behaviour dillPV (by-reference objects identical, by-value objects new) is sampled by the tie. Deserialised fluent "
              "graphs are bare graph.Node objects: the fluent Node class, its `attributes` dict and `_for_copy` tuple are not serialised; the "
              "property names nodes, outputs, inputs and payloads only, so this is measured (distribution key fluent-node-class-not-restored), not "
              "demanded. bool/int/float and set/frozenset cross-type equality and dict order in payload `==` are not modelled (stricter than "
              "Python, never needed for a round trip). Values of types json rejects (bytes, complex, set, frozenset, instances of a class "
              "with __eq__) are LEAVES of the model (type name + canonical text): that dill rebuilds an equal value of the same type, and "
              "that nothing on the dict path touches them, is what the tie compares. `==` being False for a NaN payload or for a function "
              "re-created by dill is Python's comparison of the (same) payloads, not a round-trip loss: measured, and characterised exactly by "
              "c12_dict_exact / c12_file together with the *_full_fails witnesses.")
TECHNIQUE = ("Lean 4 proof (induction over the topological node list; reachability of every node from the terminal nodes; exact characterisation "
             "of Graph.__eq__ on a graph and its image) + AST translator of the keyword-bindable parameter names on the de-serialisation call "
             "path + differential correspondence with the real export functions")
LEAN_PROPS = ["EkwVerif.Props.C12"]
LEAN_DRIVERS = ["C12"]
RULE = ("random DAG specs of 0-12 nodes (default-output, output-less and multi-output nodes with 1-6 outputs, in 8-15% of the multi-output nodes "
        "one output name repeated; 0-6 inputs each from any earlier node's outputs, so parents are shared; in 6% of the specs a node twice in "
        "the sink list; odd names; in 55% of the specs node names, output names and input-parameter names come from ONE pool: 26 fixed names "
        "(incl. '0' = DEFAULT_OUTPUT, '1', '__default__', dotted 'stats.mean' next to 'stats'/'mean', prefixes/suffixes 'n','n1','n10') plus the "
        "parameter names of EVERY function and method of graph/export.py, graph/nodes.py, graph/graph.py and class Cascade, read by introspection "
        "(input names: minus what Node.__init__ itself binds), node names being preferably the output names earlier nodes declare and references "
        "preferring named outputs, names kept unique; payloads None/int/str/bool/float/list/tuple/dict nested to depth 3, strings incl. non-ASCII ones (BMP, astral, U+2028, NUL, "
        "quote/backslash; 12% of the string leaves), dict keys str/int/bool/None "
        "incl. keys that clash after JSON ('1' and 1); half of the specs 'rich': floats incl. inf and -0.0, by-reference functions, value leaves of "
        "types json rejects (20 fixed values: bytes incl. non-UTF-8, complex, set, frozenset incl. nested, instances of a class with __eq__), and ONE "
        "special class per spec out of NaN (top level / nested), by-value callables (lambda, closure), payload objects with a serialise() method "
        "(invertible by the harness's node factory or not; top level / nested), value leaves at a higher rate (top level / inside a fluent-style "
        "payload); sinks = all terminal nodes, a subset of them, or terminals plus "
        "inner nodes), graphs of random fluent programs (from_source with/without yields, map with module-level functions, lambdas and closures, "
        "sum/mean/max/min/prod with batching, add/multiply with scalar and action, select, concatenate, stack; single actions and "
        "Cascade.from_actions unions), for half of the DAG specs a copy with one small change (11 kinds, distribution keys eq-probe:*) for `==` on "
        "different graphs, and hand-damaged dicts (missing entry, missing output, an input renamed to a parameter name of the call path). "
        "non-trivial = graph with >= 3 nodes having a terminal node with outputs or a multi-output parent; distinct by content hash")
ASSUMPTIONS = [
    "node names are unique and the graph is acyclic (the property's quantifier); nodes are built by the Node constructor, so no input is called "
    "like a parameter of Node.__init__ (self, name, outputs, payload)",
    "payload universe of the model: None, bool, int, str, float, list, tuple, dict with str/int/bool/None keys, NaN-free values of types json "
    "rejects that compare by value (bytes, complex, set, frozenset, instances of an importable class with __eq__ over its state; leaves of the "
    "model), opaque objects compared by identity (functions, instances without __eq__), objects with a serialise() method compared by identity; "
    "NOT in the universe: ndarray and other payloads whose != raises or is not a bool, objects with __eq__ AND a serialise() method",
    "dill rebuilds str, lists/tuples of str and dict skeletons exactly and pickles a function by reference iff it can be imported by its qualified "
    "name (the harness predicts that from the module, the tie compares it with what dill did)",
    "`same payload` for a function pickled by value means same code, defaults, closure contents and name (Python has no other equality for it)",
]

D = "0"
FRESH = 1000000


# ----------------------------------------------------------------------------- translator

def read_chain(repo):
    """AST of graph/export.py + graph/nodes.py -> ([(function, [keyword-bindable parameter names])] in call order, params of Node.__init__).

    Starting at `deserialise`, follow the calls to functions/classes of the two files; every callee that is called with a `**mapping`
    argument receives a node's inputs as keyword arguments and enters the chain."""
    import ast
    base = repo / "src" / "earthkit" / "workflows" / "graph"
    te = ast.parse((base / "export.py").read_text())
    tn = ast.parse((base / "nodes.py").read_text())
    funcs = {f.name: f for f in te.body if isinstance(f, ast.FunctionDef)}
    classes = {c.name: c for c in tn.body if isinstance(c, ast.ClassDef)}
    imported = set()
    for st in te.body:
        if isinstance(st, ast.ImportFrom) and st.module == "nodes" and st.level == 1:
            imported |= {a.asname or a.name for a in st.names}

    def kw_params(fd):
        return [a.arg for a in fd.args.args] + [a.arg for a in fd.args.kwonlyargs]

    def init_of(cname):
        for st in classes[cname].body:
            if isinstance(st, ast.FunctionDef) and st.name == "__init__":
                return st
        raise ValueError(f"class {cname} has no __init__ in nodes.py")

    def resolve(fn, fd):
        """callee of a Call node inside fd -> (qualified name, FunctionDef) or None"""
        if not isinstance(fn, ast.Name):
            return None
        name = fn.id
        pos = fd.args.posonlyargs + fd.args.args
        defaults = dict(zip([a.arg for a in pos[len(pos) - len(fd.args.defaults):]], fd.args.defaults))
        for a, dv in zip(fd.args.kwonlyargs, fd.args.kw_defaults):
            if dv is not None:
                defaults[a.arg] = dv
        if name in {a.arg for a in pos + fd.args.kwonlyargs}:
            if name in defaults and isinstance(defaults[name], ast.Name):
                name = defaults[name].id          # a callable parameter: follow its default
            else:
                return None
        if name in funcs:
            return "export." + name, funcs[name]
        if name in imported and name in classes:
            return "nodes.%s.__init__" % name, init_of(name)
        return None

    chain, seen = [], set()

    def visit(qn, fd):
        if qn in seen:
            return
        seen.add(qn)
        for call in [c for c in ast.walk(fd) if isinstance(c, ast.Call)]:
            star = any(k.arg is None for k in call.keywords)
            tgt = resolve(call.func, fd)
            if tgt is None:
                if star:
                    raise ValueError(f"{qn}: call with ** to something the translator cannot resolve: {ast.dump(call.func)[:80]}")
                continue
            if star and tgt[0] not in [c[0] for c in chain]:
                chain.append((tgt[0], kw_params(tgt[1])))
            visit(*tgt)

    if "deserialise" not in funcs:
        raise ValueError("export.py has no function deserialise")
    visit("export.deserialise", funcs["deserialise"])
    return chain, kw_params(init_of("Node"))


def _kw_runtime(fn):
    import inspect
    return [p.name for p in inspect.signature(fn).parameters.values() if p.kind in (p.POSITIONAL_OR_KEYWORD, p.KEYWORD_ONLY)]


def render_chain(chain, init_kw):
    q = lambda l: "[" + ", ".join(json.dumps(x) for x in l) + "]"
    rows = ",\n".join("  (%s, %s)" % (json.dumps(n), q(ps)) for n, ps in chain)
    return ("-- GENERATED by harness/ekw/props/c12.py (translator `export_params`) from\n"
            "-- src/earthkit/workflows/graph/export.py and src/earthkit/workflows/graph/nodes.py -- do not edit.\n"
            "namespace EkwVerif.Gen\n\n"
            "/-- the calls through which `deserialise` hands the inputs of a node on as `**kwargs`, in call order:\n"
            "(function, its parameter names that can be bound by keyword) -/\n"
            "def exportChain : List (String × List String) := [\n" + rows + "\n]\n\n"
            "/-- keyword-bindable parameter names of `Node.__init__`: no node built by the constructor has an input of such a name -/\n"
            "def nodeInitKw : List String := " + q(init_kw) + "\n\n"
            "/-- input names that make `deserialise` raise TypeError -/\n"
            "def deserReserved : List String := exportChain.flatMap (·.2)\n\n"
            "end EkwVerif.Gen\n")


def translate(ctx):
    from ekw.core import LEAN_DIR, REPO
    from earthkit.workflows.graph import export, nodes
    chain, init_kw = read_chain(REPO)
    # cross-check with the imported code
    for qn, ps in chain + [("nodes.Node.__init__", init_kw)]:
        mod, _, rest = qn.partition(".")
        obj = {"export": export, "nodes": nodes}[mod]
        for part in rest.split("."):
            obj = getattr(obj, part)
        if _kw_runtime(obj) != ps:
            raise ValueError(f"{qn}: source says {ps}, the imported function has {_kw_runtime(obj)}")
    text = render_chain(chain, init_kw)
    out = LEAN_DIR / "EkwVerif" / "Gen" / "ExportParams.lean"
    out.parent.mkdir(parents=True, exist_ok=True)
    if not out.exists() or out.read_text() != text:
        out.write_text(text)
    ctx.extra["export_chain"] = {n: ps for n, ps in chain}
    ctx.extra["node_init_kw"] = init_kw


@functools.lru_cache(maxsize=1)
def introspected_names():
    """(parameter names of every function/method of the (de)serialisation modules, keyword-bindable parameters of Node.__init__)"""
    import inspect
    from earthkit.workflows import Cascade
    from earthkit.workflows.graph import export, graph, nodes
    fns = []
    for mod in (export, nodes, graph):
        for _, o in inspect.getmembers(mod):
            if inspect.isfunction(o) and o.__module__ == mod.__name__:
                fns.append(o)
            elif inspect.isclass(o) and o.__module__ == mod.__name__:
                fns += [f for _, f in inspect.getmembers(o, inspect.isfunction)]
    for _, f in inspect.getmembers(Cascade):
        f = getattr(f, "__func__", f)
        if inspect.isfunction(f):
            fns.append(f)
    names = set()
    for f in fns:
        try:
            names |= set(inspect.signature(f).parameters)
        except (TypeError, ValueError):
            pass
    return sorted(names), sorted(_kw_runtime(nodes.Node.__init__))


# ----------------------------------------------------------------------------- opaque payload objects

def c12_ref0(x):
    return x


def c12_ref1(x, y=0):
    return y


def c12_ref2(*a):
    return a


REF_FUNCS = [c12_ref0, c12_ref1, c12_ref2, len]


def make_byval(k):
    """a callable dill pickles by value: a lambda (even k) or a closure (odd k); k is readable off the object"""
    if k % 2 == 0:
        return lambda x, _k=k: x
    def inner(x):
        return (x, k)
    return inner


class C12Hook:
    """a payload object with a serialise() method (equality = identity)"""

    def __init__(self, hid, value, marked):
        self.hid, self.value, self.marked = hid, value, marked

    def serialise(self):
        return {"__c12hook__": self.hid, "v": self.value} if self.marked else self.value


class C12Val:
    """a payload object with VALUE equality over its state (module level: dill stores the class by reference and the
    instance by state, so a copy comes back that is == the original)"""

    def __init__(self, *state):
        self.state = state

    def __eq__(self, other):
        return type(other) is C12Val and other.state == self.state

    def __hash__(self):
        return hash(self.state)

    def __repr__(self):
        return "C12Val%r" % (self.state,)


VAL_TYPES = (bytes, complex, set, frozenset, C12Val)


def canon_val(x):
    """canonical text of a value leaf (what a round trip must give back, whatever the iteration order of a set)"""
    if isinstance(x, (set, frozenset)):
        return type(x).__name__ + "{" + ",".join(sorted(canon_val(e) for e in x)) + "}"
    if isinstance(x, tuple):
        return "(" + ",".join(canon_val(e) for e in x) + ")"
    if isinstance(x, C12Val):
        return "C12Val" + canon_val(x.state)
    if isinstance(x, float):
        return "float:" + ("nan" if x != x else x.hex())
    if isinstance(x, complex):
        return "complex:%s,%s" % (canon_val(x.real), canon_val(x.imag))
    return type(x).__name__ + ":" + repr(x)


# the value leaves the generator draws from: bytes (also non-UTF-8, non-ASCII), complex, set / frozenset (of int, str, bytes,
# tuples, frozensets), instances of a class with __eq__ (flat and nested state)
VALS = [b"xy", b"", b"\xff\x00", "\u00e9\u03a9".encode(), b"input0", 1 + 2j, complex(0.0, -0.0), -1.5j, complex(float("inf"), 1),
        {1, "a"}, set(), {b"k", 2, (3, "t")}, frozenset({(1, b"z")}), frozenset({"x", "y"}), frozenset(), frozenset({frozenset({1}), 2}),
        C12Val(), C12Val(1, "a"), C12Val((2, b"q"), frozenset({3})), C12Val("\u00e9")]
VAL_TABLE = {(type(v).__name__, canon_val(v)): v for v in VALS}


def val_tag(v):
    return {"t": "val", "k": type(v).__name__, "v": canon_val(v)}


def val_object(t):
    """a NEW object for a value tag (mutable ones must not be shared between nodes)"""
    v = VAL_TABLE[(t["k"], t["v"])]
    if isinstance(v, set):
        return set(v)
    if isinstance(v, C12Val):
        return C12Val(*v.state)
    return v


def inv_factory(name, outputs, payload, **inputs):
    """node factory that turns the serialised form of a marked C12Hook back into the object"""
    from earthkit.workflows.graph.export import default_node_factory
    if isinstance(payload, dict) and list(payload) == ["__c12hook__", "v"]:
        payload = C12Hook(payload["__c12hook__"], payload["v"], True)
    return default_node_factory(name, outputs, payload, **inputs)


def by_ref(o):
    """dill pickles o by reference: it can be imported by its qualified name"""
    mod, qn = getattr(o, "__module__", None), getattr(o, "__qualname__", None)
    if not isinstance(mod, str) or not isinstance(qn, str) or mod == "__main__" or mod not in sys.modules:
        return False
    cur = sys.modules[mod]
    try:
        for part in qn.split("."):
            cur = getattr(cur, part)
    except AttributeError:
        return False
    return cur is o


def label(o):
    """what a COPY of o still shows: used to say which original a new object is a copy of"""
    if isinstance(o, C12Hook):
        return "hook:%s" % o.hid
    if isinstance(o, types.FunctionType):
        if o.__defaults__ and o.__name__ == "<lambda>":
            return "lambda:%r" % (o.__defaults__[-1],)
        if o.__closure__:
            try:
                return "closure:%s:%r" % (o.__name__, tuple(c.cell_contents for c in o.__closure__))
            except ValueError:
                pass
    return "%s:%s" % (type(o).__name__, getattr(o, "__qualname__", ""))


class Reg:
    """identity registry of the opaque objects of one case: object <-> number"""

    def __init__(self):
        self.by_num, self.by_id, self.next = {}, {}, 100

    def _put(self, num, o):
        self.by_num[num] = o
        self.by_id[id(o)] = num
        return o

    def atom(self, num, ref):
        if num in self.by_num:
            return self.by_num[num]
        return self._put(num, REF_FUNCS[num % len(REF_FUNCS)] if ref else make_byval(num))

    def hook(self, num, value, marked):
        if num in self.by_num:
            return self.by_num[num]
        return self._put(num, C12Hook(num, value, marked))

    def num(self, o, register):
        n = self.by_id.get(id(o))
        if n is None and register:
            n = self.next
            self.next += 1
            self._put(n, o)
        return n

    def copy_of(self, lab):
        """number of the registered object a copy with this label stems from"""
        c = [n for n, o in self.by_num.items() if label(o) == lab]
        return c[0] if len(c) == 1 else "ambiguous:" + lab


# ----------------------------------------------------------------------------- payload coding

def tag_key(k):
    if isinstance(k, str):
        return {"k": "str", "v": k}
    if isinstance(k, bool):
        return {"k": "bool", "v": k}
    if isinstance(k, int):
        return {"k": "int", "v": k}
    if k is None:
        return {"k": "none"}
    return {"k": "str", "v": "<key %s %r>" % (type(k).__name__, k)}


def untag_key(t):
    if isinstance(t, str):                         # old corpus format
        return t
    return None if t["k"] == "none" else t["v"]


def tag(p, reg, register=True):
    """Python payload -> tagged JSON form understood by the Lean driver.  Opaque objects are numbered by identity in `reg`;
    with register=False (results of a round trip) an object that is not one of the registered originals is tagged as a copy."""
    if p is None:
        return {"t": "none"}
    if isinstance(p, bool):
        return {"t": "bool", "v": p}
    if isinstance(p, int):
        return {"t": "int", "v": p}
    if isinstance(p, str):
        return {"t": "str", "v": p}
    if isinstance(p, float):
        return {"t": "float", "nan": p != p, "v": "nan" if p != p else p.hex()}
    if isinstance(p, list):
        return {"t": "list", "v": [tag(x, reg, register) for x in p]}
    if isinstance(p, tuple):
        return {"t": "tuple", "v": [tag(x, reg, register) for x in p]}
    if isinstance(p, dict):
        return {"t": "dict", "v": [[tag_key(k), tag(v, reg, register)] for k, v in p.items()]}
    if isinstance(p, VAL_TYPES):
        return val_tag(p)
    try:
        import numpy as np
        if isinstance(p, np.integer):
            return {"t": "int", "v": int(p)}
    except Exception:
        pass
    n = reg.num(p, register)
    if hasattr(p, "serialise"):
        out = {"t": "hook", "v": tag(p.serialise(), reg, register)}
    else:
        out = {"t": "atom", "ref": by_ref(p)}
    if n is None:
        out["copy_of"] = reg.copy_of(label(p))
    else:
        out["id"] = n
    return out


def untag(t, reg):
    k = t["t"]
    if k == "none":
        return None
    if k in ("bool", "int", "str"):
        return t["v"]
    if k == "float":
        return float("nan") if t["nan"] else float.fromhex(t["v"])
    if k == "atom":
        return reg.atom(t["id"], t["ref"])
    if k == "val":
        return val_object(t)
    if k == "hook":
        v = t["v"]
        marked = v["t"] == "dict" and [untag_key(e[0]) for e in v["v"]] == ["__c12hook__", "v"]
        return reg.hook(t["id"], untag(v["v"][1][1] if marked else v, reg), marked)
    if k == "list":
        return [untag(x, reg) for x in t["v"]]
    if k == "tuple":
        return tuple(untag(x, reg) for x in t["v"])
    return {untag_key(a): untag(b, reg) for a, b in t["v"]}


def norm_tag(t):
    """bring a payload tag of an older corpus file into the current format (dict keys tagged)"""
    if t["t"] in ("list", "tuple"):
        return {"t": t["t"], "v": [norm_tag(x) for x in t["v"]]}
    if t["t"] == "dict":
        return {"t": "dict", "v": [[tag_key(a) if isinstance(a, str) else a, norm_tag(b)] for a, b in t["v"]]}
    if t["t"] == "hook":
        return dict(t, v=norm_tag(t["v"]))
    return t


def canon_model_pv(t, reg):
    """payload tag printed by the model -> the form `tag(..., register=False)` gives: identities >= FRESH are copies"""
    k = t["t"]
    if k in ("list", "tuple"):
        return {"t": k, "v": [canon_model_pv(x, reg) for x in t["v"]]}
    if k == "dict":
        return {"t": "dict", "v": [[a, canon_model_pv(b, reg)] for a, b in t["v"]]}
    if k in ("atom", "hook"):
        out = {"t": k}
        if k == "hook":
            out["v"] = canon_model_pv(t["v"], reg)
        else:
            out["ref"] = t["ref"]
        if t["id"] >= FRESH:
            o = reg.by_num.get(t["id"] - FRESH)
            out["copy_of"] = reg.copy_of(label(o)) if o is not None else "unknown"
        else:
            out["id"] = t["id"]
        return out
    return t


def by_state(t):
    """forget whether an opaque object is the original or a copy (used for the node-factory path, which rebuilds objects)"""
    k = t["t"]
    if k in ("list", "tuple"):
        return {"t": k, "v": [by_state(x) for x in t["v"]]}
    if k == "dict":
        return {"t": "dict", "v": [[a, by_state(b)] for a, b in t["v"]]}
    if k in ("atom", "hook"):
        out = {x: y for x, y in t.items() if x not in ("id", "copy_of", "v")}
        out["st"] = t.get("id", t.get("copy_of"))
        if k == "hook":
            out["v"] = by_state(t["v"])
        return out
    return t


def tag_ref(r):
    if isinstance(r, str):
        return r
    return {"t": "tuple" if isinstance(r, tuple) else "list", "v": list(r)}


def scan(t, acc):
    """which payload classes occur in a tag (for the distribution and for the choice of oracle clauses)"""
    k = t["t"]
    if k == "float":
        acc.add("nan" if t["nan"] else "float")
    elif k == "atom":
        acc.add("by-reference-object" if t["ref"] else "by-value-object")
    elif k == "val":
        acc.add("value:" + t["k"])
    elif k == "str":
        if any(ord(c) > 127 for c in t["v"]):
            acc.add("non-ascii-str")
    elif k == "hook":
        acc.add("hook")
        scan(t["v"], acc)
    elif k in ("list", "tuple"):
        if k == "tuple":
            acc.add("tuple")
        for x in t["v"]:
            scan(x, acc)
    elif k == "dict":
        ks = [a if isinstance(a, dict) else tag_key(a) for a, _ in t["v"]]
        if any(a["k"] != "str" for a in ks):
            acc.add("non-str-key")
        js = [json.dumps(a["v"]) if a["k"] in ("int", "bool") else ("null" if a["k"] == "none" else a["v"]) for a in ks]
        if len(set(js)) < len(js):
            acc.add("keys-clashing-in-json")
        for _, x in t["v"]:
            scan(x, acc)
    return acc


# ----------------------------------------------------------------------------- generators

KEYS = ["k", "a", "b", "0", "1", 1, 0, -3, True, None]


NON_ASCII = ["\u00e9", "\u03a9\u00e7\u2248", "na\u00efve input0", "\u2028", "\U0001f600", "a\x00b", "\\\"", "\u00df\U0001d11e\u4e2d"]


def gen_payload(rng, fl, depth=0):
    """a payload TAG; fl = {"rich": bool, "special": None | "nan" | "byval" | "hook"}"""
    x = rng.random()
    if depth == 0 and x < 0.3:
        return {"t": "none"}
    if x < 0.45 or depth >= 3:
        reg = None
        leaf = rng.choice([0, 1, 7, -2, "s", "input0", "", True, False, None])
        if rng.random() < 0.12:                       # non-ASCII text (BMP, astral, line separator, NUL, a lone quote / backslash)
            leaf = rng.choice(NON_ASCII)
        if fl["rich"] and rng.random() < (0.3 if fl["special"] == "val" else 0.08):
            return val_tag(rng.choice(VALS))
        if fl["rich"] and rng.random() < 0.35:
            leaf = rng.choice([0.5, -0.0, 1e300, float("inf"), float("-inf"), 2.0, -1.25, 0.1, 1 / 3, 2.5e-7, 123456.789012345, 5e-324, 10 ** 20])
        if fl["rich"] and rng.random() < 0.15:
            return {"t": "atom", "ref": True, "id": rng.randrange(len(REF_FUNCS))}
        if fl["special"] == "nan" and rng.random() < 0.3:
            leaf = float("nan")
        if fl["special"] == "byval" and rng.random() < 0.3:
            return {"t": "atom", "ref": False, "id": 10 + rng.randrange(4)}
        if fl["special"] == "hook" and rng.random() < (0.3 if depth == 0 else 0.1):
            return gen_hook(rng, fl, depth)
        return tag(leaf, reg)
    if x < 0.65:
        return {"t": "list", "v": [gen_payload(rng, fl, depth + 1) for _ in range(rng.randint(0, 3))]}
    if x < 0.85:
        return {"t": "list" if fl.get("jsonish") else "tuple", "v": [gen_payload(rng, fl, depth + 1) for _ in range(rng.randint(0, 3))]}
    keys = []
    for _ in range(rng.randint(0, 3)):
        k = rng.choice(KEYS[:5] if fl.get("jsonish") else KEYS if fl["rich"] or rng.random() < 0.3 else KEYS[:4])
        if not any(k == c and (k is None) == (c is None) for c in keys):          # Python dict keys: 1 == True
            keys.append(k)
    return {"t": "dict", "v": [[tag_key(k), gen_payload(rng, fl, depth + 1)] for k in keys]}


def gen_hook(rng, fl, depth):
    hid = 50 + rng.randrange(6)
    inner = gen_payload(rng, {"rich": fl["rich"], "special": None, "jsonish": rng.random() < 0.5}, depth + 1)
    if rng.random() < 0.5:                          # marked: the harness's node factory can turn it back
        return {"t": "hook", "id": hid, "v": {"t": "dict", "v": [[tag_key("__c12hook__"), {"t": "int", "v": hid}], [tag_key("v"), inner]]}}
    if inner["t"] == "dict" and [untag_key(e[0]) for e in inner["v"]] == ["__c12hook__", "v"]:
        inner = {"t": "none"}
    return {"t": "hook", "id": hid, "v": inner}


def gen_node_payload(rng, fl, hooks_used):
    """payload of one node: now and then the special class of the spec in a typical position"""
    sp = fl["special"]
    r = rng.random()
    if sp == "nan" and r < 0.25:
        return rng.choice([{"t": "float", "nan": True, "v": "nan"}, {"t": "list", "v": [{"t": "float", "nan": True, "v": "nan"}]}])
    if sp == "byval" and r < 0.3:                  # fluent style: (function, args, kwargs)
        return {"t": "tuple", "v": [{"t": "atom", "ref": False, "id": 10 + rng.randrange(4)}, {"t": "list", "v": [{"t": "str", "v": "input0"}]}, {"t": "dict", "v": []}]}
    if sp == "val" and r < 0.3:                    # a value leaf as the whole payload / inside a fluent-style payload
        v = val_tag(rng.choice(VALS))
        return v if r < 0.15 else {"t": "tuple", "v": [{"t": "atom", "ref": True, "id": rng.randrange(len(REF_FUNCS))}, {"t": "list", "v": [v]},
                                                     {"t": "dict", "v": [[tag_key("k"), val_tag(rng.choice(VALS))]]}]}
    if fl["rich"] and r > 0.9:
        return {"t": "tuple", "v": [{"t": "atom", "ref": True, "id": rng.randrange(len(REF_FUNCS))}, {"t": "list", "v": [{"t": "int", "v": 1}]}, {"t": "dict", "v": []}]}
    p = gen_hook(rng, fl, 0) if sp == "hook" and r < 0.3 else gen_payload(rng, fl)
    # one hook id = one object: the same id must not be declared with two different states in one spec
    def fix(t):
        if t["t"] == "hook":
            key = json.dumps(t["v"], sort_keys=True)
            while t["id"] in hooks_used and hooks_used[t["id"]] != key:
                t["id"] += 6
            hooks_used[t["id"]] = key
            if t["v"]["t"] == "dict" and t["v"]["v"] and untag_key(t["v"]["v"][0][0]) == "__c12hook__":
                t["v"]["v"][0][1] = {"t": "int", "v": t["id"]}
                hooks_used[t["id"]] = json.dumps(t["v"], sort_keys=True)
            fix(t["v"])
        elif t["t"] in ("list", "tuple"):
            for x in t["v"]:
                fix(x)
        elif t["t"] == "dict":
            for _, x in t["v"]:
                fix(x)
    fix(p)
    return p


# one small pool for the three namespaces (node names, output names, input-parameter names): a node may be called like
# an output of another node, like one of its own outputs or parameters, like a serialised reference "parent.output",
# like a prefix / suffix of another name, or like the default output; plus (by introspection) the parameter names of
# every function on the (de)serialisation path
POOL0 = ["0", "1", "2", "x", "y", "out", "aux", "a", "b", "in", "input0", "input1", "mean", "std", "stats", "__default__",
         "a.b", "x.y", "stats.mean", "in0", "n", "n1", "n10", "ab", "0.1", "00"]


def pools():
    params, init_kw = introspected_names()
    return POOL0 + [p for p in params if p not in POOL0], set(init_kw), params


def _node_name(rng, i, used, earlier_outs, collide, pool):
    if not collide:
        nm = rng.choice(["0", "x.y", "a b", "n", "name-1", "Ω"]) if rng.random() < 0.1 else "n%d" % i
    else:
        r = rng.random()
        cands = []
        if r < 0.4:                                   # the name of an output some earlier node declares
            cands = sorted({o for o in earlier_outs if o not in used})
        if not cands and r < 0.85:
            cands = [p for p in pool if p not in used]
        if cands:
            nm = rng.choice(cands)
        elif used:                                    # prefix / suffix / dotted extension of an existing name
            base = rng.choice(used)
            nm = rng.choice([base + ".0", base + "0", base[:-1] or "n", "0" + base, base + "." + rng.choice(pool), base + "."])
        else:
            nm = rng.choice(pool)
    while nm in used:
        nm += "'"
    return nm


def gen_spec(rng, maxn, plain=False, forced_ok=True):
    pool, not_a_param, params = pools()
    n = rng.choice([0, 1, 2]) if rng.random() < 0.08 else rng.randint(2, maxn)
    collide = rng.random() < 0.55
    rich = (not plain) and rng.random() < 0.5
    fl = {"rich": rich, "special": rng.choice([None, "nan", "byval", "hook", "val", "val"]) if rich else None,
          "jsonish": (not rich) and rng.random() < 0.5}          # payloads JSON represents faithfully: no tuples, string keys
    hooks_used = {}
    names = []
    nodes = []
    for i in range(n):
        names.append(_node_name(rng, i, names, [o for p in nodes for o in p["outputs"]], collide, pool))
        x = rng.random()
        if x < (0.4 if collide else 0.5):
            outputs = [D]
        elif x < (0.5 if collide else 0.62):
            outputs = []
        elif collide:
            # output names from the pool and from the names of the nodes (this one's too)
            outputs = rng.sample(sorted(set(pool) | set(names)), rng.choice([1, 1, 2, 2, 3, 3, 4, 5, 6]))
        else:
            outputs = list(rng.choice([["x", "y"], ["0", "1", "2"], ["out"], ["0", "aux"], ["b", "a"], ["a", "b", "c", "d"],
                                       ["0", "1", "2", "3", "4", "5"], ["y", "x", "0", "out", "aux"]]))
        if outputs and outputs != [D] and rng.random() < (0.15 if collide else 0.08):
            # the same output name twice (the constructor takes any list; inside the quantifier: only NODE names are unique)
            outputs.insert(rng.randint(0, len(outputs)), rng.choice(outputs))
            if rng.random() < 0.2:
                outputs.append(outputs[0])
        cands = [(p["name"], o) for p in nodes for o in p["outputs"]]
        inputs = []
        if cands:
            k = rng.choice([0, 1, 1, 2, 2, 3, 3, 4, 5, 6])
            if collide:
                ipool = sorted((set(pool) | set(names) | {o for _, o in cands}) - not_a_param)
            else:
                ipool = ["input0", "input1", "a", "b", "in", "input2", "input3", "c", "input10"]
            inames = rng.sample(ipool, min(k, len(ipool)))
            if k and rng.random() < 0.12:             # a parameter name of the (de)serialisation functions as input name
                cand = [p for p in params if p not in not_a_param and p not in inames]
                if cand:
                    inames[0] = rng.choice(cand)
            named = [c for c in cands if c[1] != D]
            for iname in inames:
                if collide and named and rng.random() < 0.45:   # a reference that is serialised with the output's name
                    par, out = rng.choice(named)
                elif rng.random() < 0.6:          # prefer recent nodes: deeper graphs
                    par, out = rng.choice(cands[-4:])
                else:
                    par, out = rng.choice(cands)
                inputs.append([iname, par, out])
        nodes.append({"name": names[i], "outputs": outputs, "dflt": outputs == [D] and rng.random() < 0.5,
                      "payload": gen_node_payload(rng, fl, hooks_used), "inputs": inputs})
    if nodes and forced_ok and rng.random() < 0.04:
        # outside the quantifier (the constructor cannot build it): an input called like a parameter of Node.__init__,
        # written into Node.inputs directly; only the tie looks at it (the model says TypeError on the way back)
        tgt = rng.choice(nodes)
        cands = [(p["name"], o) for p in nodes[:nodes.index(tgt)] for o in p["outputs"]]
        free = sorted(not_a_param - {i[0] for i in tgt["inputs"]})
        if cands and free:
            par, out = rng.choice(cands)
            iname = rng.choice(free)
            tgt["inputs"].append([iname, par, out])
            tgt["forced"] = [iname]
    consumed = {i[1] for nd in nodes for i in nd["inputs"]}
    terminal = [nd["name"] for nd in nodes if nd["name"] not in consumed]
    x = rng.random()
    if x < 0.7 or not terminal:
        sinks = list(terminal)
    elif x < 0.85:
        sinks = rng.sample(terminal, rng.randint(1, len(terminal)))
    else:
        inner = [nd["name"] for nd in nodes if nd["name"] in consumed]
        sinks = list(terminal) + rng.sample(inner, min(len(inner), rng.randint(1, 2)))
    rng.shuffle(sinks)
    if sinks and rng.random() < 0.06:                 # the same node object twice in Graph.sinks
        sinks.insert(rng.randint(0, len(sinks)), rng.choice(sinks))
    return {"kind": "dag", "nodes": nodes, "sinks": sinks}


# functions used by fluent programs: module level, so that dill pickles them by reference
def c12_src(*a):
    return list(a)


def c12_f1(x, k=1):
    return x


def c12_f2(x, y=None, *, tag=""):
    return x


def gen_fluent(rng):
    nd = rng.choice([1, 2, 2])
    shape = [rng.randint(1, 3) for _ in range(nd)]
    steps = []
    byval = rng.random() < 0.3
    for j in range(rng.randint(1, 5)):
        x = rng.random()
        dim = "d%d" % rng.randrange(nd)
        if x < 0.25:
            steps.append(["map", rng.choice(["f1", "f2", "f1kw"] + (["byval%d" % (20 + 2 * j), "byval%d" % (21 + 2 * j)] * 2 if byval else []))])
        elif x < 0.55:
            steps.append([rng.choice(["sum", "mean", "max", "min", "prod"]), dim, rng.choice([0, 0, 2, 3])])
        elif x < 0.7:
            steps.append([rng.choice(["add", "multiply", "subtract"]), rng.choice([3, "self", "base", 0.5 if byval else 3])])
        elif x < 0.8:
            steps.append(["select", dim, 0])
        elif x < 0.9:
            steps.append([rng.choice(["concatenate", "stack"]), dim])
        else:
            steps.append(["map", "f2"])
    return {"kind": "fluent", "shape": shape, "yields": rng.choice([0, 0, 2, 3]), "steps": steps,
            "union": rng.random() < 0.4, "salt": rng.randint(0, 9)}


def build_fluent(desc):
    """Run the fluent program on the real API; steps that the API rejects are skipped (deterministically)."""
    import numpy as np
    from earthkit.workflows import Cascade
    from earthkit.workflows.fluent import Payload, from_source
    shape = tuple(desc["shape"])
    dims = ["d%d" % i for i in range(len(shape))]
    arr = np.empty(shape, dtype=object)
    for idx in np.ndindex(*shape):
        arr[idx] = functools.partial(c12_src, desc["salt"], *idx)
    coords = {d: list(range(s)) for d, s in zip(dims, shape)}
    if desc["yields"]:
        base = from_source(arr, yields=("y", list(range(desc["yields"]))), dims=dims, coords=coords)
    else:
        base = from_source(arr, dims=dims, coords=coords)
    cur = base
    acts = [base]
    applied = []
    for st in desc["steps"]:
        try:
            if st[0] == "map":
                if st[1].startswith("byval"):
                    pl = make_byval(int(st[1][5:]))
                else:
                    pl = {"f1": c12_f1, "f2": Payload(c12_f2, ["input0", (1, "t")], {"tag": "k"}), "f1kw": Payload(c12_f1, kwargs={"k": 2})}[st[1]]
                nxt = cur.map(pl)
            elif st[0] in ("sum", "mean", "max", "min", "prod"):
                nxt = getattr(cur, st[0])(st[1], batch_size=st[2])
            elif st[0] in ("add", "multiply", "subtract"):
                other = {"self": cur, "base": base}.get(st[1], st[1])
                nxt = getattr(cur, st[0])(other)
            elif st[0] == "select":
                nxt = cur.select({st[1]: st[2]})
            else:
                nxt = getattr(cur, st[0])(st[1])
            cur = nxt
            acts.append(cur)
            applied.append("map-by-value-callable" if st[0] == "map" and st[1].startswith("byval") else st[0])
        except Exception as e:
            applied.append("rejected:%s:%s" % (st[0], type(e).__name__))
            continue
    if desc["union"] and len(acts) > 1:
        g = Cascade.from_actions([acts[len(acts) // 2], cur])._graph
    else:
        g = cur.graph()
    return g, applied


# ----------------------------------------------------------------------------- real side

def build_real(spec, reg):
    from earthkit.workflows.graph import Graph, Node
    objs = {}
    for nd in spec["nodes"]:
        ins, forced = {}, {}
        for iname, par, out in nd["inputs"]:
            o = objs[par].get_output() if (out == D and len(iname) % 2 == 0) else objs[par].get_output(out)
            (forced if iname in nd.get("forced", ()) else ins)[iname] = o
        if nd.get("dflt"):
            node = Node(nd["name"], payload=untag(nd["payload"], reg), **ins)
        else:
            node = Node(nd["name"], list(nd["outputs"]), untag(nd["payload"], reg), **ins)
        if sorted(node.inputs) != sorted(ins):
            raise ValueError("the constructor did not take every keyword as an input: %s" % sorted(set(ins) - set(node.inputs)))
        node.inputs.update(forced)
        objs[nd["name"]] = node
    return Graph([objs[s] for s in spec["sinks"]])


def walk(sinks):
    """The oracle's own traversal: every node object reachable from the sinks, parents first.
    Returns (records by name, list of duplicate names)."""
    seen = {}
    order = []
    dups = []
    stack = [(s, False) for s in reversed(list(sinks))]
    while stack:
        node, done = stack.pop()
        if done:
            order.append(node)
            continue
        if id(node) in seen:
            continue
        seen[id(node)] = node
        stack.append((node, True))
        for src in node.inputs.values():
            if id(src.parent) not in seen:
                stack.append((src.parent, False))
    recs = {}
    for n in order:
        if n.name in recs:
            dups.append(n.name)
        recs[n.name] = {"name": n.name, "outputs": list(n.outputs), "payload": n.payload, "type": type(n),
                        "inputs": {k: (v.parent.name, v.name) for k, v in n.inputs.items()}}
    return recs, order, dups


def spec_of_graph(g, desc, reg):
    """Topologically ordered spec of a real graph (used for fluent graphs)."""
    recs, order, dups = walk(g.sinks)
    nodes = [{"name": n.name, "outputs": list(n.outputs), "payload": tag(n.payload, reg),
              "inputs": [[k, v.parent.name, v.name] for k, v in n.inputs.items()]} for n in order]
    return {"kind": "fluent", "desc": desc, "nodes": nodes, "sinks": [s.name for s in g.sinks], "dups": dups}


def canon_node(name, outputs, payload, inputs):
    return {"name": name, "outputs": list(outputs), "payload": payload, "inputs": [list(i) for i in inputs]}     # dict order of inputs is compared


def canon_graph_real(g, reg):
    return sorted([canon_node(n.name, n.outputs, tag(n.payload, reg, register=False), [[k, v.parent.name, v.name] for k, v in n.inputs.items()])
                   for n in g.nodes()], key=lambda r: r["name"])


def canon_ser_real(d, reg):
    out = []
    for name, e in d.items():
        out.append([name, {"outputs": list(e.get("outputs", [])),
                           "inputs": [[k, tag_ref(r)] for k, r in e.get("inputs", {}).items()],
                           "payload": tag(e["payload"], reg, register=False) if "payload" in e and e["payload"] is not None else None}])
    return sorted(out, key=lambda x: x[0])


def canon_ser_model(l, reg):
    return sorted([[name, {"outputs": e["outputs"], "inputs": e["inputs"],
                           "payload": None if e["payload"] is None or e["payload"]["t"] == "none" else canon_model_pv(e["payload"], reg)}] for name, e in l],
                  key=lambda x: x[0])


def canon_round_model(r, reg, with_eq=True, state=False):
    if not r["ok"]:
        return {"ok": False, "err": r["err"]}
    f = (lambda t: by_state(canon_model_pv(t, reg))) if state else (lambda t: canon_model_pv(t, reg))
    out = {"ok": True, "nodes": sorted([canon_node(n["name"], n["outputs"], f(n["payload"]), n["inputs"]) for n in r["nodes"]], key=lambda x: x["name"]),
           "sinks": sorted(r["sinks"])}
    if with_eq:
        out["eq"], out["eq_rev"] = r["eq"], r["eq_rev"]
    return out


def round_real(g, fn, reg, with_eq=True):
    try:
        r = fn()
    except Exception as e:
        return {"ok": False, "err": type(e).__name__, "msg": str(e)[:160]}, None
    try:
        out = {"ok": True, "nodes": canon_graph_real(r, reg), "sinks": sorted(s.name for s in r.sinks)}
        if with_eq:
            out["eq"], out["eq_rev"] = bool(r == g), bool(g == r)
    except Exception as e:
        return {"ok": False, "err": "after:" + type(e).__name__, "msg": str(e)[:160]}, None
    return out, r


def _file_trip(g):
    from earthkit.workflows import Cascade
    with tempfile.TemporaryDirectory(prefix="ekw_c12_") as d:
        path = os.path.join(d, "graph.dill")
        Cascade(g).serialise(path)
        return Cascade.from_serialised(path)._graph


# ----------------------------------------------------------------------------- oracle (property text only)

def jsonable(p):
    """json.dumps takes p"""
    if p is None or isinstance(p, (bool, int, str, float)):
        return True
    if isinstance(p, (list, tuple)):
        return all(jsonable(x) for x in p)
    if isinstance(p, dict):
        return all((k is None or isinstance(k, (str, int, float, bool))) and jsonable(v) for k, v in p.items())
    return False


def faithful(p):
    """JSON represents p faithfully: reading it back gives an equal value (no tuples, string keys, no NaN)."""
    if p is None or isinstance(p, (bool, int, str)):
        return True
    if isinstance(p, float):
        return p == p
    if isinstance(p, list):
        return all(faithful(x) for x in p)
    if isinstance(p, dict):
        return all(isinstance(k, str) and faithful(v) for k, v in p.items())
    return False


def same_function(a, b):
    if a is b:
        return True
    try:
        ca = tuple(c.cell_contents for c in (a.__closure__ or ()))
        cb = tuple(c.cell_contents for c in (b.__closure__ or ()))
    except ValueError:
        return False
    return (a.__code__ == b.__code__ and a.__name__ == b.__name__ and a.__qualname__ == b.__qualname__ and a.__module__ == b.__module__
            and same_payload(a.__defaults__, b.__defaults__) and same_payload(a.__kwdefaults__, b.__kwdefaults__) and same_payload(ca, cb))


def same_payload(a, b):
    """the same payload: same types, same values (a NaN is the same as a NaN, 0.0 is not -0.0, a tuple is not a list), same objects
    where objects have no value (a function pickled by value: same code, defaults, closure and name)"""
    if a is b:
        return True
    if type(a) is not type(b):
        return False
    if a is None or isinstance(a, (bool, int, str)):
        return a == b
    if isinstance(a, float):
        return (a != a and b != b) or (a == b and math.copysign(1.0, a) == math.copysign(1.0, b))
    if isinstance(a, (list, tuple)):
        return len(a) == len(b) and all(same_payload(x, y) for x, y in zip(a, b))
    if isinstance(a, dict):
        if len(a) != len(b):
            return False
        for k, v in a.items():
            hit = [kb for kb in b if type(kb) is type(k) and kb == k]
            if len(hit) != 1 or not same_payload(v, b[hit[0]]):
                return False
        return True
    if isinstance(a, types.FunctionType):
        return same_function(a, b)
    if hasattr(a, "serialise") and hasattr(a, "__dict__"):
        return same_payload(a.__dict__, b.__dict__)
    try:
        return bool(a == b)
    except Exception:
        return False


def has_nan(p):
    if isinstance(p, float):
        return p != p
    if isinstance(p, (list, tuple)):
        return any(has_nan(x) for x in p)
    if isinstance(p, dict):
        return any(has_nan(v) for v in p.values())
    return False


def has_by_value_object(p):
    """an object that has no value of its own (compared by identity) and that pickle cannot store as a reference"""
    if p is None or isinstance(p, (bool, int, str, float)):
        return False
    if isinstance(p, (list, tuple)):
        return any(has_by_value_object(x) for x in p)
    if isinstance(p, dict):
        return any(has_by_value_object(v) for v in p.values())
    if isinstance(p, (set, frozenset)):
        return any(has_by_value_object(x) for x in p)
    if type(p).__eq__ is not object.__eq__ and not isinstance(p, (types.FunctionType, types.BuiltinFunctionType, functools.partial)):
        return False                                  # the object has a value of its own (bytes, complex, a class with __eq__)
    return not by_ref(p)


def py_eq(a, b):
    """Python's own `not (a != b)`; None if the comparison itself raises"""
    try:
        return not (a != b)
    except Exception:
        return None


def oracle_compare(path, orig_sinks, res_graph, need_payload, demand_eq, eq, eq_rev, by_state_only=False):
    """Property text: same nodes, outputs, inputs, payloads, nothing lost; and `==`.  Returns (signature, text) or None."""
    a, _, _ = walk(orig_sinks)
    b, _, dups = walk(res_graph.sinks)
    lost = sorted(set(a) - set(b))
    if lost:
        return ({"kind": "nodes-lost", "path": path}, f"{path} round trip lost {len(lost)} of {len(a)} nodes: {lost[:6]}")
    extra = sorted(set(b) - set(a))
    if extra or dups:
        return ({"kind": "nodes-added", "path": path}, f"{path} round trip produced nodes not in the original: {extra[:6]} duplicates {dups[:6]}")
    for name, ra in a.items():
        rb = b[name]
        if ra["outputs"] != rb["outputs"]:
            return ({"kind": "outputs-differ", "path": path}, f"{path}: node {name!r} outputs {ra['outputs']} came back as {rb['outputs']}")
        if ra["inputs"] != rb["inputs"]:
            return ({"kind": "inputs-differ", "path": path}, f"{path}: node {name!r} inputs {ra['inputs']} came back as {rb['inputs']}")
        if list(ra["inputs"]) != list(rb["inputs"]):
            return ({"kind": "inputs-reordered", "path": path}, f"{path}: node {name!r} inputs {list(ra['inputs'])} came back in the order {list(rb['inputs'])}")
    for name, ra in a.items():
        rb = b[name]
        pa, pb = ra["payload"], rb["payload"]
        if need_payload(pa) and not same_payload(pa, pb):
            sig = {"kind": "payload-differs", "path": path}
            if hasattr(pa, "serialise") and not isinstance(pa, type) and same_payload(pa.serialise(), pb):
                sig["cause"] = "serialise-hook"
            return (sig, f"{path}: node {name!r} payload {pa!r} came back as {pb!r}" +
                    (" (the result of its serialise() method)" if "cause" in sig else ""))
    if by_state_only:
        return None
    # `==` must say what Python's comparison of the payloads says (names, outputs, inputs are the same by now)
    pe = [py_eq(b[n]["payload"], a[n]["payload"]) for n in a]
    pr = [py_eq(a[n]["payload"], b[n]["payload"]) for n in a]
    # a payload comparison that raises: `==` (which did return a bool, or we would not be here) can only have said False after
    # meeting a differing payload first; with no differing payload it must have raised too
    want = [False if False in l else (None if None in l else True) for l in (pe, pr)]
    if eq != want[0] or eq_rev != want[1]:
        return ({"kind": "eq-inconsistent", "path": path},
                f"{path}: nodes, outputs, inputs agree and the payload comparisons give {want[0]}/{want[1]} (None: a comparison raised), "
                f"but result == original is {eq}, original == result is {eq_rev}")
    if demand_eq and not (eq and eq_rev):
        causes = set()
        for n, ok in zip(a, pe):
            if ok:
                continue
            pa = a[n]["payload"]
            c = set()
            if (isinstance(pa, float) and pa != pa) if path == "dict" else has_nan(pa):
                c.add("nan")
            if path == "file" and has_by_value_object(pa):
                c.add("by-value-object")
            if not c:
                causes = None
                break
            causes |= c
        if causes:
            # every payload that compares unequal is the SAME payload (checked above by same_payload) of a kind whose own `==` is
            # not reflexive across copies: a NaN, or an object without a value (a function) that the file path has to re-create.
            # The property demands the same nodes, outputs, inputs and payloads - not more than Python's `!=` can see: measured.
            return ("measured", "%s:%s" % (path, "+".join(sorted(causes))))
        return ({"kind": "not-equal", "path": path}, f"{path} round trip: result == original is {eq}, original == result is {eq_rev}")
    return None


def run_case(spec, g=None, reg=None):
    """Real side of one graph case. Returns (impl outputs for the model comparison, list of oracle failures, reg)."""
    from earthkit.workflows.graph import deserialise, from_json, serialise, to_json
    fails = []
    impl = {}
    try:
        if g is None:
            reg = Reg()
            g = build_real(spec, reg)
        impl["reach"] = sorted(n.name for n in g.nodes())
        impl["ser"] = canon_ser_real(serialise(g), reg)
        impl["self_eq"] = bool(g == g)
    except Exception as e:
        return {"crash": type(e).__name__ + ": " + str(e)[:100]}, [({"kind": "serialise-crash"}, f"serialise raised {type(e).__name__}: {e}")], reg
    recs, _, _ = walk(g.sinks)
    pls = [r["payload"] for r in recs.values()]
    sers = [p.serialise() if hasattr(p, "serialise") and not isinstance(p, type) else p for p in pls]
    all_faithful = all(faithful(p) for p in pls)
    hooks = [p for p in pls if isinstance(p, C12Hook)]
    paths = [("dict", lambda: deserialise(serialise(g)), lambda p: True, True),
             ("json", lambda: from_json(to_json(g)), faithful, all_faithful),
             ("file", lambda: _file_trip(g), lambda p: True, True)]
    try:
        impl["json_ser"] = canon_ser_real(json.loads(to_json(g)), reg)
    except Exception as e:
        impl["json_ser"] = "crash:" + type(e).__name__
    outside = any(n.get("forced") for n in spec["nodes"])
    measured = impl["_measured"] = []
    json_says_no = set()
    for p in sers:                                 # json itself (not to_json) on each serialised payload: its own TypeError messages
        try:
            json.dumps(p)
        except TypeError as e:
            json_says_no.add(str(e)[:160])
        except Exception:
            pass
    for path, fn, need, demand in paths:
        out, r = round_real(g, fn, reg)
        impl[path] = {k: v for k, v in out.items() if k != "msg"}
        if not out["ok"]:
            if outside and out["err"] == "TypeError" and ("multiple values" in out.get("msg", "") or path == "json" and json_says_no):
                measured.append("%s:TypeError-for-input-named-like-Node.__init__-parameter" % path)
                continue                       # outside the quantifier: the constructor cannot build such a node
            if path == "json" and out["err"] == "TypeError" and out.get("msg", "") in json_says_no:
                measured.append("json:TypeError-from-json.dumps")
                continue                       # json.dumps does not take the payloads (its own message): outside the JSON clause
            fails.append(({"kind": "roundtrip-crash", "path": path, "exc": out["err"]}, f"{path} round trip raised {out['err']}: {out.get('msg', '')}"))
            continue
        f = oracle_compare(path, g.sinks, r, need, demand, out["eq"], out["eq_rev"])
        if f and f[0] == "measured":
            measured.append("eq-false-by-python-semantics:" + f[1])
        elif f:
            fails.append(f)
    # the node factory is the documented way back for payload objects with a serialise() method
    out, r = round_real(g, lambda: deserialise(serialise(g), node_factory=inv_factory), reg, with_eq=False)
    if out["ok"]:
        out["nodes"] = [dict(n, payload=by_state(n["payload"])) for n in out["nodes"]]
    impl["dict_inv"] = {k: v for k, v in out.items() if k != "msg"}
    if hooks and all(h.marked for h in hooks) and (not outside or out["ok"]):
        if not out["ok"]:
            fails.append(({"kind": "roundtrip-crash", "path": "dict+factory", "exc": out["err"]}, f"deserialise with a node factory raised {out['err']}: {out.get('msg', '')}"))
        else:
            f = oracle_compare("dict+factory", g.sinks, r, lambda p: True, False, None, None, by_state_only=True)
            if f:
                fails.append(f)
    return impl, fails, reg


_BREAKS = {c: "\ue000%04x;" % ord(c) for c in "\x85\u2028\u2029\ue000"}


def lean_safe(o):
    """core.lean_drive splits the driver's output with str.splitlines(), which also breaks at U+0085 / U+2028 / U+2029 (the Lean
    printer writes them raw): strings are opaque to the model, so such characters travel under an injective escape, applied to
    what goes to the driver and to the real side's results before the comparison."""
    if isinstance(o, str):
        return "".join(_BREAKS.get(c, c) for c in o) if any(c in _BREAKS for c in o) else o
    if isinstance(o, list):
        return [lean_safe(x) for x in o]
    if isinstance(o, dict):
        return {k: lean_safe(v) for k, v in o.items()}
    return o


def model_line(spec):
    return json.dumps(lean_safe({"op": "graph", "sinks": spec["sinks"],
                                 "nodes": [{"name": n["name"], "outputs": n["outputs"], "payload": n["payload"], "inputs": n["inputs"]} for n in spec["nodes"]]}))


def compare_graph(ctx, spec, impl, mo, reg):
    if "crash" in impl:
        ctx.disagree("serialise", {"spec": spec}, "no exception", impl["crash"])
        return
    checks = [("reach", sorted(mo["reach"]), impl["reach"]), ("serialise", canon_ser_model(mo["ser"], reg), impl["ser"]),
              ("self-eq", mo["self_eq"], impl["self_eq"]),
              ("to_json", "crash:TypeError" if mo["json_ser"] is None else canon_ser_model(mo["json_ser"], reg), impl["json_ser"]),
              ("dict-roundtrip", canon_round_model(mo["dict"], reg), impl["dict"]),
              ("json-roundtrip", canon_round_model(mo["json"], reg), impl["json"]),
              ("file-roundtrip", canon_round_model(mo["file"], reg), impl["file"]),
              ("factory-roundtrip", canon_round_model(mo["dict_inv"], reg, with_eq=False, state=True), impl["dict_inv"])]
    for where, m, i in checks:
        if m != lean_safe(i):
            ctx.disagree(where, {"spec": spec}, m, i)
            return


# ----------------------------------------------------------------------------- `==` on graphs that differ
# The round trips alone evaluate Graph.__eq__ almost only on equal graphs (an `__eq__` that ignores outputs or inputs would pass):
# each probe compares a graph with a copy that has ONE small change (or none) - model `graphEq` against the real `==`, and the
# oracle's own structural comparison (property text: same nodes, outputs, inputs, payloads) against the real `==`.

PERTURB = ["payload", "outputs-reversed", "output-repeated", "output-added", "input-renamed", "input-rewired", "input-dropped",
           "inputs-reordered", "node-renamed", "sink-dropped", "identical"]


def gen_perturb(rng, spec):
    """(kind, copy of the DAG spec with one change of that kind), or None"""
    import copy
    if not spec["nodes"] or any(n.get("forced") for n in spec["nodes"]):
        return None
    kinds = list(PERTURB)
    rng.shuffle(kinds)
    for kind in kinds:
        s2 = copy.deepcopy(spec)
        nodes = s2["nodes"]
        names = {n["name"] for n in nodes}
        n = rng.choice(nodes)
        if kind == "payload":
            n["payload"] = {"t": "str", "v": "__perturbed__"}
        elif kind == "outputs-reversed":
            c = [m for m in nodes if m["outputs"] != m["outputs"][::-1]]
            if not c:
                continue
            n = rng.choice(c)
            n["outputs"], n["dflt"] = n["outputs"][::-1], False
        elif kind == "output-repeated":
            c = [m for m in nodes if m["outputs"]]
            if not c:
                continue
            n = rng.choice(c)
            n["outputs"], n["dflt"] = n["outputs"] + [rng.choice(n["outputs"])], False
        elif kind == "output-added":
            n["outputs"], n["dflt"] = n["outputs"] + ["zz_extra"], False
        elif kind in ("input-renamed", "input-rewired", "input-dropped", "inputs-reordered"):
            c = [m for m in nodes if len(m["inputs"]) >= (2 if kind == "inputs-reordered" else 1)]
            if not c:
                continue
            n = rng.choice(c)
            j = rng.randrange(len(n["inputs"]))
            if kind == "input-renamed":
                if "zz_in" in [i[0] for i in n["inputs"]]:
                    continue
                n["inputs"][j][0] = "zz_in"
            elif kind == "input-dropped":
                del n["inputs"][j]
            elif kind == "inputs-reordered":
                n["inputs"] = n["inputs"][1:] + n["inputs"][:1]
            else:
                cands = [[p["name"], o] for p in nodes[:nodes.index(n)] for o in p["outputs"] if [p["name"], o] != n["inputs"][j][1:]]
                if not cands:
                    continue
                n["inputs"][j][1:] = rng.choice(cands)
        elif kind == "node-renamed":
            old, new = n["name"], n["name"] + "~"
            if new in names:
                continue
            n["name"] = new
            for m in nodes:
                for i in m["inputs"]:
                    if i[1] == old:
                        i[1] = new
            s2["sinks"] = [new if x == old else x for x in s2["sinks"]]
        elif kind == "sink-dropped":
            if len(set(s2["sinks"])) < 2:
                continue
            victim = rng.choice(s2["sinks"])
            s2["sinks"] = [x for x in s2["sinks"] if x != victim]
        return kind, s2
    return None


def structurally_equal(g, g2):
    """property text: same nodes, outputs, inputs (a dict: order does not count) and payloads (Python's own comparison; None if it
    raises with no differing payload before)"""
    a, _, _ = walk(g.sinks)
    b, _, _ = walk(g2.sinks)
    if set(a) != set(b):
        return False
    for name, ra in a.items():
        if ra["outputs"] != b[name]["outputs"] or ra["inputs"] != b[name]["inputs"]:
            return False
    pe = [py_eq(a[n]["payload"], b[n]["payload"]) for n in a]
    return False if False in pe else (None if None in pe else True)


def run_perturb(spec, kind, spec2):
    """real `==` both ways on the two graphs (opaque objects of one identity are the same object in both) + oracle"""
    reg = Reg()
    try:
        g, g2 = build_real(spec, reg), build_real(spec2, reg)
        out = {"eq": bool(g == g2), "eq_rev": bool(g2 == g)}
    except Exception as e:
        return {"crash": type(e).__name__ + ": " + str(e)[:100]}, [({"kind": "eq-crash", "perturbation": kind}, f"`==` of a graph and its copy with change {kind!r} raised {type(e).__name__}: {e}")]
    want, want_rev = structurally_equal(g, g2), structurally_equal(g2, g)
    fails = []
    if out["eq"] != want or out["eq_rev"] != want_rev:
        fails.append(({"kind": "eq-wrong-on-different-graphs", "perturbation": kind},
                      f"a graph and its copy with change {kind!r}: comparing nodes, outputs, inputs and payloads gives {want}/{want_rev}, "
                      f"but graph == copy is {out['eq']}, copy == graph is {out['eq_rev']}"))
    return out, fails


def perturb_line(spec, spec2):
    f = lambda s: {"sinks": s["sinks"], "nodes": [{"name": n["name"], "outputs": n["outputs"], "payload": n["payload"], "inputs": n["inputs"]} for n in s["nodes"]]}
    return json.dumps(lean_safe({"op": "eq2", "a": f(spec), "b": f(spec2)}))


# ----------------------------------------------------------------------------- damaged dicts

def gen_damage(rng, spec):
    """A serialised dict of `spec` (in spec order) with at most one defect."""
    entries = []
    for n in spec["nodes"]:
        e = {"outputs": list(n["outputs"]), "inputs": [[i[0], i[1] if i[2] == D else {"t": rng.choice(["tuple", "list"]), "v": [i[1], i[2]]}] for i in n["inputs"]],
             "payload": None if n["payload"]["t"] == "none" else n["payload"]}
        entries.append([n["name"], e])
    x = rng.random()
    what = "intact"
    consumed = [i[1] for n in spec["nodes"] for i in n["inputs"]]
    if x < 0.3 and consumed:
        victim = rng.choice(consumed)
        entries = [e for e in entries if e[0] != victim]
        # entries that consumed nothing else stay; the victim's own parents stay
        what = "missing-entry"
    elif x < 0.55 and consumed:
        cands = [(k, j) for k, e in enumerate(entries) for j, i in enumerate(e[1]["inputs"])]
        k, j = rng.choice(cands)
        par = entries[k][1]["inputs"][j][1]
        par = par if isinstance(par, str) else par["v"][0]
        entries[k][1]["inputs"][j][1] = {"t": "tuple", "v": [par, "no_such_output"]}
        what = "missing-output"
    elif x < 0.85 and consumed:
        # an input called like a parameter of a function on the call path of deserialise (by introspection)
        params = pools()[2]
        cands = [(k, j) for k, e in enumerate(entries) for j, i in enumerate(e[1]["inputs"])]
        k, j = rng.choice(cands)
        free = [p for p in params if p not in [i[0] for i in entries[k][1]["inputs"]]]
        if free:
            entries[k][1]["inputs"][j][0] = rng.choice(free)
            what = "input-named-like-a-parameter"
    order = list(range(len(entries)))
    rng.shuffle(order)
    return {"kind": "damage", "what": what, "data": entries, "order": order}


def run_damage(case):
    from earthkit.workflows.graph import deserialise
    reg = Reg()
    data = {}
    for k in case["order"]:
        name, e = case["data"][k]
        d = {"outputs": list(e["outputs"]), "inputs": {i[0]: (i[1] if isinstance(i[1], str) else (tuple(i[1]["v"]) if i[1]["t"] == "tuple" else list(i[1]["v"]))) for i in e["inputs"]}}
        if e["payload"] is not None:
            d["payload"] = untag(e["payload"], reg)
        data[name] = d
    out, _ = round_real(None, lambda: deserialise(data), reg, with_eq=False)
    return {k: v for k, v in out.items() if k != "msg"}, reg


# ----------------------------------------------------------------------------- check

def _nontrivial(spec):
    consumed = {i[1] for n in spec["nodes"] for i in n["inputs"]}
    term_out = any(n["name"] not in consumed and n["outputs"] for n in spec["nodes"])
    multi = any(len(n["outputs"]) > 1 and n["name"] in consumed for n in spec["nodes"])
    return len(spec["nodes"]) >= 3 and (term_out or multi)


def _account(ctx, spec, impl):
    ctx.count("graphs:" + spec["kind"])
    ctx.count("nodes", len(spec["nodes"]))
    consumed = {i[1] for n in spec["nodes"] for i in n["inputs"]}
    params, init_kw = introspected_names()
    classes = set()
    for n in spec["nodes"]:
        term = n["name"] not in consumed
        ctx.count("node:" + ("terminal" if term else "inner") + ("-no-outputs" if not n["outputs"] else ("-multi-output" if len(n["outputs"]) > 1 else "-one-output")))
        ctx.count("payload:" + n["payload"]["t"])
        here = scan(n["payload"], set())
        if n["payload"]["t"] == "hook":
            here.add("hook-at-top-level")
        elif "hook" in here:
            here.add("hook-nested")
        if n["payload"]["t"] == "float" and n["payload"]["nan"]:
            here.add("nan-at-top-level")
        for c in here:
            ctx.count("payload-holds:" + c)
        classes |= here
        for i in n["inputs"]:
            ctx.count("input:" + ("default-output" if i[2] == D else "named-output"))
            if i[0] in params:
                ctx.count("input-named-like-parameter:" + i[0])
    for c in sorted(classes):
        ctx.count("graphs-with-payload-holding:" + c)
    for m in impl.get("_measured", ()):
        ctx.count("measured:" + m)
    if spec["kind"] == "dag":
        if any(len(set(n["outputs"])) < len(n["outputs"]) for n in spec["nodes"]):
            ctx.count("graphs-with-duplicate-output-names")
        if any(len(set(n["outputs"])) < len(n["outputs"]) and any(i[1] == n["name"] for m in spec["nodes"] for i in m["inputs"]) for n in spec["nodes"]):
            ctx.count("graphs-with-duplicate-output-names-on-a-consumed-node")
        ctx.count("max-outputs:%d" % max([len(n["outputs"]) for n in spec["nodes"]] + [0]))
        ctx.count("max-inputs:%d" % max([len(n["inputs"]) for n in spec["nodes"]] + [0]))
        if len(set(spec["sinks"])) < len(spec["sinks"]):
            ctx.count("graphs-with-a-node-twice-in-sinks")
    for path in ("dict", "json", "file"):
        if path in impl:
            ctx.count("%s-roundtrip:%s" % (path, ("ok eq=%s" % impl[path]["eq"]) if impl[path]["ok"] else impl[path]["err"]))
    if spec["kind"] == "dag":
        node_names = {n["name"] for n in spec["nodes"]}
        out_names = {o for n in spec["nodes"] for o in n["outputs"]}
        ref_outs = {i[2] for n in spec["nodes"] for i in n["inputs"] if i[2] != D}
        par_names = {i[0] for n in spec["nodes"] for i in n["inputs"]}
        if node_names & out_names:
            ctx.count("graphs-node-named-like-an-output")
        if any(n["name"] not in consumed and n["name"] in ref_outs for n in spec["nodes"]):
            ctx.count("graphs-terminal-node-named-like-a-referenced-output")
        if any(n["name"] in consumed and n["name"] in ref_outs for n in spec["nodes"]):
            ctx.count("graphs-inner-node-named-like-a-referenced-output")
        if node_names & par_names:
            ctx.count("graphs-node-named-like-an-input-parameter")
        if any(a != b and (a.startswith(b) or a.endswith(b)) for a in node_names for b in node_names if b):
            ctx.count("graphs-node-name-prefix-or-suffix-of-another")
        if any(n["name"] in n["outputs"] for n in spec["nodes"]):
            ctx.count("graphs-node-named-like-its-own-output")
        if any("%s.%s" % (i[1], i[2]) in node_names for n in spec["nodes"] for i in n["inputs"]):
            ctx.count("graphs-node-named-parent.output-of-a-reference")
    if any(n.get("forced") for n in spec["nodes"]):
        ctx.count("graphs-with-input-forced-to-a-Node.__init__-parameter-name(tie-only)")
    if not spec["nodes"]:
        ctx.count("empty-graph")
    if len(spec["sinks"]) > 1:
        ctx.count("graphs-with-several-sinks")
    if "reach" in impl and len(impl["reach"]) < len(spec["nodes"]):
        ctx.count("graphs-with-unreachable-spec-nodes")
    shared = [p for p in consumed if sum(1 for n in spec["nodes"] for i in n["inputs"] if i[1] == p) > 1]
    if shared:
        ctx.count("graphs-with-shared-parents")


def shrink_spec(spec, pred):
    """Drop nodes (with everything depending on them), payloads and inputs while the failure persists."""
    cur = spec
    for _ in range(3):
        nxt = _shrink_once(cur, pred)
        if nxt == cur:
            break
        cur = nxt
    return cur


def _shrink_once(spec, pred):
    cur = spec
    changed = True
    while changed:
        changed = False
        for k in range(len(cur["nodes"]) - 1, -1, -1):
            victim = cur["nodes"][k]["name"]
            gone = {victim}
            nodes = []
            for n in cur["nodes"]:
                if n["name"] in gone or any(i[1] in gone for i in n["inputs"]):
                    gone.add(n["name"])
                else:
                    nodes.append(n)
            sinks = [s for s in cur["sinks"] if s not in gone]
            if not sinks:                         # the only sink went: the remaining terminal nodes take over
                used = {i[1] for n in nodes for i in n["inputs"]}
                sinks = [n["name"] for n in nodes if n["name"] not in used]
            cand = {"kind": "dag", "nodes": nodes, "sinks": sinks}
            if nodes and sinks and pred(cand):
                cur, changed = cand, True
                break
    # then simplify what is left: payloads to None, inputs dropped one by one
    for k in range(len(cur["nodes"])):
        n = cur["nodes"][k]
        trials = []
        if n["payload"]["t"] != "none":
            trials.append(dict(n, payload={"t": "none"}))
        trials += [dict(n, inputs=n["inputs"][:j] + n["inputs"][j + 1:]) for j in range(len(n["inputs"]))]
        for t in trials:
            base = cur["nodes"][k]
            t = dict(base, **{f: t[f] for f in ("payload", "inputs") if t[f] != n[f]})
            if "forced" in t:
                t["forced"] = [x for x in t["forced"] if x in [i[0] for i in t["inputs"]]]
            cand = dict(cur, nodes=cur["nodes"][:k] + [t] + cur["nodes"][k + 1:])
            used = {i[1] for m in cand["nodes"] for i in m["inputs"]}
            cand["sinks"] = list(cur["sinks"]) + [m["name"] for m in cand["nodes"] if m["name"] not in used and m["name"] not in cur["sinks"]]
            try:
                if pred(cand):
                    cur = cand
            except Exception:
                pass
    return cur


def _same(sig):
    def pred(spec):
        return any(f[0] == sig for f in run_case(spec)[1])
    return pred


def _load_corpus():
    from ekw.core import CORPUS_DIR
    specs = []
    for f in sorted(glob.glob(str(CORPUS_DIR / "C12_*.json"))):
        spec = json.load(open(f))["spec"]
        for n in spec["nodes"]:
            n["payload"] = norm_tag(n["payload"])
        specs.append(spec)
    return specs


def _cases(ctx, n_dag, n_fluent, n_damage, maxn):
    specs = _load_corpus()
    for _ in range(n_dag):
        specs.append(gen_spec(ctx.rng, maxn))
    graphs = [None] * len(specs)
    regs = [None] * len(specs)
    n_steps = n_rej = n_prog_rej = 0
    for _ in range(n_fluent):
        desc = gen_fluent(ctx.rng)
        try:
            g, applied = build_fluent(desc)
            reg = Reg()
            spec = spec_of_graph(g, desc, reg)
            for a in applied:
                ctx.count("fluent-step-" + a if a.startswith("rejected:") else "fluent-op:" + a)
            n_steps += len(applied)
            n_rej += sum(1 for a in applied if a.startswith("rejected:"))
        except Exception as e:
            ctx.count("fluent-program-rejected:" + type(e).__name__)
            n_prog_rej += 1
            continue
        if spec["dups"]:                              # outside the property's quantifier (C14's matter)
            ctx.count("fluent-graph-with-duplicate-names-skipped")
            n_prog_rej += 1
            continue
        specs.append(spec)
        graphs.append(g)
        regs.append(reg)
    # floor: the fluent part of the tie must not fade away silently (an API change that makes the generated programs invalid)
    if n_fluent >= 20 and (n_prog_rej * 4 > n_fluent or n_rej * 2 > max(n_steps, 1)):
        ctx.disagree("fluent-generator", {"programs": n_fluent, "programs_rejected": n_prog_rej, "steps": n_steps, "steps_rejected": n_rej},
                     "at least 3/4 of the fluent programs and 1/2 of their steps are accepted by the API", "fewer")
    damages = [gen_damage(ctx.rng, gen_spec(ctx.rng, 7, plain=ctx.rng.random() < 0.7, forced_ok=False)) for _ in range(n_damage)]   # at most ONE defect
    return specs, graphs, regs, damages


def _perturbations(ctx, specs, rate):
    out = []
    for spec in specs:
        if spec["kind"] == "dag" and ctx.rng.random() < rate:
            p = gen_perturb(ctx.rng, spec)
            if p:
                out.append((spec, p[0], p[1]))
    return out


def _fluent_loss(ctx, g):
    """what a deserialised fluent graph no longer has (measured; the property names nodes, outputs, inputs, payloads only)"""
    from earthkit.workflows.graph import deserialise, serialise
    try:
        a, _, _ = walk(g.sinks)
        b, _, _ = walk(deserialise(serialise(g)).sinks)
    except Exception:
        return
    for name, ra in a.items():
        if name in b and b[name]["type"] is not ra["type"]:
            ctx.count("fluent-node-class-not-restored")


def _run(ctx, specs, graphs, regs, damages, compare=True):
    from ekw.core import lean_drive
    impls = []
    shrunk = set()
    regs = list(regs)
    for k, (spec, g) in enumerate(zip(specs, graphs)):
        impl, fails, regs[k] = run_case(spec, g, regs[k])
        impls.append(impl)
        _account(ctx, spec, impl)
        if g is not None and len(impls) % 10 == 0:
            _fluent_loss(ctx, g)
        ctx.case({"kind": spec["kind"], "n_nodes": len(spec["nodes"]), "sinks": spec["sinks"], "desc": spec.get("desc"),
                  "nodes": [[n["name"], n["outputs"], n["inputs"]] for n in spec["nodes"][:8]]}, nontrivial=_nontrivial(spec))
        for sig, what in fails:
            key = json.dumps(sig, sort_keys=True)
            case = {"spec": spec}
            if spec["kind"] == "dag" and key not in shrunk:
                shrunk.add(key)
                small = shrink_spec(spec, _same(sig))
                f2 = [f for f in run_case(small)[1] if f[0] == sig]
                case, what = {"spec": small}, (f2[0][1] if f2 else what)
            ctx.violation(sig, case, what)
    perts = _perturbations(ctx, specs, 0.5)
    pert_out = []
    for spec, kind, spec2 in perts:
        out, fails = run_perturb(spec, kind, spec2)
        pert_out.append(out)
        ctx.count("eq-probe:" + kind + (":" + ("crash" if "crash" in out else "eq=%s" % out["eq"])))
        for sig, what in fails:
            ctx.violation(sig, {"spec": spec, "perturbed": spec2, "perturbation": kind}, what)
    dam_out = []
    for c in damages:
        dam_out.append(run_damage(c))
        ctx.count("damaged-dict:" + c["what"])
        ctx.count("damaged-dict-result:" + (dam_out[-1][0]["err"] if not dam_out[-1][0]["ok"] else "ok"))
    if not compare:
        return
    lines = ([model_line(s) for s in specs] + [json.dumps(lean_safe({"op": "deser", "data": c["data"]})) for c in damages] +
             [perturb_line(a, b) for a, _, b in perts])
    res = [json.loads(x) for x in lean_drive("C12", lines)]
    for spec, impl, mo, reg in zip(specs, impls, res, regs):
        ctx.traces += 1
        compare_graph(ctx, spec, impl, mo, reg)
    for (spec, kind, spec2), out, mo in zip(perts, pert_out, res[len(specs) + len(damages):]):
        ctx.traces += 1
        if mo != out:
            ctx.disagree("eq-on-different-graphs", {"spec": spec, "perturbed": spec2, "perturbation": kind}, mo, out)
    for c, (out, reg), mo in zip(damages, dam_out, res[len(specs):]):
        ctx.traces += 1
        m = canon_round_model(mo["deser"], reg, with_eq=False)
        if m != lean_safe(out):
            ctx.disagree("deserialise-damaged", {"damage": c}, m, out)


def correspond(ctx):
    specs, graphs, regs, damages = _cases(ctx, ctx.budget(400, 15000), ctx.budget(60, 1500), ctx.budget(160, 4000), ctx.budget(10, 14))
    _run(ctx, specs, graphs, regs, damages)


def oracle_only(ctx):
    specs, graphs, regs, damages = _cases(ctx, ctx.budget(600, 15000), ctx.budget(60, 1500), 0, 12)
    _run(ctx, specs, graphs, regs, [], compare=False)


def search(ctx, why):
    if ctx.violations:
        return
    specs = [d["case"]["spec"] for d in ctx.disagreements if isinstance(d.get("case"), dict) and "spec" in d["case"] and d["case"]["spec"]["kind"] == "dag"][:100]
    more, graphs, regs, _ = _cases(ctx, ctx.budget(1500, 30000), ctx.budget(100, 2000), 0, 14)
    _run(ctx, specs + more, [None] * len(specs) + graphs, [None] * len(specs) + regs, [], compare=False)


def replay(payload):
    if "perturbed" in payload["case"]:
        c = payload["case"]
        for n in c["spec"]["nodes"] + c["perturbed"]["nodes"]:
            n["payload"] = norm_tag(n["payload"])
        print("graph     ", [[n["name"], n["outputs"], n["inputs"], n["payload"]] for n in c["spec"]["nodes"]], "sinks", c["spec"]["sinks"])
        print("its copy  ", [[n["name"], n["outputs"], n["inputs"], n["payload"]] for n in c["perturbed"]["nodes"]], "sinks", c["perturbed"]["sinks"])
        out, fails = run_perturb(c["spec"], c["perturbation"], c["perturbed"])
        print("change", c["perturbation"], "->", out)
        print("oracle:", fails)
        return 1 if fails else 0
    spec = payload["case"]["spec"]
    g = reg = None
    if spec["kind"] == "fluent":
        g, applied = build_fluent(spec["desc"])
        reg = Reg()
        spec = spec_of_graph(g, spec["desc"], reg)
        print("fluent program", spec["desc"], "applied", applied)
    for n in spec["nodes"]:
        n["payload"] = norm_tag(n["payload"])
        print("node", n["name"], "outputs", n["outputs"], "inputs", n["inputs"], "payload", n["payload"])
    print("sinks", spec["sinks"])
    impl, fails, _ = run_case(spec, g, reg)
    for k in ("dict", "json", "file", "dict_inv"):
        if k in impl:
            print(k, "->", json.dumps(impl[k])[:400])
    print("oracle:", fails)
    return 1 if fails else 0
