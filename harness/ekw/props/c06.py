"""C06 — acknowledged messaging delivers each message exactly once despite loss or duplication;
else the sender raises after bounded retries; malformed frame sequences are rejected.

Tie: the real `ReliableSender`, `Listener` (incl. `_recv_one`, `recv_messages`), `Bridge.recv_events`,
`Bridge.shutdown`, `Executor.recv_loop` (shell objects) and `DataServer.recv_loop` (the real DataServer, built by its
own __init__ over a stub thread pool) - one loop iteration at a time in coroutine threads -
wired to a FakeNet with a harness-controlled adversary (drop / duplicate / delay / reorder / inject malformed
frame lists) and a fake clock, against Model/Ack.lean + Model/Frames.lean through Drive/C06.lean, op by op.
"Handed to the application" is observed where the loop body takes a message out of the batch returned by
`recv_messages` (resp. where `recv_events` returns its events), not at the return of `recv_messages`.
Translator `retry_loops`: AST of executor.py / bridge.py / data_server.py / comms.py -> Gen/RetryLoops.lean (loops,
derived phases, poll timeouts, constants, `raiseEnds` = no except handler swallows the ValueError of maybe_retry, the
receive-only loops, and the structural scan "Listener.acked only grows / ReliableSender.idx only increments").
Oracle: written from the property text (handed to the receiving application exactly once or the sender raises
once time has passed; never twice; never a different message; malformed frame sequences raise).
"""
import ast
import glob
import json
import pickle

PROPERTY = "C06"
LEVEL_TEXT = ("Lean theorems over Model/Ack.lean (ReliableSender send/ack/maybe_retry; BOTH wire shapes of an acknowledged message - Syn + "
              "message as ReliableSender.send frames it, Syn + header + value as comms.send_data frames a DatasetTransmitPayload -; "
              "Listener._recv_one always-ack + accept-unseen; "
              "recv_messages batches; the loop body taking messages one by one, Bridge.recv_events staging Events until it returns, "
              "abandoned iterations; per-endpoint clocks, any number of endpoints, adversarial network that drops, duplicates, delays and "
              "reorders data frames and acknowledgements) and Model/Frames.lean (frame-sequence parser). For EVERY history, any interleaving: "
              "LISTENER level - no Syn accepted twice, an accepted message is the one handed to send under that idx, every sent message is in "
              "flight or accepted, in-flight entries disappear only when the loop body feeds the matching Ack, an Ack exists only after "
              "acceptance; recording the Syn and dropping a second copy do not depend on the frame shape (c06_dedup_shape_independent, "
              "c06_collect_records_syn, c06_second_copy_dropped in ANY state; c06_payload_exactly_once_listener over histories). APPLICATION level - over handed-over / waiting / discarded no Syn occurs twice and every accepted message is in "
              "exactly one of the three (c06_app_at_most_once, c06_app_accounted); nothing is discarded except by an abandoned iteration; an "
              "iteration that is not abandoned hands everything over; exactly-once at application level is PARTIAL (destination never "
              "abandons an iteration) with c06_app_exactly_once_full_fails as witness (the Listener acknowledges before the application is "
              "handed the message). RETRIES - at most max_retries+1 transmissions, then the raise; 'the sender raises' in these theorems is the "
              "model's flag `raised` of the maybe_retry call: it is set within max_retries "
              "timer rounds and, with iterations of at most B ms, by the deadline remaining*(grace+B) ms whatever the network does - both "
              "PARTIAL (destination host not popped; c06_raises_within_budget_full_fails). THE RAISE ENDS THE LOOP - over the model's loop "
              "runner loopFrom (iterations until one ends with the sender having raised) every loop whose row says callsRetry and raiseEnds ends "
              "up with the message acknowledged or the loop ENDED with the raise, never going on with it undelivered (c06_raise_ends_loop, "
              "c06_steady_loops_end_at_raise over the generated table); that no except handler around maybe_retry swallows the ValueError is the "
              "generated column raiseEnds (c06_steady_loops_raise_ends, decide); that the real Bridge.recv_events / Executor.recv_loop really "
              "end in that iteration (shutdown + ValueError to the controller / ExecutorFailure + terminate) is NOT proved: the tie compares it "
              "(`stops` of every poll line) and the oracle excuses an undelivered message only when the raise reached the application. FORGED/MALFORMED frames - the parser accepts "
              "exactly the four legal shapes; in any state a malformed list is rejected or swallowed as a retransmission, never accepted "
              "(c06_malformed_rejected); in every history with injected malformed lists everything accepted / handed over is genuine - the "
              "message sent under that Syn to this endpoint or a local callback message (c06_malformed_never_delivered); even with arbitrary "
              "injected frames no Syn is accepted or handed over twice (c06_forged_never_twice); exactly-once fails with malformed frames "
              "(c06_app_exactly_once_forged_fails). LOOPS (generated "
              "table, decide) - steady loops feed Acks, call maybe_retry, do not swallow its raise, and every non-startup loop polls with a finite timeout; deadline in "
              "the constants of the source; the receive-only loop DataServer.recv_loop (a Listener without a ReliableSender) is in its own table "
              "(c06_recv_only_loops) and is driven. SOURCE SHAPE - Listener.acked is only constructed empty, tested and .add-ed to, "
              "ReliableSender.idx only set to 0 and incremented (c06_source_monotone over the generated scan: the model's unbounded monotone "
              "acked / idx, on which at-most-once rests, are the source's). Carried by the tie only: that a finite poll timeout makes iterations "
              "happen (fake poller blocks for ever on timeout None), that what recv_events returns is what was staged, that a raise of maybe_retry "
              "leaves the real loop function, that de-duplication still holds after 1500+ messages through one Listener (long family, oracle only).")
LEVEL_NOTE = ("modelled, not verified: comms.py ReliableSender/Listener/callback, the dispatch / Ack feeding / maybe_retry call / batch handling of "
              "Bridge.recv_events, Bridge.shutdown, Executor.recv_loop, DataServer.recv_loop (receive side only; its jobs - shm, send_data - are "
              "stubbed, its own re-send rule is C07's); zmq sockets, the poller and the clock are fakes; pickle is trusted. Random histories are "
              "at most ~100 ops (model-compared); the long family (1500-1900 messages, delayed duplicates) is oracle-only. The direction "
              "controller -> data server is acknowledged by the data server's Listener and sampled through the real DataServer loop; the data "
              "server's answers (payloads) are sent by comms.send_data under the data server's own rule (C07), here by a ReliableSender stand-in. "
              "Known: shutdown handshake (Bridge.shutdown loop, ExecutorExit of a leaving executor), popped hosts, acknowledged-then-abandoned "
              "batches (break / handler exception in Executor.recv_loop, Bridge.recv_events or DataServer.recv_loop / shutdown_reason / "
              "maybe_retry raising / malformed frame), Ack sent before a frame list is validated.")
TECHNIQUE = ("Lean 4 proof: 17-conjunct invariant + induction over the step list (unrestricted adversary), permutation invariant for the "
             "application-level places, potential arguments for the retry budget and for the wall-clock deadline, weaker invariants for "
             "frame-forging adversaries (InvF: arbitrary frames, InvM: malformed frames); AST translator for the endpoint loops (phases derived from the source, poll timeouts, except handlers around maybe_retry, uses of Listener.acked / ReliableSender.idx); differential "
             "correspondence with the real classes over a fake network, loop bodies observed message by message")
LEAN_PROPS = ["EkwVerif.Props.C06"]
LEAN_DRIVERS = ["C06"]
RULE = ("random histories over 2-4 endpoints (real Bridge / Executor shells, the real DataServer loop, or bare Listener+ReliableSender pairs, both directions): sends "
        "of regular messages and of DatasetTransmitPayloads (data path: from the bare endpoint that plays a data server to the controller = fetch, "
        "between bare endpoints = host-to-host transmit; framed as Syn + header + value by the real comms.send_data, so a duplicated or re-sent "
        "payload takes the three-frame path of _recv_one), "
        "local un-acknowledged callbacks, per-packet drop / duplicate / out-of-order delivery of data frames and Acks, clock ticks around "
        "the resend grace, loop iterations (or single _recv_one / maybe_retry calls on bare endpoints), host removal; in 30% of the histories "
        "malformed frame lists (legal shapes damaged, Syn frames naming live endpoints) injected into receive queues; in 40% application-level "
        "failures (dead worker, TaskFailure reports, unexpected message types, early ExecutorShutdown, Bridge.shutdown); 20% run with the real "
        "budget of 20 retries; every history ends with max_retries+2 timer rounds under a fair or black-holing network. Plus the deterministic "
        "witnesses of every known finding (each checked to still show its signature: a witness that stops reproducing is a NOTE + count), two witnesses "
        "in which the budget runs out inside the real Bridge.recv_events / Executor.recv_loop (the raise must end the loop), two LONG oracle-only histories "
        "(1500-1900 messages through one real Listener - bare or Executor.recv_loop -, copies of early packets delivered 100 to 1300+ messages later and at the very end), "
        "six deterministic payload histories (payload duplicated by the network towards the real Bridge - one "
        "batch / two batches -, re-sent after a lost Ack, re-sent with the Ack late, three copies at a bare data-server Listener read by single "
        "_recv_one calls, payloads in both directions under equal Syn indices), and random frame lists around the legal shapes for _recv_one in isolation (non-trivial = rejected "
        "or swallowed as duplicate). non-trivial history = at least one dropped or duplicated packet and at least one retransmission, or an "
        "abandoned iteration; distinct by content hash. oracle_violations counts the replays of the known findings too")
ASSUMPTIONS = [
    "zmq PUSH/PULL sockets, zmq.Poller and the time module are replaced by in-process fakes (multipart messages are atomic, as in zmq); a blocking poll with a finite timeout returns whenever the harness lets the loop run, one with timeout None only when a packet is queued",
    "the theorems about Reachable states are about a network adversary that drops, duplicates, delays and reorders whole multipart messages; frame-forging adversaries only in the theorems that say so (runF)",
    "hosts are added to a ReliableSender only at construction (Bridge registration / Executor.__init__); they may be removed later",
    "deadline theorems: the clock of an endpoint advances only while it is blocked in its poll (work per iteration enters as `slack`)",
    "clock readings are multiples of 1 ms; each endpoint has its own clock",
    "payload traffic: the acknowledged sender of a payload is the real ReliableSender whose PUSH socket hands a pickled DatasetTransmitPayload to the real "
    "comms.send_data (the data server's own 4 s re-send rule around send_data is C07's Model/Transfer.lean); message ids from 1000000 on are payloads (Model/Ack.lean shapeOf)",
    "worker processes, shm server and data server of the Executor shell are stubs; max_retries_per_message is patched to 1-3 in 80% of the histories (20 in the rest)",
    "DataServer endpoints: the real DataServer (own __init__) with ThreadPoolExecutor replaced by a pool that completes every job at once without running it, shm_client.purge a no-op, data_server.time_ns the fake clock; only its receive side (Listener, dispatch, what ends an iteration) is exercised",
    "raiseEnds (translator): a ValueError of maybe_retry counts as ending the loop iff every catching handler around the call re-raises, breaks / returns / sets the `while not self.<flag>` flag (inside the loop), or - outside the loop - has no return and the method ends with `raise`; the tie observes the outcome (`stops`) on every iteration in which the real maybe_retry raised",
    "structural scan: any use of `.acked` in src/cascade/executor other than `self.acked = set()` in Listener.__init__, `x in self.acked`, `self.acked.add(x)`, and any store to `.idx` other than `self.idx = 0` in ReliableSender.__init__ / `self.idx += 1`, breaks c06_source_monotone (conservative: a harmless new use is a broken obligation to be looked at)",
]

GRACE_MS = 800
DATA_BASE = 1000000      # Model/Ack.lean `dataBase`: message ids from here on are DatasetTransmitPayloads (three-frame shape)


# ----------------------------------------------------------------------------- modules

def _mods():
    import cascade.executor.bridge as bridge_mod
    import cascade.executor.comms as comms
    import cascade.executor.executor as executor_mod
    import cascade.executor.msg as msg
    return comms, bridge_mod, executor_mod, msg


# ----------------------------------------------------------------------------- translator

SEND_CALLS = (("sender", "send"),)          # self.sender.send(...)
SEND_METHODS = ("_send", "to_controller")   # self._send(...), self.to_controller(...)


def _is_self_attr_call(node, obj, meth):
    """`self.<obj>.<meth>(...)`"""
    return (isinstance(node, ast.Call) and isinstance(node.func, ast.Attribute) and node.func.attr == meth
            and isinstance(node.func.value, ast.Attribute) and node.func.value.attr == obj
            and isinstance(node.func.value.value, ast.Name) and node.func.value.value.id == "self")


def _is_self_call(node, meth=None):
    """`self.<meth>(...)`"""
    return (isinstance(node, ast.Call) and isinstance(node.func, ast.Attribute)
            and isinstance(node.func.value, ast.Name) and node.func.value.id == "self"
            and (meth is None or node.func.attr == meth))


def _is_ack_send(node):
    return any(_is_self_attr_call(node, o, m) for o, m in SEND_CALLS) or any(_is_self_call(node, m) for m in SEND_METHODS)


def _unconditional_stmts(body):
    """statements executed on every normal pass through `body` (descends into try-bodies and with-bodies only)"""
    for st in body:
        yield st
        if isinstance(st, ast.Try):
            yield from _unconditional_stmts(st.body)
        elif isinstance(st, ast.With):
            yield from _unconditional_stmts(st.body)


def _timeout_of(call, consts_names):
    """the `timeout_ms` argument of a `recv_messages(...)` call: ("int", n) | ("name", id) | ("default",) | ("none",)"""
    arg = None
    if call.args:
        arg = call.args[0]
    for kw in call.keywords:
        if kw.arg == "timeout_ms":
            arg = kw.value
    if arg is None:
        return ("default",)
    if isinstance(arg, ast.Constant):
        if arg.value is None:
            return ("none",)
        if isinstance(arg.value, int) and not isinstance(arg.value, bool) and arg.value > 0:
            return ("int", arg.value)
    if isinstance(arg, ast.Name) and arg.id in consts_names:
        return ("name", arg.id)
    raise ValueError(f"recv_messages timeout argument not recognised: {ast.dump(arg)}")


def _loop_info(loop, consts_names, listener="mlistener"):
    calls = [n for n in ast.walk(loop) if _is_self_attr_call(n, listener, "recv_messages")]
    receives = bool(calls)
    feeds = False
    for n in ast.walk(loop):
        if isinstance(n, ast.If) and isinstance(n.test, ast.Call) and getattr(n.test.func, "id", None) == "isinstance" \
                and len(n.test.args) == 2 and isinstance(n.test.args[0], ast.Name) \
                and isinstance(n.test.args[1], ast.Name) and n.test.args[1].id == "Ack":
            var = n.test.args[0].id
            for st in n.body:
                if isinstance(st, ast.Expr) and _is_self_attr_call(st.value, "sender", "ack") and len(st.value.args) == 1:
                    a = st.value.args[0]
                    if isinstance(a, ast.Attribute) and a.attr == "idx" and isinstance(a.value, ast.Name) and a.value.id == var:
                        feeds = True
    retries = any(isinstance(st, ast.Expr) and _is_self_attr_call(st.value, "sender", "maybe_retry") and not st.value.args
                  for st in _unconditional_stmts(loop.body))
    timeouts = [_timeout_of(c, consts_names) for c in calls]
    if receives and len(set(timeouts)) != 1:
        raise ValueError("a receive loop with several differently timed recv_messages calls")
    return receives, feeds, retries, (timeouts[0] if timeouts else None)


CATCHES_VALUEERROR = ("ValueError", "Exception", "BaseException")


def _handler_catches_valueerror(h):
    t = h.type
    if t is None:
        return True
    names = [t] if not isinstance(t, ast.Tuple) else list(t.elts)
    for n in names:
        nm = n.id if isinstance(n, ast.Name) else (n.attr if isinstance(n, ast.Attribute) else None)
        if nm is None or nm in CATCHES_VALUEERROR:
            return True          # an expression we cannot read counts as catching
    return False


def _contains(node, target):
    return any(n is target for n in ast.walk(node))


def _sets_flag_true(cls, meth, flag):
    """method `meth` of the class unconditionally executes `self.<flag> = True`"""
    for f in cls.body:
        if isinstance(f, ast.FunctionDef) and f.name == meth:
            for st in _unconditional_stmts(f.body):
                if isinstance(st, ast.Assign) and len(st.targets) == 1 and isinstance(st.targets[0], ast.Attribute) \
                        and st.targets[0].attr == flag and getattr(st.targets[0].value, "id", None) == "self" \
                        and isinstance(st.value, ast.Constant) and st.value.value is True:
                    return True
    return False


def _loop_flag(loop):
    """`while not self.<flag>:` -> flag"""
    t = loop.test
    if isinstance(t, ast.UnaryOp) and isinstance(t.op, ast.Not) and isinstance(t.operand, ast.Attribute) \
            and getattr(t.operand.value, "id", None) == "self":
        return t.operand.attr
    return None


def _raise_ends(cls, fn, loop):
    """Does a ValueError raised by the loop's `self.sender.maybe_retry()` END the loop - i.e. is it fatal for the
    endpoint, as the property's clause (b) "else the sender raises" needs - or does some `except` handler swallow it?
    Walks the `try` statements around the call from the inside out:
      * a handler that does not catch ValueError / Exception / BaseException (or bare) is transparent;
      * a catching handler whose last statement is `raise` passes the failure on (go on outwards);
      * a catching handler INSIDE the loop ends the loop iff it unconditionally `break`s / `return`s or calls
        `self.<m>()` where `<m>` unconditionally sets the flag the `while not self.<flag>` tests;
      * a catching handler OUTSIDE the loop (the loop was left by the exception) must lead to a `raise`: the handler has
        no `return` and the last statement of the method is a `raise`;
      * anything else swallows the raise: False.
    True when the loop does not call maybe_retry at all."""
    call = None
    for st in _unconditional_stmts(loop.body):
        if isinstance(st, ast.Expr) and _is_self_attr_call(st.value, "sender", "maybe_retry"):
            call = st
    if call is None:
        # a conditional / nested call would not be `callsRetry`; nothing to swallow
        return True
    tries = [n for n in ast.walk(fn) if isinstance(n, ast.Try) and any(_contains(b, call) for b in n.body)]
    tries.sort(key=lambda t: -t.lineno)          # innermost first (a try that contains another starts earlier)
    flag = _loop_flag(loop)
    for t in tries:
        catching = [h for h in t.handlers if _handler_catches_valueerror(h)]
        if not catching:
            continue
        h = catching[0]           # the first matching handler takes the exception
        if h.body and isinstance(h.body[-1], ast.Raise):
            continue
        inside = _contains(loop, t)
        if inside:
            ends = False
            for st in h.body:
                if isinstance(st, (ast.Break, ast.Return)):
                    ends = True
                if flag and isinstance(st, ast.Expr) and _is_self_call(st.value) and _sets_flag_true(cls, st.value.func.attr, flag):
                    ends = True
                if flag and isinstance(st, ast.Assign) and len(st.targets) == 1 and isinstance(st.targets[0], ast.Attribute) \
                        and st.targets[0].attr == flag and isinstance(st.value, ast.Constant) and st.value.value is True:
                    ends = True
            return ends
        has_return = any(isinstance(n, ast.Return) for st in h.body for n in ast.walk(st))
        return (not has_return) and bool(fn.body) and isinstance(fn.body[-1], ast.Raise) and any(x is t for x in fn.body)
    return True


def _first_send_line(fn):
    """line of the first acknowledged send in a method (None if it sends nothing)"""
    lines = [n.lineno for n in ast.walk(fn) if _is_ack_send(n)]
    return min(lines) if lines else None


def _derive_phase(cls, fn, loop):
    """Phase of a receive loop, derived from the source:
    * `shutdown`  — the method constructs `ExecutorShutdown(...)` before the loop (the loop waits for the
                    executors' answers to the shutdown it has just sent);
    * `startup`   — nothing can be in flight yet: no acknowledged send (`self.sender.send`, `self._send`,
                    `self.to_controller`) precedes the loop in its method, the method is `__init__` or is called
                    (inside the class) only from call sites that no acknowledged send precedes in their method,
                    and those callers are `__init__` or are not called from inside the class;
    * `steady`    — everything else (the strictest class: must feed Acks, call maybe_retry, poll with a finite timeout).
    """
    mk_shutdown = [n.lineno for n in ast.walk(fn) if isinstance(n, ast.Call) and getattr(n.func, "id", None) == "ExecutorShutdown"]
    if mk_shutdown and min(mk_shutdown) < loop.lineno:
        return "shutdown"
    first = _first_send_line(fn)
    if first is not None and first < loop.lineno:
        return "steady"
    methods = {f.name: f for f in cls.body if isinstance(f, ast.FunctionDef)}

    def call_sites(name):
        out = []
        for f in methods.values():
            for n in ast.walk(f):
                if _is_self_call(n, name):
                    out.append((f, n.lineno))
        return out

    def pre_send_entry(f, depth=0):
        """f runs before anything was sent"""
        if f.name == "__init__":
            return True
        sites = call_sites(f.name)
        if depth > 3:
            return False
        if not sites:
            # an entry point called from outside: acceptable only as the single caller chain of a start-up helper
            return depth > 0
        for g, line in sites:
            fs = _first_send_line(g)
            if fs is not None and fs < line:
                return False
            if not pre_send_entry(g, depth + 1):
                return False
        return True

    if fn.name == "__init__" or (call_sites(fn.name) and pre_send_entry(fn)):
        return "startup"
    return "steady"


def scan_sources(repo):
    """AST scan; returns (loops, consts). Raises ValueError on an unrecognised shape."""
    base = repo / "src" / "cascade" / "executor"
    consts = {}
    ctree = ast.parse((base / "comms.py").read_text())
    for n in ctree.body:
        if isinstance(n, ast.Assign) and len(n.targets) == 1 and isinstance(n.targets[0], ast.Name) \
                and isinstance(n.value, ast.Constant) and isinstance(n.value.value, int):
            consts[n.targets[0].id] = n.value.value
    for k in ("max_retries_per_message", "default_message_resend_ms", "default_timeout_ms"):
        if k not in consts:
            raise ValueError(f"comms.{k} is not a plain integer constant any more")
    # default of Listener.recv_messages(timeout_ms=...)
    default_timeout = None
    for n in ast.walk(ctree):
        if isinstance(n, ast.FunctionDef) and n.name == "recv_messages":
            args = n.args
            names = [a.arg for a in args.args]
            if "timeout_ms" in names and args.defaults:
                d = args.defaults[names.index("timeout_ms") - (len(names) - len(args.defaults))]
                if isinstance(d, ast.Name) and d.id == "default_timeout_ms":
                    default_timeout = ("name", "default_timeout_ms")
                elif isinstance(d, ast.Constant) and d.value is None:
                    default_timeout = ("none",)
                elif isinstance(d, ast.Constant) and isinstance(d.value, int):
                    default_timeout = ("int", d.value)
    if default_timeout is None:
        raise ValueError("default of Listener.recv_messages(timeout_ms=...) not recognised")
    loops = []
    for fname in ("bridge.py", "executor.py"):
        tree = ast.parse((base / fname).read_text())
        alias_ok = any(isinstance(n, ast.ImportFrom) and n.module == "cascade.executor.comms"
                       and any(a.name == "default_message_resend_ms" and a.asname == "resend_grace_ms" for a in n.names)
                       for n in ast.walk(tree))
        local_names = {"resend_grace_ms": "default_message_resend_ms"} if alias_ok else {}
        for cls in [n for n in tree.body if isinstance(n, ast.ClassDef)]:
            owner = None
            for n in ast.walk(cls):
                if isinstance(n, ast.Assign) and isinstance(n.value, ast.Call) and getattr(n.value.func, "id", None) == "ReliableSender":
                    t = n.targets[0]
                    if isinstance(t, ast.Attribute) and t.attr == "sender" and getattr(t.value, "id", None) == "self":
                        owner = n.value
            if owner is None:
                continue
            if not (alias_ok and len(owner.args) == 2 and isinstance(owner.args[1], ast.Name) and owner.args[1].id == "resend_grace_ms"):
                raise ValueError(f"{cls.name}: ReliableSender is not constructed with comms.default_message_resend_ms")
            for fn in [n for n in cls.body if isinstance(n, ast.FunctionDef)]:
                k = 0
                for n in ast.walk(fn):
                    if isinstance(n, ast.While):
                        receives, feeds, retries, tmo = _loop_info(n, local_names)
                        if not receives:
                            continue
                        name = f"{cls.name}.{fn.name}" + (f"#{k}" if k else "")
                        k += 1
                        if tmo == ("default",):
                            tmo = default_timeout
                        if tmo[0] == "name":
                            tmo = ("name", local_names.get(tmo[1], tmo[1]))
                        loops.append({"name": name, "phase": _derive_phase(cls, fn, n), "feedsAck": feeds, "callsRetry": retries,
                                      "timeout": list(tmo), "raiseEnds": _raise_ends(cls, fn, n)})
    if not loops:
        raise ValueError("no receive loop found")
    return loops, consts


def scan_recv_only(repo):
    """receive loops of classes that own a Listener (`self.<x> = Listener(..)`) but no ReliableSender: the data server.
    Its rows are (steady, feedsAck False, callsRetry False): it acknowledges like every Listener and hands Acks to its
    own bookkeeping (`self.acks`; the re-send rule on top of it is C07's Model/Transfer.lean)."""
    base = repo / "src" / "cascade" / "executor"
    rows = []
    for path in sorted(base.glob("*.py")):
        tree = ast.parse(path.read_text())
        for cls in [n for n in tree.body if isinstance(n, ast.ClassDef)]:
            has_sender = any(isinstance(n, ast.Call) and getattr(n.func, "id", None) == "ReliableSender" for n in ast.walk(cls))
            lattr = None
            for n in ast.walk(cls):
                if isinstance(n, ast.Assign) and isinstance(n.value, ast.Call) and getattr(n.value.func, "id", None) == "Listener":
                    t = n.targets[0]
                    if isinstance(t, ast.Attribute) and getattr(t.value, "id", None) == "self":
                        lattr = t.attr
            if lattr is None or has_sender:
                continue
            for fn in [n for n in cls.body if isinstance(n, ast.FunctionDef)]:
                local_ints = {}
                for n in ast.walk(fn):
                    if isinstance(n, ast.Assign) and len(n.targets) == 1 and isinstance(n.targets[0], ast.Name) \
                            and isinstance(n.value, ast.Constant) and type(n.value.value) is int:
                        if n.targets[0].id in local_ints and local_ints[n.targets[0].id] != n.value.value:
                            raise ValueError(f"{cls.name}.{fn.name}: local {n.targets[0].id} assigned two different integers")
                        local_ints[n.targets[0].id] = n.value.value
                k = 0
                for n in ast.walk(fn):
                    if isinstance(n, ast.While):
                        receives, feeds, retries, tmo = _loop_info(n, local_ints, listener=lattr)
                        if not receives:
                            continue
                        if tmo[0] == "name":
                            tmo = ("int", local_ints[tmo[1]])
                        if tmo == ("default",):
                            tmo = ("name", "default_timeout_ms")
                        name = f"{cls.name}.{fn.name}" + (f"#{k}" if k else "")
                        k += 1
                        rows.append({"name": name, "phase": "steady", "feedsAck": feeds, "callsRetry": retries, "timeout": list(tmo),
                                     "raiseEnds": True, "listener": lattr, "file": path.name})
    return rows


def scan_structure(repo):
    """Structural obligations the model rests on (Model/Ack.lean: `acked` only ever gains elements, `idx` is an unbounded
    counter that only goes up - `Inv.del_nodup`, i.e. at-most-once, is proved from exactly that):
      * every use of `Listener.acked` (any `<x>.acked` in src/cascade/executor) is its construction `self.acked = set()`
        in `Listener.__init__`, a membership test `<y> in self.acked`, or `self.acked.add(<y>)`;
      * every store to `ReliableSender.idx` is `self.idx = 0` in `__init__` or `self.idx += 1`.
    Returns {"ackedOnlyGrows": [offending "file:line: code"...], "idxOnlyIncrements": [...]} (empty lists = holds)."""
    base = repo / "src" / "cascade" / "executor"
    bad_acked, bad_idx = [], []
    for path in sorted(base.glob("*.py")):
        src = path.read_text()
        tree = ast.parse(src)
        lines = src.splitlines()
        parent = {}
        for n in ast.walk(tree):
            for c in ast.iter_child_nodes(n):
                parent[c] = n

        def where(n):
            return f"{path.name}:{n.lineno}: {lines[n.lineno - 1].strip()[:90]}"

        def enclosing(n, kinds):
            while n in parent:
                n = parent[n]
                if isinstance(n, kinds):
                    return n
            return None
        for n in ast.walk(tree):
            if isinstance(n, ast.Attribute) and n.attr == "acked":
                par = parent.get(n)
                fn = enclosing(n, ast.FunctionDef)
                cls = enclosing(n, ast.ClassDef)
                in_listener = cls is not None and cls.name == "Listener" and getattr(n.value, "id", None) == "self"
                ok = False
                if in_listener and isinstance(par, (ast.Assign, ast.AnnAssign)) and fn is not None and fn.name == "__init__":
                    tgt = par.targets[0] if isinstance(par, ast.Assign) else par.target
                    v = par.value
                    ok = tgt is n and isinstance(v, ast.Call) and getattr(v.func, "id", None) == "set" and not v.args and not v.keywords
                elif in_listener and isinstance(par, ast.Compare) and len(par.ops) == 1 and isinstance(par.ops[0], (ast.In, ast.NotIn)) \
                        and par.comparators[0] is n:
                    ok = True
                elif in_listener and isinstance(par, ast.Attribute) and par.attr == "add" and isinstance(parent.get(par), ast.Call) \
                        and parent[par].func is par:
                    ok = True
                if not ok:
                    bad_acked.append(where(n))
            if isinstance(n, ast.Attribute) and n.attr == "idx" and isinstance(n.ctx, (ast.Store, ast.Del)):
                cls = enclosing(n, ast.ClassDef)
                if cls is None or cls.name != "ReliableSender":
                    if getattr(n.value, "id", None) == "self" and cls is not None and cls.name == "ReliableSender":
                        pass
                    else:
                        # a store to some other object's `.idx` in the executor package: only dataclass fields of messages are
                        # ever written at construction (keyword arguments), never by attribute store on the pinned tree
                        bad_idx.append(where(n))
                        continue
                par = parent.get(n)
                fn = enclosing(n, ast.FunctionDef)
                ok = False
                if isinstance(par, ast.Assign) and fn is not None and fn.name == "__init__" and isinstance(par.value, ast.Constant) \
                        and par.value.value == 0 and len(par.targets) == 1:
                    ok = True
                elif isinstance(par, ast.AugAssign) and isinstance(par.op, ast.Add) and isinstance(par.value, ast.Constant) \
                        and par.value.value == 1 and type(par.value.value) is int:
                    ok = True
                if not ok:
                    bad_idx.append(where(n))
    return {"ackedOnlyGrows": bad_acked, "idxOnlyIncrements": bad_idx}


def timeout_ms(loop, consts):
    t = loop["timeout"]
    if t[0] == "none":
        return None
    if t[0] == "int":
        return t[1]
    return consts[t[1]]


LEAN_CONST = {"default_message_resend_ms": "resendGraceMs", "default_timeout_ms": "defaultTimeoutMs",
              "max_retries_per_message": "maxRetries"}


def render_gen(loops, consts, struct=None, recv_only=()):
    b = lambda x: "true" if x else "false"
    struct = struct or {"ackedOnlyGrows": [], "idxOnlyIncrements": []}

    def offending(xs):
        return "holds" if not xs else "VIOLATED at " + "; ".join(x.replace("-/", "- /").replace("/-", "/ -") for x in xs)

    def tmo(t):
        if t[0] == "none":
            return "none"
        if t[0] == "int":
            return f"some {t[1]}"
        return f"some {LEAN_CONST[t[1]]}"
    rows = ",\n".join(
        f'  {{ name := "{l["name"]}", phase := .{l["phase"]}, feedsAck := {b(l["feedsAck"])}, callsRetry := {b(l["callsRetry"])}, '
        f'timeoutMs := {tmo(l["timeout"])}, raiseEnds := {b(l["raiseEnds"])} }}'
        for l in loops)
    rows2 = ",\n".join(
        f'  {{ name := "{l["name"]}", phase := .{l["phase"]}, feedsAck := {b(l["feedsAck"])}, callsRetry := {b(l["callsRetry"])}, '
        f'timeoutMs := {tmo(l["timeout"])}, raiseEnds := {b(l["raiseEnds"])} }}'
        for l in recv_only)
    return f"""/- GENERATED by harness/ekw/props/c06.py::translate (translator `retry_loops`) from
   src/cascade/executor/{{executor,bridge,comms}}.py — do not edit. -/
import EkwVerif.Model.Ack

namespace EkwVerif.Gen.RetryLoops
open EkwVerif.Ack

/-- comms.max_retries_per_message -/
def maxRetries : Nat := {consts["max_retries_per_message"]}
/-- comms.default_message_resend_ms -/
def resendGraceMs : Nat := {consts["default_message_resend_ms"]}
/-- comms.default_timeout_ms -/
def defaultTimeoutMs : Nat := {consts["default_timeout_ms"]}

/-- every `while` loop of a class owning a ReliableSender that calls `recv_messages`; phase derived
from the source (`_derive_phase`), `timeoutMs` = the `timeout_ms` the loop polls with -/
def loops : List LoopInfo := [
{rows}
]

/-- every `while` loop calling `recv_messages` of a class that owns a Listener but NO ReliableSender (the data
server: it acknowledges what it accepts like every Listener; its own re-send rule is C07's) -/
def recvOnlyLoops : List LoopInfo := [
{rows2}
]

/-- AST scan of src/cascade/executor: every use of `Listener.acked` is `self.acked = set()` in `__init__`, a
membership test, or `self.acked.add(..)` - the set only grows (Model/Ack.lean `acked`). Scan: {offending(struct["ackedOnlyGrows"])} -/
def listenerAckedOnlyGrows : Bool := {b(not struct["ackedOnlyGrows"])}
/-- AST scan: every store to `ReliableSender.idx` is `self.idx = 0` in `__init__` or `self.idx += 1` - an unbounded
counter that only goes up (Model/Ack.lean `idx`). Scan: {offending(struct["idxOnlyIncrements"])} -/
def senderIdxOnlyIncrements : Bool := {b(not struct["idxOnlyIncrements"])}

end EkwVerif.Gen.RetryLoops
"""


_TABLE = {}


def translate(ctx):
    from ekw import core
    loops, consts = scan_sources(core.REPO)
    recv_only = scan_recv_only(core.REPO)
    struct = scan_structure(core.REPO)
    _TABLE["loops"] = {l["name"]: l for l in loops + recv_only}
    _TABLE["consts"] = consts
    _TABLE["struct"] = struct
    text = render_gen(loops, consts, struct, recv_only)
    path = core.LEAN_DIR / "EkwVerif" / "Gen" / "RetryLoops.lean"
    path.parent.mkdir(exist_ok=True)
    if not path.exists() or path.read_text() != text:
        path.write_text(text)
    ctx.extra["retry_loops_table"] = loops
    ctx.extra["recv_only_loops_table"] = recv_only
    ctx.extra["structural_scan"] = struct
    for k, v in struct.items():
        ctx.count(f"structural:{k}:{'holds' if not v else 'VIOLATED'}")
    for l in recv_only:
        ctx.count(f"table:{l['name']}:recv-only:timeout={timeout_ms(l, consts)}")
    ctx.extra["comms_consts"] = {k: consts[k] for k in ("max_retries_per_message", "default_message_resend_ms", "default_timeout_ms")}
    for l in loops:
        ctx.count(f"table:{l['name']}:{l['phase']}:timeout={timeout_ms(l, consts)}:raiseEnds={l['raiseEnds']}")


def _table():
    if "loops" not in _TABLE:
        from ekw import core
        loops, consts = scan_sources(core.REPO)
        _TABLE["loops"] = {l["name"]: l for l in loops + scan_recv_only(core.REPO)}
        _TABLE["consts"] = consts
    return _TABLE


# ----------------------------------------------------------------------------- real side

def mk_msg(sim, cls, uid, a, dst=None):
    from cascade.low.core import DatasetId, WorkerId
    msg = sim.msg
    if cls == "pub":
        m = msg.DatasetPublished(origin=WorkerId(f"h{a}", "w0"), ds=DatasetId("t", f"o{uid}"), transmit_idx=None)
    elif cls == "purge":
        m = msg.DatasetPurge(ds=DatasetId("t", f"p{uid}"))
    elif cls == "seq":
        m = msg.TaskSequence(worker=WorkerId(f"h{dst}", "w0"), tasks=[f"t{uid}"], publish=set())
    elif cls == "cmd":
        m = msg.DatasetTransmitCommand(source="h1", target="controller", daddress="tcp://x", ds=DatasetId("t", f"c{uid}"), idx=uid)
    elif cls == "cmdx":      # a transmit command under a transmit idx the data server is still waiting on (idx 0): its handler raises
        m = msg.DatasetTransmitCommand(source="h1", target="controller", daddress="tcp://x", ds=DatasetId("t", f"c{uid}"), idx=0)
    elif cls == "fail":      # a worker reports a task failure (forwarded to the controller: a ToShutdown message there)
        m = msg.TaskFailure(worker=WorkerId(f"h{a}", "w0"), task=f"t{uid}", detail="boom")
    elif cls == "failx":     # ... naming a host the controller does not know (its handler raises KeyError)
        m = msg.TaskFailure(worker=WorkerId("h77", "w0"), task=f"t{uid}", detail="boom")
    elif cls == "shutdown":
        m = msg.ExecutorShutdown()
    elif cls == "payload":
        # a DatasetTransmitPayload as a data server sends it for a transmit / fetch: on the wire Syn + header + value
        # (comms.send_data). Model id DATA_BASE + uid (Model/Ack.lean `shapeOf`); header and value are interned under
        # the same id, so wire and parsed forms read [hdr id, msg id] / [payload, id, [msg, id]] on both sides
        mid = DATA_BASE + uid
        inner = msg.DatasetPurge(ds=DatasetId("m", str(mid)))
        sim.msgids[repr(inner)] = mid
        hdr = msg.DatasetTransmitPayloadHeader(confirm_address=sim.addr(a), confirm_idx=uid, ds=DatasetId("t", f"d{uid}"), deser_fun="f")
        sim.hdrids[repr(hdr)] = mid
        m = msg.DatasetTransmitPayload(header=hdr, value=pickle.dumps(inner))
        sim.msgids[repr(m)] = mid
        return m
    else:
        raise ValueError(cls)
    if cls != "shutdown":
        sim.msgids[repr(m)] = uid
    return m


def frame_shape(fs):
    """the message a frame list carries according to the wire format (written from comms.send / send_data, not
    from the parser): [Syn,] message | [Syn,] header, value. None = malformed."""
    body = fs[1:] if fs and fs[0][0] == "syn" else fs
    if len(body) == 1 and body[0][0] in ("msg", "ack"):
        return list(body[0])
    if len(body) == 2 and body[0][0] == "hdr":
        return ["payload", body[0][1], body[1]]
    return None


class RealRun:
    """Executes the ops of a case on the real code. For every op: (lean line | None, real output | None).
    `trace` is what the oracle reads."""

    def __init__(self, case):
        from ekw import sim_c06
        self.S = sim_c06
        self.case = case
        self.sim = sim_c06.Sim(*_mods())
        self.sim.light = bool(case.get("oracle_only"))
        self.stash = []          # packets the network adversary holds copies of (ops stash / unstash: delayed duplicates)
        self.trace = []
        self.loops_seen = []     # (loop name, retried?, acks taken, acks fed, failed?) per iteration, for the translator cross-check
        self.polls_seen = []     # (loop name, timeout the blocking poll was entered with)
        self.raises_seen = []    # (loop name, did the loop end) per iteration in which maybe_retry raised
        self.dst_of = {}         # (ep, host name) -> destination endpoint
        self.opno = 0

    def run(self):
        case = self.case
        out = []
        with self.sim.installed(max_retries=case["max"]):
            sim = self.sim
            for a, e in enumerate(case["eps"]):
                sim.eps.append(self.S.Ep(sim, a, e["kind"], e["grace"], [(h, d) for h, d in e["hosts"]]))
                for h, d in e["hosts"]:
                    self.dst_of[(a, h)] = d
            reset = {"op": "reset", "max": case["max"],
                     "eps": [{"grace": e["grace"], "hosts": [[sim.host_id(h), d] for h, d in e["hosts"]]} for e in case["eps"]]}
            out.append((reset, "reset"))
            for op in case["ops"]:
                try:
                    self.opno += 1
                    w0 = len(sim.net.emitted)
                    pos = len(self.trace)
                    out.append(self.op(op))
                    tail = self.trace[pos:]
                    del self.trace[pos:]
                    self.trace.extend(t for t in tail if t[0] == "sent")
                    for ad, fr in sim.net.emitted[w0:]:      # frames on the wire (zmq socket seam), before the op's outcome
                        self._tx(ad, fr, op.get("ep"))
                    self.trace.extend(t for t in tail if t[0] != "sent")
                except Exception as ex:  # noqa: BLE001 - unexpected exception of the real code = a result
                    out.append(({"op": "noop"}, {"crash": f"{type(ex).__name__}: {ex}"}))
                    self.trace.append(("crash", op.get("ep", 0), f"{type(ex).__name__}: {ex}"))
                    break
            self.final = [self._final(e) for e in sim.eps]
        return out

    def _tx(self, dst_addr, frames, by):
        """what an endpoint put on the wire: data frames (Syn + message) and acknowledgements"""
        msg = self.sim.msg
        try:
            first = pickle.loads(frames[0])
            if isinstance(first, msg.Syn) and len(frames) > 1:
                body = pickle.loads(frames[1])
                if isinstance(body, msg.DatasetTransmitPayloadHeader) and len(frames) == 3:
                    body = msg.DatasetTransmitPayload(header=body, value=frames[2])     # the payload path: Syn + header + value
                self.trace.append(("tx", self.sim.addr_id(first.addr), repr(body), first.idx))
            elif isinstance(first, msg.Ack) and len(frames) == 1:
                self.trace.append(("acktx", by, self.sim.addr_id(dst_addr), first.idx, self.opno))
        except Exception as ex:  # noqa: BLE001 - the real code put something on the wire that is no pickled message
            self.trace.append(("tx-undecodable", by, f"{type(ex).__name__}: {ex}"[:120]))

    def _final(self, e):
        exited = bool(e.coro is not None and e.coro.done and e.coro.exc is None
                      and (e.kind == "executor" or e.loop == "Bridge.shutdown"))
        return {"loop": e.loop, "exited": exited, "hosts": sorted(e.sender.hosts)}

    def _events(self, e):
        """record what the op just executed at endpoint e did, for the oracle"""
        for host, key, idx in e.sent:
            self.trace.append(("sent", e.a, self.dst_of.get((e.a, host)), key, host, e.loop, idx))
        for host in e.sender.hosts.popped:
            self.trace.append(("popped", e.a, host))
        for m in e.accepted:
            self.trace.append(("accepted", e.a, repr(m), self.opno))
        for m in e.handled:
            self.trace.append(("handled", e.a, repr(m), self.opno))
        if e.aborted:
            self.trace.append(("aborted", e.a, e.aborted[0], self.opno, e.aborted[1]))
        elif e.errors:
            self.trace.append(("aborted", e.a, "malformed-frame", self.opno, getattr(e, "iter_loop", e.loop)))
        if e.raised:
            self.trace.append(("raised", e.a, getattr(e, "iter_loop", e.loop)))
            # the ValueError reached the application: a bare endpoint's application is the harness itself (it called
            # maybe_retry), a real loop's application got it iff the loop function ended with it (`_poll`: stops)
            if e.kind == "bare" or getattr(e, "escaped", False):
                self.trace.append(("escaped", e.a))

    def op(self, o):
        sim = self.sim
        kind = o["op"]
        n = len(sim.eps)
        if kind in ("drop", "deliver", "dup"):
            if not sim.net.net:
                return ({"op": kind, "k": o["k"]}, {"net": "empty"})
            k = o["k"] % len(sim.net.net)
            w0 = len(sim.net.emitted)
            dst = sim.addr_id(sim.net.net[k][0])
            e = sim.eps[dst]
            e.begin()
            self.trace.append((kind, dst))
            if kind == "drop":
                sim.net.drop(k)
            else:
                sim.net.arrive(k, keep=(kind == "dup"))
            return ({"op": kind, "k": o["k"]}, e.digest(w0))
        if kind == "stash":
            # the adversary keeps a copy of net[k] aside (the original travels on): a duplicate to be delivered much later
            # with "take": the adversary takes the packet itself out of the network (nothing travels on): its FIRST delivery
            # happens hundreds of messages later, behind far newer ones (a window / high-water mark on Syn indices loses it)
            if sim.net.net:
                k = o["k"] % len(sim.net.net)
                if o.get("take"):
                    self.stash.append((sim.net.net.pop(k), True))
                else:
                    self.stash.append((sim.net.net[k], False))
            return (None, None)
        if kind == "unstash":
            for pkt, taken in self.stash:
                sim.net.net.append(pkt)
                if not taken:
                    self.trace.append(("dup", sim.addr_id(pkt[0])))
            del self.stash[:]
            return (None, None)
        if kind == "flush":
            drop_to = set(o.get("drop_to", []))
            while sim.net.net:
                dst = sim.addr_id(sim.net.net[0][0])
                if dst in drop_to:
                    sim.net.drop(0)
                    self.trace.append(("drop", dst))
                else:
                    sim.net.arrive(0)
                    self.trace.append(("deliver", dst))
            return ({"op": "flush", "drop_to": sorted(drop_to)},
                    {"netlen": 0, "inboxes": [len(e.listener.socket.queue) for e in sim.eps]})
        a = o["ep"]
        if a >= n:
            return (None, None)
        e = sim.eps[a]
        w0 = len(sim.net.emitted)
        e.begin()
        if kind == "tick":
            sim.clock[a] += o["dt"] * 1_000_000
            self.trace.append(("tick", a, o["dt"]))
            return ({"op": "tick", "ep": a, "dt": o["dt"]}, e.digest(w0))
        if kind == "send":
            host = o["host"]
            m = mk_msg(sim, o["cls"], o["m"], a, self.dst_of.get((a, host)))
            err = None
            try:
                if e.kind == "bridge":
                    e.obj._send(host, m)
                elif e.kind == "executor" and host == "controller":
                    e.obj.to_controller(m)
                else:
                    e.sender.send(host, m)
            except KeyError:
                err = "KeyError"
            self._events(e)
            return ({"op": "send", "ep": a, "h": sim.host_id(host), "m": sim.msg_id(m)}, e.digest(w0, {"err": err}))
        if kind == "local":
            m = mk_msg(sim, o["cls"], o["m"], a)
            before = len(sim.net.net)
            sim.comms.callback(sim.addr(a), m)            # the real un-acknowledged local path
            pkt = sim.net.net.pop(before)
            sim.net.emitted.pop()
            sim.net.inbox[pkt[0]].queue.append(pkt[1])
            self.trace.append(("local", a, repr(m)))
            return ({"op": "local", "ep": a, "m": o["m"]}, e.digest(w0))
        if kind == "inject":
            # a forged / malformed frame list appears in the receive queue of endpoint a
            raw = tuple(_frame_bytes(sim, f) for f in o["frames"])
            e.listener.socket.queue.append(raw)
            self.trace.append(("inject", a, frame_shape(o["frames"]) is None))
            return ({"op": "inject", "ep": a, "frames": o["frames"]}, {"inbox": len(e.listener.socket.queue)})
        if kind == "killworker":
            if e.kind == "executor":
                for w in list(e.obj.workers):
                    dead = self.S.StubProc()
                    dead.exitcode = 1
                    e.obj.workers[w] = dead
            return (None, None)
        if kind == "pop":
            e.sender.hosts.pop(o["host"], None)
            self._events(e)
            return ({"op": "pop", "ep": a, "h": sim.host_id(o["host"])}, e.digest(w0))
        if kind == "recv" and e.kind == "bare":
            try:
                m = e.listener._recv_one(0)
            except Exception:  # noqa: BLE001 - counted by the wrapper
                m = None
            if m is not None:
                e.on_take(m)
                if isinstance(m, sim.msg.Ack):
                    e.sender.ack(m.idx)
            self._events(e)
            return ({"op": "recv", "ep": a, "feeds": True}, e.digest(w0))
        if kind == "retry" and e.kind == "bare":
            try:
                e.sender.maybe_retry()
            except ValueError:
                pass
            self._round(e)
            self._events(e)
            return ({"op": "retry", "ep": a}, e.digest(w0))
        if kind in ("poll", "recv", "retry", "shutdown"):
            return self._poll(e, w0, start_shutdown=(kind == "shutdown"))
        raise ValueError(kind)

    def _round(self, e):
        self.trace.append(("round", e.a, e.sender.resend_grace // 1_000_000, e.loop))

    def _cause(self, e, failed_exc, loop0=None):
        """why the iteration that just ended was abandoned - each cause from POSITIVE evidence of its own mechanism;
        anything else is `unclassified` (which no known finding matches: a new way of dropping an acknowledged batch
        is reported, not absorbed)"""
        sim = self.sim
        done = e.coro is not None and e.coro.done
        if e.errors:
            return "malformed-frame"                 # a `_recv_one` call raised inside this iteration
        if e.raised:
            return "retry-raised"                    # `maybe_retry` raised inside this iteration
        if e.kind == "executor":
            failure_sent = any("ExecutorFailure" in x[1] for x in e.sent)
            if failure_sent and done and e.coro.exc is None:
                return "handler-exception"           # the `except Exception` clause ran: ExecutorFailure + terminate
            if e.taken_msgs and isinstance(e.taken_msgs[-1], sim.msg.ExecutorShutdown) and not failure_sent \
                    and done and e.coro.exc is None and any("ExecutorExit" in x[1] for x in e.sent):
                return "break-at-shutdown"           # the last message taken was ExecutorShutdown: ExecutorExit, terminate, break
            return "unclassified"
        if e.kind == "bridge":
            B = sim.bridge_mod
            if any(isinstance(m, (B.ToShutdown, B.Unsupported)) for m in e.taken_msgs):
                return "shutdown-reason"             # a message of this call set shutdown_reason
            if loop0 == "Bridge.recv_events" and (e.loop == "Bridge.shutdown" or (done and isinstance(e.coro.exc, ValueError)
                                                                                   and e.coro.exc.args and isinstance(e.coro.exc.args[0], Exception))):
                return "handler-exception"           # no shutdown message, yet recv_events went into shutdown(): its except clause
            return "unclassified"
        if e.kind == "dataserver":
            if done and e.coro.exc is not None:
                return "handler-exception"           # DataServer.recv_loop has no handler: the exception ended the loop
            return "unclassified"
        return "unclassified"

    def _poll(self, e, w0, start_shutdown=False):
        sim = self.sim
        a = e.a
        Coro = self.S.Coro
        e.iter_loop = e.loop
        if e.kind == "bare":
            # the harness' own loop over a bare endpoint: recv_messages, dispatch, maybe_retry
            reached_retry = False
            try:
                for m in e.listener.recv_messages(0):
                    if isinstance(m, sim.msg.Ack):
                        e.sender.ack(m.idx)
                reached_retry = True
                e.sender.maybe_retry()
            except Exception:  # noqa: BLE001 - like the real loops: any exception ends the iteration
                pass
            if sum(len(x) for x in e.pending()):
                e.abandon(self._cause(e, True), e.loop)
            e.escaped = e.raised
            if reached_retry:
                # an opportunity for the sender to retransmit = an iteration of THIS (the harness' own) loop that got as far as
                # its maybe_retry call; one that a malformed frame list ended inside recv_messages is none (the real loops die
                # of it; this one goes on, and must not be charged with a retry it never attempted)
                self._round(e)
            self._events(e)
            return ({"op": "poll", "ep": a, "acts": list(e.acts)}, e.digest(w0, {"stops": bool(e.raised)}))
        # real loop in a coroutine thread, one iteration
        loop0 = e.loop
        if start_shutdown and e.kind == "bridge":
            if e.coro is not None:
                e.coro.stop()
            if sum(len(x) for x in e.pending()):
                e.abandon("shutdown-call", loop0)
            e.coro = Coro(sim, e.obj.shutdown)
            e.coro.start()
        elif e.coro is None or (e.coro.done and e.coro.exc is None and e.kind == "bridge" and e.loop == "Bridge.recv_events"):
            e.coro = Coro(sim, e.coro_fn)
            e.coro.start()
        self._round(e)                 # an opportunity to iterate, whether or not the loop takes it
        if e.coro.done and not start_shutdown:
            return (None, None)            # the loop has ended (executor terminated / controller raised)
        woke = False
        if not e.coro.done:
            # blocked in poll(timeout): a finite timeout elapses, `None` waits for a packet
            if e.coro.wait is not None or e.listener.socket.queue:
                woke = True
                e.coro.resume()
        ended = None
        failed_exc = False
        if e.coro.done:
            ended = "return" if e.coro.exc is None else type(e.coro.exc).__name__
            if e.coro.exc is not None:
                failed_exc = True
                self.trace.append(("loop-raised", a, f"{type(e.coro.exc).__name__}: {e.coro.exc}"))
            elif e.kind == "bridge" and loop0 == "Bridge.recv_events" and e.loop == "Bridge.recv_events" and woke:
                e.commit(list(e.coro.result or []))
        if sum(len(x) for x in e.pending()):
            if e.coro.done or e.loop != loop0 or e.kind in ("executor", "dataserver"):
                e.abandon(self._cause(e, failed_exc, loop0), loop0)
        acts = list(e.acts)
        # clause (b): did the sender's raise END the loop (reach the application)? Bridge.recv_events: the function raised,
        # or is inside the shutdown() its except clause calls on the way to `raise ValueError(shutdown_reason)`;
        # Executor.recv_loop: ExecutorFailure was sent and the function returned (terminate())
        stops = False
        if e.raised:
            if e.kind == "bridge":
                stops = (e.coro.done and e.coro.exc is not None) or (loop0 == "Bridge.recv_events" and e.loop == "Bridge.shutdown")
            else:
                stops = bool(e.coro.done)
        e.escaped = stops
        if woke and e.raised:
            self.raises_seen.append((loop0, stops))
        # per iteration: did the loop call maybe_retry / feed the Acks (translator cross-check)
        if woke:
            failed = failed_exc or e.loop != loop0 or any("ExecutorFailure" in x[1] for x in e.sent) or bool(e.aborted) or bool(e.errors)
            retried = any(x[0] == "retry" for x in acts)
            nack = sum(1 for m in e.taken_msgs if isinstance(m, sim.msg.Ack))
            self.loops_seen.append((loop0, retried, nack, e.fed, bool(failed)))
        self.polls_seen.extend(e.poll_timeouts)
        self._events(e)
        return ({"op": "poll", "ep": a, "acts": acts}, e.digest(w0, {"ended": ended, "stops": stops}))


# ----------------------------------------------------------------------------- oracle (property text only)

def oracle(case, trace, final, _skip=(), _cursor=None):
    """Every message handed to send is handed to the receiving APPLICATION (taken by the receiving loop's body /
    returned by recv_events to the controller) exactly once, or the sender raises within the retry budget once time
    has been allowed to pass; never twice; never a different message. Returns (signature, text) or None.
    Reads only what was observable from outside the acknowledged layer: send calls, frames on the wire, what the
    application was handed, raises, and how loop iterations ended."""
    maxr = case["max"]
    sent = {}        # (dst, key) -> entry
    handled = {}     # (dst, key) -> count
    local = {}       # (dst, key) -> count
    raised = set()             # endpoints whose sender raised (maybe_retry's ValueError)
    escaped = set()            # ... and the raise reached the application: it ended the loop function / came out of the
                               # maybe_retry call of a bare endpoint. ONLY this excuses an undelivered message (clause (b))
                               # and a sender object used on after that is outside the transmission bound
    tx = {}
    idx_of = {}      # (sender, key) -> [idx of every Syn the message was put on the wire under]
    acked_at = {}    # (sender, idx) -> [(acknowledging endpoint, op number)]
    aborts = {}      # endpoint -> [(op number, cause, loop)]
    popped = set()
    raised_in = {}        # endpoint -> the loop in which its sender first raised
    loop_raised = set()   # endpoints whose loop function ended with an exception (the application was told that the endpoint failed)
    for ev in trace:
        k = ev[0]
        if k == "crash":
            return ({"kind": "crash"}, f"real code raised unexpectedly: {ev[2]}")
        if k == "tx-undecodable":
            return ({"kind": "undecodable-frame-on-wire"}, f"endpoint {ev[1]} put a frame list on the wire whose first frames are no pickled messages: {ev[2]}")
        if k == "sent":
            _, a, dst, key, host, loop, idx = ev
            ent = sent.setdefault((dst, key), {"n": 0, "from": a, "host": host, "loop": loop, "rounds": {}, "idxs": []})
            ent["n"] += 1
            ent["idxs"].append(idx)
            ent["loop"] = loop
            ent["rounds"] = {}
            ent["elapsed"] = 0          # time on the sender's clock since the message was last due for (re)transmission
        elif k == "local":
            local[(ev[1], ev[2])] = local.get((ev[1], ev[2]), 0) + 1
        elif k == "handled":
            _, b, key, _opno = ev
            handled[(b, key)] = handled.get((b, key), 0) + 1
            allowed = sent.get((b, key), {"n": 0})["n"] + local.get((b, key), 0)
            if allowed == 0:
                return ({"kind": "wrong-message"}, f"the application of endpoint {b} was handed {key}, which nobody sent to it")
            if handled[(b, key)] > allowed:
                return ({"kind": "duplicate-delivery"},
                        f"the application of endpoint {b} was handed {key if len(key) < 220 else key[:200] + '...'} "
                        f"{handled[(b, key)]} times, sent {allowed} times")
        elif k == "tx":
            _, a, key, idx = ev
            tx[(a, key)] = tx.get((a, key), 0) + 1
            idx_of.setdefault((a, key), [])
            if idx not in idx_of[(a, key)]:
                idx_of[(a, key)].append(idx)
            nsent = sum(ent["n"] for (d, kk), ent in sent.items() if kk == key and ent["from"] == a)
            if nsent and tx[(a, key)] > nsent * (maxr + 1) and a not in escaped:
                return ({"kind": "too-many-transmissions"},
                        f"{key} from endpoint {a} was put on the wire {tx[(a, key)]} times, budget is 1 + {maxr} retries per send ({nsent} sends)")
        elif k == "acktx":
            _, by, to, idx, opno = ev
            acked_at.setdefault((to, idx), []).append((by, opno))
        elif k == "aborted":
            _, b, cause, opno, loop = ev
            aborts.setdefault(b, []).append((opno, cause, loop))
        elif k == "raised":
            raised.add(ev[1])
            raised_in.setdefault(ev[1], ev[2] if len(ev) > 2 else "?")
        elif k == "escaped":
            escaped.add(ev[1])
        elif k == "loop-raised":
            loop_raised.add(ev[1])
        elif k == "popped":
            popped.add((ev[1], ev[2]))
        elif k == "tick":
            for ent in sent.values():
                if ent["from"] == ev[1]:
                    ent["elapsed"] += ev[2]
        elif k == "round":
            # an opportunity for the sender's loop to iterate: every message whose grace has run out is due for a
            # retransmission now (its timer restarts); the others keep waiting
            a, grace, loop = ev[1], ev[2], ev[3]
            for ent in sent.values():
                if ent["from"] == a and ent["elapsed"] > grace:
                    ent["rounds"][loop] = ent["rounds"].get(loop, 0) + 1
                    ent["elapsed"] = 0
    for (dst, key), ent in sorted(sent.items(), key=lambda x: str(x[0])):
        if (dst, key) in _skip:
            continue
        if _cursor is not None:
            _cursor[:] = [(dst, key)]
        got = handled.get((dst, key), 0) - local.get((dst, key), 0)
        if got >= ent["n"] or ent["from"] in escaped or ent["from"] in loop_raised:
            continue
        a = ent["from"]
        # (1) the destination acknowledged it (the sender will never resend nor raise) but its application never got it
        # (messages of identical content are told apart by the idx of the Syn they went out under)
        unacked = [i for i in ent["idxs"] if i is None or not any(by == dst for by, _ in acked_at.get((a, i), []))]
        acks = [x for i in ent["idxs"] for x in acked_at.get((a, i), []) if x[0] == dst]
        if acks and not unacked:
            first = min(op for _, op in acks)
            later = [(op, cause, loop) for op, cause, loop in aborts.get(dst, []) if op >= first]
            cause, loop = (later[0][1], later[0][2]) if later else ("none", final[dst]["loop"] if dst is not None and dst < len(final) else "?")
            return ({"kind": "acked-not-handled", "cause": cause, "loop": loop},
                    f"{key} handed to send at endpoint {a} was acknowledged by endpoint {dst} (op {first}) but never handed to its application "
                    f"({loop}); the iteration was abandoned: {cause}; the sender neither resends nor raises")
        # (2) never acknowledged by its destination: the sender has to deliver it or raise
        if a in raised:
            # the sender gave up on some message and said so - to a loop that swallowed it: the application of endpoint a
            # was never told, the loop goes on (clause (b): "else the sender RAISES", not "logs")
            lp = raised_in.get(a, final[a]["loop"])
            return ({"kind": "silent-loss", "cause": "raise-swallowed", "loop": lp},
                    f"{key} handed to send at endpoint {a} was never handed to the application of endpoint {dst}; the sender's maybe_retry "
                    f"raised (budget {maxr} retries exhausted) but the raise did not end {lp}: it was swallowed, the application was not told")
        loop = final[a]["loop"]
        forged = [(by, op) for i in unacked if i is not None for by, op in acked_at.get((a, i), [])
                  if any(o == op and c == "malformed-frame" for o, c, _ in aborts.get(by, []))]
        if forged:
            return ({"kind": "silent-loss", "cause": "malformed-frame-acked", "loop": loop},
                    f"{key} handed to send at endpoint {a} was never delivered to endpoint {dst} and the sender did not raise: endpoint "
                    f"{forged[0][0]} acknowledged its Syn while rejecting a malformed frame list that started with that Syn (op {forged[0][1]})")
        if (a, ent["host"]) in popped:
            if any(v >= maxr + 1 for v in ent["rounds"].values()) or final[a]["exited"]:
                return ({"kind": "silent-loss", "cause": "host-popped", "loop": loop},
                        f"{key} handed to send at endpoint {a} for host {ent['host']} was never delivered and the sender did not raise: "
                        f"the host was removed from sender.hosts, maybe_retry skips the record for ever")
            continue
        if final[a]["exited"]:
            return ({"kind": "silent-loss", "cause": "loop-exited", "loop": loop + ":exit"},
                    f"{key} handed to send at endpoint {a} ({loop}) was never delivered to endpoint {dst}; the sender's loop returned without raising")
        # the loop that was driving the sender when the message was handed over is answerable first
        for lp in [ent["loop"]] + sorted(l for l in ent["rounds"] if l != ent["loop"]):
            if ent["rounds"].get(lp, 0) >= maxr + 1:
                return ({"kind": "silent-loss", "cause": "no-retry", "loop": lp},
                        f"{key} handed to send at endpoint {a} (in {ent['loop']}) was never delivered to endpoint {dst} and the sender did not "
                        f"raise although {lp} had {ent['rounds'][lp]} opportunities to iterate, each after more than the resend grace (budget {maxr} retries)")
    return None


def oracle_all(case, trace, final):
    """every distinct failure signature of one history (a history that shows a known finding must not hide another
    failure): the per-message verdicts of `oracle`, one (signature, text) per signature"""
    out, seen, skip = [], set(), set()
    for _ in range(60):
        cur = []
        v = oracle(case, trace, final, skip, cur)
        if v is None:
            break
        sig = json.dumps(v[0], sort_keys=True)
        if sig not in seen:
            seen.add(sig)
            out.append(v)
        if not cur:
            break            # a failure of the event scan (crash, duplicate, wrong message, budget): nothing to skip
        skip.add(cur[0])
    return out


# ----------------------------------------------------------------------------- generator

def gen_malformed(rng, n_eps):
    """a frame list that is NOT one of the legal shapes, built by damaging a legal one (or at random); Syn frames
    name real endpoints and small idx values, so they collide with genuine traffic"""
    def rf():
        x = rng.random()
        if x < 0.3:
            return ["syn", rng.randrange(4), rng.randrange(n_eps)]
        if x < 0.5:
            return ["hdr", rng.randrange(3)]
        if x < 0.62:
            return ["ack", rng.randrange(3)]
        if x < 0.85:
            return ["msg", 900 + rng.randrange(3)]
        return ["junk", rng.randrange(3)]
    legal = [[["msg", 901]], [["ack", 2]], [["hdr", 1], rf()], [["syn", rng.randrange(4), rng.randrange(n_eps)], ["msg", 902]],
             [["syn", rng.randrange(4), rng.randrange(n_eps)], ["hdr", 0], rf()]]
    for _ in range(20):
        if rng.random() < 0.8:
            fs = [list(x) for x in rng.choice(legal)]
            for _ in range(rng.choice([1, 1, 2])):
                y = rng.random()
                if y < 0.4 and fs:
                    fs.pop(rng.randrange(len(fs)))
                elif y < 0.75:
                    fs.insert(rng.randint(0, len(fs)), rf())
                elif fs:
                    fs[rng.randrange(len(fs))] = rf()
        else:
            fs = [rf() for _ in range(rng.randint(0, 4))]
        if frame_shape(fs) is None:
            return fs
    return [["syn", 0, 0]]


def gen_case(rng, tier_big=False):
    r = rng.random()
    maxr = 20 if r < 0.2 else rng.choice([1, 2, 2, 3, 3])
    style = rng.random()
    forged = rng.random() < 0.3          # malformed frame lists appear in receive queues
    faulty = rng.random() < 0.4          # application-level failures: dead worker, failure reports, unexpected messages, shutdown
    eps = []
    if style < 0.35:
        # bare endpoints, fully connected, small-step ops
        n = rng.choice([2, 2, 3])
        graces = [rng.choice([0, 100, 800]) for _ in range(n)]
        for a in range(n):
            eps.append({"kind": "bare", "grace": graces[a], "hosts": [[f"p{b}", b] for b in range(n) if b != a]})
        if rng.random() < 0.2:
            # the last endpoint is a REAL DataServer (its recv_loop over its own Listener; it owns no ReliableSender)
            eps[-1] = {"kind": "dataserver", "grace": GRACE_MS, "hosts": []}
    else:
        nx = rng.choice([1, 1, 2])
        k0 = "bridge" if rng.random() < 0.75 else "bare"
        data = rng.random() < 0.4
        hosts0 = []
        for i in range(1, nx + 1):
            hosts0.append([f"h{i}", i])
        for i in range(1, nx + 1):
            # the Bridge keeps a "data.<host>" entry per executor; without a listener there it is never sent to
            hosts0.append([f"data.h{i}", nx + 1 if (data and i == 1) else 90 + i])
        eps.append({"kind": k0, "grace": GRACE_MS, "hosts": hosts0})
        for i in range(1, nx + 1):
            eps.append({"kind": "executor" if rng.random() < 0.75 else "bare", "grace": GRACE_MS, "hosts": [["controller", 0]]})
        if data:
            if rng.random() < 0.4:
                eps.append({"kind": "dataserver", "grace": GRACE_MS, "hosts": []})     # the real DataServer.recv_loop behind data.h1
            else:
                eps.append({"kind": "bare", "grace": GRACE_MS, "hosts": [["controller", 0]]})
    n = len(eps)
    ops = []
    uid = [0]
    # the data path: in the bridge-style systems the last endpoint (when `data`) plays the data server of h1; its
    # traffic to the controller is DatasetTransmitPayloads (fetch), which travel as Syn + header + value
    data_ep = n - 1 if (style >= 0.35 and data) else None

    def fresh():
        uid[0] += 1
        return uid[0]

    def rand_send():
        a = rng.randrange(n)
        e = eps[a]
        if not e["hosts"]:
            return None
        host, dst = rng.choice([hd for hd in e["hosts"] if hd[1] < n])
        if rng.random() < 0.04:
            host = "h9" if e["kind"] != "executor" else host   # unknown host -> KeyError
        if dst < n and eps[dst]["kind"] == "dataserver":
            # what a data server is sent: transmit commands, payloads, purges; when `faulty` also a command under a transmit
            # idx it is still waiting on and a message type it does not know (its handler raises, the loop dies)
            cls = rng.choice(["cmd", "cmd", "payload", "payload", "purge"])
            if faulty and rng.random() < 0.15:
                cls = rng.choice(["cmdx", "cmdx", "pub"])
        elif style < 0.35:
            cls = rng.choice(["pub", "purge", "payload"])
        elif a == 0:
            if host.startswith("data."):
                cls = "cmd"
            elif faulty and rng.random() < 0.12:
                cls = rng.choice(["cmd", "shutdown"])          # an unexpected message / an early shutdown request
            else:
                cls = rng.choice(["purge", "seq"])
        else:
            cls = "pub"
            if e["kind"] == "bare" and rng.random() < (0.85 if a == data_ep else 0.3):
                cls = "payload"
        return {"op": "send", "ep": a, "host": host, "cls": cls, "m": fresh()}

    nops = rng.randint(4, 24 if maxr == 20 else (60 if tier_big else 34))
    for _ in range(nops):
        x = rng.random()
        if x < 0.24:
            o = rand_send()
            if o:
                ops.append(o)
        elif x < 0.31:
            cands = [a for a in range(n) if eps[a]["kind"] == "executor" or style < 0.35]
            if cands:
                a = rng.choice(cands)
                cls = "pub"
                if faulty and eps[a]["kind"] == "executor" and rng.random() < 0.3:
                    cls = rng.choice(["fail", "fail", "failx"])
                if eps[a]["kind"] == "dataserver" and not (faulty and rng.random() < 0.2):
                    cls = "purge"          # the executor forwards purges to its data server through the local callback
                ops.append({"op": "local", "ep": a, "cls": cls, "m": fresh()})
        elif x < 0.62:
            ops.append({"op": rng.choice(["deliver", "deliver", "deliver", "drop", "drop", "dup"]), "k": rng.randrange(6)})
        elif x < 0.72:
            a = rng.randrange(n)
            g = eps[a]["grace"]
            ops.append({"op": "tick", "ep": a, "dt": rng.choice([1, g, g + 1, g + 1, 3 * g + 5])})
        elif x < 0.93:
            a = rng.randrange(n)
            if eps[a]["kind"] == "bare" and rng.random() < 0.6:
                ops.append({"op": rng.choice(["recv", "recv", "retry"]), "ep": a})
            else:
                ops.append({"op": "poll", "ep": a})
        elif x < 0.96:
            if forged:
                ops.append({"op": "inject", "ep": rng.randrange(n), "frames": gen_malformed(rng, n)})
            elif faulty:
                xs = [a for a in range(n) if eps[a]["kind"] == "executor"]
                if xs and rng.random() < 0.5:
                    ops.append({"op": "killworker", "ep": rng.choice(xs)})
                elif eps[0]["kind"] == "bridge" and rng.random() < 0.3:
                    ops.append({"op": "shutdown", "ep": 0})
        else:
            a = rng.randrange(n)
            if eps[a]["kind"] == "bare" and eps[a]["hosts"]:
                ops.append({"op": "pop", "ep": a, "host": rng.choice(eps[a]["hosts"])[0]})
    # settle: let time pass for more than the budget under a fair or black-holing network
    pol = rng.random()
    hole = [] if pol < 0.45 else [rng.randrange(n)]
    for rnd in range(maxr + 2):
        for a in range(n):
            ops.append({"op": "tick", "ep": a, "dt": max(eps[a]["grace"], 1000) + 1 + rng.choice([0, 0, 200])})
        if pol > 0.8:
            hole = [rng.randrange(n)] if rng.random() < 0.6 else []
        ops.append({"op": "flush", "drop_to": hole})
        order = list(range(n))
        rng.shuffle(order)
        for a in order:
            ops.append({"op": "poll", "ep": a})
    ops.append({"op": "flush", "drop_to": hole})
    for a in range(n):
        ops.append({"op": "poll", "ep": a})
    return {"max": maxr, "eps": eps, "ops": ops}


def witness_cases():
    """deterministic histories replayed on every run: the known findings (shutdown handshake, popped host,
    acknowledged-then-abandoned batches) and a plain executor loss"""
    maxr = 2
    ctrl = {"kind": "bridge", "grace": GRACE_MS, "hosts": [["h1", 1], ["data.h1", 2]]}
    ctrl2 = {"kind": "bridge", "grace": GRACE_MS, "hosts": [["h1", 1], ["h2", 2], ["data.h1", 91], ["data.h2", 92]]}
    ex = {"kind": "executor", "grace": GRACE_MS, "hosts": [["controller", 0]]}
    dl = {"kind": "bare", "grace": GRACE_MS, "hosts": [["controller", 0]]}
    pa = {"kind": "bare", "grace": GRACE_MS, "hosts": [["p1", 1]]}
    pb = {"kind": "bare", "grace": GRACE_MS, "hosts": [["p0", 0]]}
    bare_ctrl = {"kind": "bare", "grace": GRACE_MS, "hosts": [["h1", 1]]}

    def rounds(ep, dt, extra=()):
        out = []
        for _ in range(maxr + 2):
            out += [{"op": "tick", "ep": ep, "dt": dt}, {"op": "poll", "ep": ep}] + list(extra)
        return out
    w1 = {"max": maxr, "eps": [ctrl, ex, dl], "name": "bridge-shutdown-lost",
          "ops": [{"op": "shutdown", "ep": 0}, {"op": "flush", "drop_to": [1]}] + rounds(0, 1001)}
    w2 = {"max": maxr, "eps": [ctrl, ex, dl], "name": "executor-exit-lost",
          "ops": [{"op": "send", "ep": 0, "host": "h1", "cls": "shutdown", "m": 0}, {"op": "flush", "drop_to": []},
                  {"op": "poll", "ep": 1}, {"op": "flush", "drop_to": [0]}, {"op": "poll", "ep": 1}, {"op": "poll", "ep": 1}]}
    w3 = {"max": maxr, "eps": [ctrl, ex, dl], "name": "executor-publish-lost",
          "ops": [{"op": "local", "ep": 1, "cls": "pub", "m": 1}, {"op": "poll", "ep": 1}, {"op": "flush", "drop_to": [0]}]
          + rounds(1, 1001, [{"op": "flush", "drop_to": [0]}])}
    # c06_raises_within_budget_full_fails on the real ReliableSender: the only transmission lost, the host popped
    w4 = {"max": maxr, "eps": [pa, pb], "name": "popped-host-inflight",
          "ops": [{"op": "send", "ep": 0, "host": "p1", "cls": "purge", "m": 1}, {"op": "flush", "drop_to": [1]},
                  {"op": "pop", "ep": 0, "host": "p1"}] + rounds(0, 1001)}
    # c06_app_exactly_once_full_fails on the real loops
    w5 = {"max": maxr, "eps": [bare_ctrl, ex], "name": "acked-then-break-at-shutdown",
          "ops": [{"op": "send", "ep": 0, "host": "h1", "cls": "shutdown", "m": 0},
                  {"op": "send", "ep": 0, "host": "h1", "cls": "purge", "m": 1}, {"op": "flush", "drop_to": []},
                  {"op": "poll", "ep": 1}, {"op": "flush", "drop_to": []}] + rounds(0, 1001)}
    w6 = {"max": maxr, "eps": [bare_ctrl, ex], "name": "acked-then-handler-exception",
          "ops": [{"op": "killworker", "ep": 1},
                  {"op": "send", "ep": 0, "host": "h1", "cls": "seq", "m": 1},
                  {"op": "send", "ep": 0, "host": "h1", "cls": "purge", "m": 2}, {"op": "flush", "drop_to": []},
                  {"op": "poll", "ep": 1}, {"op": "flush", "drop_to": []}] + rounds(0, 1001)}
    w7 = {"max": maxr, "eps": [ctrl2, ex, ex], "name": "acked-then-shutdown-reason",
          "ops": [{"op": "local", "ep": 1, "cls": "pub", "m": 1}, {"op": "local", "ep": 2, "cls": "fail", "m": 2},
                  {"op": "poll", "ep": 1}, {"op": "poll", "ep": 2}, {"op": "flush", "drop_to": []},
                  {"op": "poll", "ep": 0}, {"op": "flush", "drop_to": []}]
          + rounds(1, 1001, [{"op": "flush", "drop_to": []}])}
    # c06_app_exactly_once_forged_fails on the real Listener (bare) and on the real executor loop
    w8 = {"max": maxr, "eps": [pa, pb], "name": "acked-then-malformed-frame",
          "ops": [{"op": "send", "ep": 0, "host": "p1", "cls": "purge", "m": 1}, {"op": "flush", "drop_to": []},
                  {"op": "inject", "ep": 1, "frames": [["syn", 9, 0]]},
                  {"op": "poll", "ep": 1}, {"op": "flush", "drop_to": []}] + rounds(0, 1001)}
    w9 = {"max": maxr, "eps": [bare_ctrl, ex], "name": "acked-then-malformed-frame-executor",
          "ops": [{"op": "send", "ep": 0, "host": "h1", "cls": "purge", "m": 1}, {"op": "flush", "drop_to": []},
                  {"op": "inject", "ep": 1, "frames": [["syn", 9, 0]]},
                  {"op": "poll", "ep": 1}, {"op": "flush", "drop_to": []}] + rounds(0, 1001)}
    w10 = {"max": maxr, "eps": [ctrl, ex, dl], "name": "acked-then-retry-raised",
           "ops": [{"op": "send", "ep": 0, "host": "h1", "cls": "purge", "m": 1}, {"op": "flush", "drop_to": [1]},
                   {"op": "tick", "ep": 0, "dt": 1001}, {"op": "poll", "ep": 0}, {"op": "flush", "drop_to": [1]},
                   {"op": "local", "ep": 1, "cls": "pub", "m": 2}, {"op": "poll", "ep": 1}, {"op": "flush", "drop_to": [1]},
                   {"op": "tick", "ep": 0, "dt": 1001}, {"op": "poll", "ep": 0}, {"op": "flush", "drop_to": []}]
           + rounds(1, 1001, [{"op": "flush", "drop_to": []}])}
    # a rejected malformed list still acknowledges its leading Syn - here at a third endpoint
    w11 = {"max": maxr, "eps": [ctrl2, dl, ex], "name": "malformed-frame-acks-syn",
           "ops": [{"op": "inject", "ep": 2, "frames": [["syn", 0, 1], ["hdr", 0]]}, {"op": "poll", "ep": 2},
                   {"op": "send", "ep": 1, "host": "controller", "cls": "pub", "m": 4}, {"op": "flush", "drop_to": [0]}]
           + rounds(1, 1001)}
    # the same family at the fourth receive loop: DataServer.recv_loop has no handler at all (bare `except: raise`); a
    # command under a transmit idx it is still waiting on raises ValueError, the rest of the batch was acknowledged
    dctrl = {"kind": "bare", "grace": GRACE_MS, "hosts": [["data.h1", 1]]}
    dsrv = {"kind": "dataserver", "grace": GRACE_MS, "hosts": []}
    w12 = {"max": maxr, "eps": [dctrl, dsrv], "name": "acked-then-dataserver-exception",
           "ops": [{"op": "send", "ep": 0, "host": "data.h1", "cls": "cmdx", "m": 1}, {"op": "send", "ep": 0, "host": "data.h1", "cls": "cmdx", "m": 2},
                   {"op": "send", "ep": 0, "host": "data.h1", "cls": "cmd", "m": 3}, {"op": "flush", "drop_to": []},
                   {"op": "poll", "ep": 1}, {"op": "flush", "drop_to": []}] + rounds(0, 1001)}
    # clause (b) at application level: the budget runs out inside the real Bridge.recv_events - the raise must END the
    # loop (shutdown + ValueError to the controller), not be swallowed
    w13 = {"max": maxr, "eps": [ctrl, ex, dl], "name": "retry-raise-ends-loop",
           "ops": [{"op": "send", "ep": 0, "host": "h1", "cls": "purge", "m": 1}, {"op": "flush", "drop_to": [1]}]
           + rounds(0, 1001, [{"op": "flush", "drop_to": [1]}])}
    # ... and inside the real Executor.recv_loop (ExecutorFailure + terminate)
    w14 = {"max": maxr, "eps": [bare_ctrl, ex], "name": "retry-raise-ends-executor-loop",
           "ops": [{"op": "local", "ep": 1, "cls": "pub", "m": 1}, {"op": "poll", "ep": 1}, {"op": "flush", "drop_to": [0]}]
           + rounds(1, 1001, [{"op": "flush", "drop_to": [0]}])}
    return [w1, w2, w3, w4, w5, w6, w7, w8, w9, w10, w11, w12, w13, w14]


# what each deterministic witness has to show on the real code (signature subset). A witness that stops showing it is
# REPORTED (note + distribution count + stdout line): a known finding that silently disappears is a change of behaviour
WITNESS_EXPECT = {
    "bridge-shutdown-lost": {"kind": "silent-loss", "cause": "no-retry", "loop": "Bridge.shutdown"},
    "executor-exit-lost": {"kind": "silent-loss", "cause": "loop-exited", "loop": "Executor.recv_loop:exit"},
    "executor-publish-lost": None,          # expected clean (the repaired C06-executor-no-retry)
    "popped-host-inflight": {"kind": "silent-loss", "cause": "host-popped"},
    "acked-then-break-at-shutdown": {"kind": "acked-not-handled", "cause": "break-at-shutdown", "loop": "Executor.recv_loop"},
    "acked-then-handler-exception": {"kind": "acked-not-handled", "cause": "handler-exception", "loop": "Executor.recv_loop"},
    "acked-then-shutdown-reason": {"kind": "acked-not-handled", "cause": "shutdown-reason", "loop": "Bridge.recv_events"},
    "acked-then-malformed-frame": {"kind": "acked-not-handled", "cause": "malformed-frame", "loop": "harness"},
    "acked-then-malformed-frame-executor": {"kind": "acked-not-handled", "cause": "malformed-frame", "loop": "Executor.recv_loop"},
    "acked-then-retry-raised": {"kind": "acked-not-handled", "cause": "retry-raised", "loop": "Bridge.recv_events"},
    "malformed-frame-acks-syn": {"kind": "silent-loss", "cause": "malformed-frame-acked"},
    "acked-then-dataserver-exception": {"kind": "acked-not-handled", "cause": "handler-exception", "loop": "DataServer.recv_loop"},
    "retry-raise-ends-loop": None,           # expected: no `raise-swallowed`; the raise is seen to end the loop (raise-in-loop counts)
    "retry-raise-ends-executor-loop": None,
}


def _check_witness(ctx, case, viols):
    name = case.get("name")
    exp = case["expect"] if "expect" in case else WITNESS_EXPECT.get(name)
    sigs = [v[0] for v in viols]
    if exp is None:
        ok = True       # expected clean: anything it shows is reported by the oracle anyway
    else:
        ok = any(all(sg.get(k) == x for k, x in exp.items()) for sg in sigs)
    ctx.count(f"witness:{name}:{'reproduced' if ok else 'NOT-REPRODUCED'}")
    ctx.extra.setdefault("witnesses", {})[name] = {"expected": exp, "observed": sigs, "reproduced": ok}
    if not ok:
        note = (f"known-finding witness '{name}' no longer shows {json.dumps(exp, sort_keys=True)} on this tree "
                f"(observed: {json.dumps(sigs, sort_keys=True)}): the behaviour behind a known finding changed - "
                f"review the finding (repaired? masked? moved?)")
        ctx.notes.append(note)
        ctx.count("known-finding-witness-not-reproduced")
        print(f"NOTE property={PROPERTY} {note}", flush=True)


def long_cases(rng, n_cases=2):
    """LONG histories (oracle only - the model side is not run on them, its state digest is quadratic in the length):
    1500-1900 acknowledged messages through ONE real Listener, in chunks; the network adversary keeps copies of early
    packets (and of some later ones) and delivers them hundreds / more than a thousand messages later, some only at the
    very end; two in five of the held packets are TAKEN (the original itself is delayed: a late first delivery behind newer indices). Receiver: a bare Listener read by recv_messages, or the real Executor.recv_loop. Any bound, expiry or reset
    of `Listener.acked` (the source's own TODO) shows as a second hand-over of an old message."""
    out = []
    for ci in range(n_cases):
        total = rng.randint(1500, 1900)
        to_executor = (ci % 2 == 1)
        if to_executor:
            eps = [{"kind": "bare", "grace": GRACE_MS, "hosts": [["h1", 1]]}, {"kind": "executor", "grace": GRACE_MS, "hosts": [["controller", 0]]}]
            host = "h1"
        else:
            eps = [{"kind": "bare", "grace": GRACE_MS, "hosts": [["p1", 1]]}, {"kind": "bare", "grace": GRACE_MS, "hosts": [["p0", 0]]}]
            host = "p1"
        ops = []
        sent = 0
        pending_unstash = []      # message counts at which held duplicates are released
        first = True
        held = 0

        def release():
            # a duplicate ends a recv_messages batch (its `_recv_one` returns None): one more call per held copy
            nonlocal held
            r = [{"op": "unstash"}, {"op": "flush", "drop_to": []}] + [{"op": "poll", "ep": 1}] * (held + 1) \
                + [{"op": "flush", "drop_to": []}, {"op": "poll", "ep": 0}]
            held = 0
            return r
        while sent < total:
            c = min(total - sent, rng.randint(20, 60))
            for _ in range(c):
                sent += 1
                ops.append({"op": "send", "ep": 0, "host": host, "cls": rng.choice(["purge", "purge", "payload"]) if not to_executor else "purge", "m": sent})
            if first or rng.random() < 0.25:
                # hold copies of up to 6 packets of this chunk
                for _ in range(rng.randint(2, 6)):
                    ops.append({"op": "stash", "k": rng.randrange(c), "take": rng.random() < 0.4})
                    held += 1
                pending_unstash.append(sent + (rng.choice([1100, 1300, 10 ** 9]) if first else rng.choice([100, 300, 600, 1100, 10 ** 9])))
                first = False
            ops += [{"op": "flush", "drop_to": []}, {"op": "poll", "ep": 1}, {"op": "flush", "drop_to": []}, {"op": "poll", "ep": 0}]
            if any(t <= sent for t in pending_unstash):
                pending_unstash = [t for t in pending_unstash if t > sent]
                # note: all held copies are released together (the stash is one list); later ones are held again afterwards
                ops += release()
        ops += release()
        out.append({"max": 3, "eps": eps, "ops": ops, "name": f"long-{'executor' if to_executor else 'bare'}-{total}", "oracle_only": True,
                    "expect": None})
    return out


def payload_cases():
    """deterministic histories of the DATA path (run on every seed, expected clean): a DatasetTransmitPayload
    (Syn + header + value, framed by the real comms.send_data) reaches the same Listener more than once - the network
    duplicates the frames, or the Ack is lost / late and the source re-sends - while the receiving application is
    the real Bridge.recv_events (a fetch), a bare controller, or a bare endpoint standing for a target data server
    (host-to-host transmit); regular two-frame traffic is interleaved under neighbouring Syn indices."""
    maxr = 3
    ctrl = {"kind": "bridge", "grace": GRACE_MS, "hosts": [["h1", 1], ["data.h1", 2]]}
    ex = {"kind": "executor", "grace": GRACE_MS, "hosts": [["controller", 0]]}
    dl = {"kind": "bare", "grace": GRACE_MS, "hosts": [["controller", 0]]}
    bare_ctrl = {"kind": "bare", "grace": GRACE_MS, "hosts": [["h1", 1], ["data.h1", 2]]}
    bx = {"kind": "bare", "grace": GRACE_MS, "hosts": [["controller", 0]]}
    pa = {"kind": "bare", "grace": GRACE_MS, "hosts": [["p1", 1]]}
    pb = {"kind": "bare", "grace": GRACE_MS, "hosts": [["p0", 0]]}
    pay = lambda ep, host, m: {"op": "send", "ep": ep, "host": host, "cls": "payload", "m": m}
    fl = lambda *drop: {"op": "flush", "drop_to": list(drop)}
    poll = lambda ep: {"op": "poll", "ep": ep}
    tick = lambda ep, dt=GRACE_MS + 1: {"op": "tick", "ep": ep, "dt": dt}

    def settle(eps_):
        out = []
        for _ in range(maxr + 2):
            out += [tick(a) for a in eps_] + [fl()] + [poll(a) for a in eps_]
        return out
    cases = []
    # the network duplicates the payload frames of a fetch; the controller is the real Bridge
    cases.append({"name": "payload-duplicated-to-bridge", "eps": [ctrl, ex, dl],
                  "ops": [pay(2, "controller", 1), {"op": "dup", "k": 0}, {"op": "deliver", "k": 0}, poll(0), poll(0), fl(), poll(2)]
                  + settle([0, 2])})
    # ... both copies in ONE recv_messages batch, a regular message of the executor in between
    cases.append({"name": "payload-duplicated-one-batch", "eps": [ctrl, ex, dl],
                  "ops": [pay(2, "controller", 1), {"op": "dup", "k": 0}, {"op": "local", "ep": 1, "cls": "pub", "m": 2}, poll(1),
                          fl(), poll(0), poll(0), fl(), poll(2), poll(1)] + settle([0, 1, 2])})
    # the Ack of the payload is lost: the source re-sends after its grace, the controller must not get it twice
    cases.append({"name": "payload-resent-after-lost-ack", "eps": [ctrl, ex, dl],
                  "ops": [pay(2, "controller", 1), fl(), poll(0), fl(2), tick(2), poll(2), fl(), poll(0), fl(), poll(2)]
                  + settle([0, 2])})
    # the Ack is late: the re-sent copy and the first Ack cross on the network
    cases.append({"name": "payload-resent-late-ack", "eps": [bare_ctrl, bx, dl],
                  "ops": [pay(2, "controller", 1), pay(2, "controller", 2), fl(), poll(0), tick(2), poll(2), fl(), poll(0), poll(2),
                          fl(), poll(0), poll(2)] + settle([0, 2])})
    # host-to-host transmit: the target's Listener (bare) gets the payload three times (dup + retransmission),
    # single _recv_one calls
    cases.append({"name": "payload-triple-to-data-server", "eps": [pa, pb],
                  "ops": [pay(0, "p1", 1), {"op": "send", "ep": 0, "host": "p1", "cls": "purge", "m": 2}, {"op": "dup", "k": 0},
                          tick(0), {"op": "retry", "ep": 0}, fl(), {"op": "recv", "ep": 1}, {"op": "recv", "ep": 1},
                          {"op": "recv", "ep": 1}, {"op": "recv", "ep": 1}, {"op": "recv", "ep": 1}, fl(), poll(0)] + settle([0, 1])})
    # payloads in both directions under the same Syn indices (idx 0 at both ends)
    cases.append({"name": "payload-both-directions", "eps": [pa, pb],
                  "ops": [pay(0, "p1", 1), pay(1, "p0", 2), {"op": "dup", "k": 1}, {"op": "dup", "k": 0}, fl(), poll(0), poll(1), poll(0),
                          poll(1), fl(), poll(0), poll(1)] + settle([0, 1])})
    for c in cases:
        c["max"] = maxr
    return cases


# ----------------------------------------------------------------------------- frames (raw _recv_one)

def _frame_bytes(sim, f):
    from cascade.low.core import DatasetId
    msg = sim.msg
    k = f[0]
    if k == "syn":
        return pickle.dumps(msg.Syn(idx=f[1], addr=sim.addr(f[2])))
    if k == "hdr":
        return pickle.dumps(msg.DatasetTransmitPayloadHeader(confirm_address="tcp://c", confirm_idx=f[1], ds=DatasetId("t", "o"), deser_fun="f"))
    if k == "ack":
        return pickle.dumps(msg.Ack(idx=f[1]))
    if k == "msg":
        m = msg.DatasetPurge(ds=DatasetId("m", str(f[1])))
        sim.msgids[repr(m)] = f[1]
        return pickle.dumps(m)
    b = b"" if f[1] == 0 else b"\xff junk %d" % f[1]
    sim.junkids[b] = f[1]
    return b


def gen_frames(rng):
    def rf():
        x = rng.random()
        if x < 0.3:
            return ["syn", rng.randrange(3), rng.randrange(2)]
        if x < 0.5:
            return ["hdr", rng.randrange(3)]
        if x < 0.62:
            return ["ack", rng.randrange(3)]
        if x < 0.85:
            return ["msg", rng.randrange(3)]
        return ["junk", rng.randrange(3)]
    legal = [[["msg", 1]], [["ack", 2]], [["hdr", 1], rf()], [["syn", 1, 0], ["msg", 2]], [["syn", 0, 1], ["ack", 1]],
             [["syn", 2, 1], ["hdr", 0], rf()]]
    if rng.random() < 0.75:
        fs = [list(x) for x in rng.choice(legal)]
        for _ in range(rng.choice([0, 1, 1, 2])):
            y = rng.random()
            if y < 0.35 and fs:
                fs.pop(rng.randrange(len(fs)))
            elif y < 0.7:
                fs.insert(rng.randint(0, len(fs)), rf())
            elif fs:
                fs[rng.randrange(len(fs))] = rf()
    else:
        fs = [rf() for _ in range(rng.randint(0, 4))]
    acked = [[i, a] for i in range(3) for a in range(2) if rng.random() < 0.3]
    return {"frames": fs, "acked": acked}


ERR_OF = [("unexpected empty message", "empty"), ("unexpected message with Syn only", "synOnly"),
          ("first message was payload header", "hdrLen2"), ("expected len 1 but gotten", "len1"),
          ("unexpected double Syn", "doubleSyn"), ("second message was payload header", "hdrLen3"),
          ("expected len(data)", "len2")]


def real_rawrecv(case):
    """one real `_recv_one` on a REAL Listener (its own constructor, over the fake zmq context) holding exactly this
    frame list. The Syns of case["acked"] are made known to it the way the code itself learns them: a two-frame message
    under each goes through `_recv_one` first (no attribute of the Listener is written from here)."""
    from ekw import sim_c06
    from cascade.low.core import DatasetId
    sim = sim_c06.Sim(*_mods())
    with sim.installed():
        comms, msg = sim.comms, sim.msg
        sim.net.inbox[sim.addr(0)] = None
        sim.net.inbox[sim.addr(1)] = None          # Acks to both possible Syn addresses are recorded
        l = comms.Listener("tcp://raw")
        for i, a in case["acked"]:
            l.socket.queue.append((pickle.dumps(msg.Syn(idx=i, addr=sim.addr(a))), pickle.dumps(msg.DatasetPurge(ds=DatasetId("pre", str(i))))))
            l._recv_one(0)
        del sim.net.net[:]
        del sim.net.emitted[:]
        before = set(l.acked)
        l.socket.queue.append(tuple(_frame_bytes(sim, f) for f in case["frames"]))
        try:
            r = l._recv_one(0)
            res = ["none"] if r is None else ["ok", sim.parsed_json(r)]
        except ValueError as e:
            res = ["err", next((c for p, c in ERR_OF if str(e).startswith(p)), "other:" + str(e)[:40])]
        except (pickle.UnpicklingError, EOFError):       # des_message on a frame that is no pickle
            res = ["err", "des"]
        except Exception as e:  # noqa: BLE001 - anything else is the code's own failure, not a rejected frame list
            res = ["err", "exc:" + type(e).__name__]
        acks = [[sim.addr_id(ad), pickle.loads(fr[0]).idx] for ad, fr in sim.net.net]
        new = [[y.idx, sim.addr_id(y.addr)] if hasattr(y, "addr") else [y if isinstance(y, int) else -1, -1] for y in set(l.acked) - before]
    return {"res": res, "ack": acks[0] if len(acks) == 1 else (None if not acks else acks),
            "mark": new[0] if len(new) == 1 else (None if not new else new)}


def frames_oracle(case, out):
    """Property text: a malformed frame sequence is rejected with an error, never delivered as a
    different message. Legal shapes written down independently of the model."""
    fs = case["frames"]
    body = fs[1:] if fs and fs[0][0] == "syn" else fs
    ok_shape = None
    if len(body) == 1 and body[0][0] in ("msg", "ack"):
        ok_shape = list(body[0])
    elif len(body) == 2 and body[0][0] == "hdr":
        ok_shape = ["payload", body[0][1], body[1]]
    res = out["res"]
    if res[0] == "ok":
        if ok_shape is None:
            return ({"kind": "malformed-accepted"}, f"frame sequence {fs} is not a legal shape but was delivered as {res[1]}")
        if res[1] != ok_shape:
            return ({"kind": "wrong-message"}, f"frame sequence {fs} was delivered as {res[1]}, carries {ok_shape}")
        if fs[0][0] == "syn" and [fs[0][1], fs[0][2]] in case["acked"]:
            return ({"kind": "duplicate-delivery"}, f"frame sequence {fs} under an already acknowledged Syn was delivered again")
    elif res[0] == "none":
        if not (fs and fs[0][0] == "syn" and [fs[0][1], fs[0][2]] in case["acked"]):
            return ({"kind": "dropped-without-error"}, f"frame sequence {fs} was swallowed (None) although its Syn was not seen before")
    else:
        if ok_shape is not None and not (fs[0][0] == "syn" and [fs[0][1], fs[0][2]] in case["acked"]):
            return ({"kind": "legal-rejected"}, f"legal frame sequence {fs} was rejected: {res}")
    return None


# ----------------------------------------------------------------------------- running / comparing

def run_real(case):
    rr = RealRun(case)
    try:
        out = rr.run()
    except Exception as ex:  # noqa: BLE001
        out = [({"op": "noop"}, {"crash": f"{type(ex).__name__}: {ex}"})]
        rr.trace.append(("crash", 0, f"{type(ex).__name__}: {ex}"))
        rr.final = [{"loop": "?", "exited": False, "hosts": []} for _ in case["eps"]]
    return rr, out


def oracle_of(case):
    rr, out = run_real(case)
    return oracle(case, rr.trace, rr.final)


def oracle_all_of(case):
    rr, out = run_real(case)
    return oracle_all(case, rr.trace, rr.final)


def shrink_ops(case, pred):
    cur = list(case["ops"])
    changed = True
    budget = 400
    while changed and budget > 0:
        changed = False
        i = len(cur) - 1
        while i >= 0 and budget > 0:
            cand = cur[:i] + cur[i + 1:]
            budget -= 1
            if pred(dict(case, ops=cand)):
                cur = cand
                changed = True
            i -= 1
    return dict(case, ops=cur)


def shrink_chunks(case, pred, budget=45):
    cur = list(case["ops"])
    size = len(cur) // 2
    while size >= 8 and budget > 0:
        i = 0
        progressed = False
        while i < len(cur) and budget > 0:
            cand = cur[:i] + cur[i + size:]
            budget -= 1
            if cand and pred(dict(case, ops=cand)):
                cur = cand
                progressed = True
            else:
                i += size
        if not progressed:
            size //= 2
    return dict(case, ops=cur)


def _canon(d):
    if isinstance(d, dict):
        d = dict(d)
        for k in ("acked", "hosts"):
            if isinstance(d.get(k), list):
                d[k] = sorted(d[k])
        d.pop("table", None)
        # HOW the loop function ended ("return" / exception class) is the loop's business and not modelled; THAT it ended in
        # the iteration in which the sender raised is: `stops` stays in the digest and is compared (Drive/C06.lean `poll`)
        d.pop("ended", None)
    return d


def _stats(ctx, case, rr):
    n_drop = sum(1 for t in rr.trace if t[0] == "drop")
    n_dup = sum(1 for t in rr.trace if t[0] == "dup")
    ctx.count("histories")
    ctx.count("ops", len(case["ops"]))
    ctx.count("endpoints", len(case["eps"]))
    for e in case["eps"]:
        ctx.count("endpoint:" + e["kind"])
    for o in case["ops"]:
        ctx.count("op:" + o["op"])
    ctx.count("packets_dropped", n_drop)
    ctx.count("packets_duplicated", n_dup)
    ctx.count("packets_delivered", sum(1 for t in rr.trace if t[0] == "deliver"))
    ctx.count("messages_sent", sum(1 for t in rr.trace if t[0] == "sent"))
    ctx.count("messages_accepted_by_listener", sum(1 for t in rr.trace if t[0] == "accepted"))
    ctx.count("messages_handed_to_application", sum(1 for t in rr.trace if t[0] == "handled"))
    ctx.count("sender_raised", sum(1 for t in rr.trace if t[0] == "raised"))
    ctx.count("max_retries=%d" % case["max"])
    npay = sum(1 for t in rr.trace if t[0] == "sent" and "DatasetTransmitPayload" in t[3])
    if npay:
        ctx.count("payload_messages_sent", npay)
        ctx.count("histories_with_payload_traffic")
        ctx.count("payload_frames_on_wire", sum(1 for t in rr.trace if t[0] == "tx" and "DatasetTransmitPayload(" in t[2]))
        ctx.count("payloads_handed_to_application", sum(1 for t in rr.trace if t[0] == "handled" and "DatasetTransmitPayload(" in t[2]))
        ntx = {}
        for t in rr.trace:
            if t[0] == "tx" and "DatasetTransmitPayload(" in t[2]:
                ntx[(t[1], t[3])] = ntx.get((t[1], t[3]), 0) + 1
        ctx.count("payloads_retransmitted", sum(1 for v in ntx.values() if v > 1))
        if n_dup and ntx:
            ctx.count("histories_with_payload_traffic_and_network_duplicates")
    for t in rr.trace:
        if t[0] == "aborted":
            ctx.count("iteration-abandoned:" + t[2])
            ctx.count(f"iteration-abandoned:{t[2]}:{t[4]}")
        elif t[0] == "inject":
            ctx.count("injected-frame-lists")
        elif t[0] == "popped":
            ctx.count("hosts-popped")
    if case["max"] == 20:
        ctx.count("ops-with-real-budget", len(case["ops"]))
    if case.get("oracle_only"):
        ctx.count("long-histories(oracle-only)")
        ctx.count("long-history-messages", sum(1 for t in rr.trace if t[0] == "sent"))
        ctx.count("long-history-delayed-duplicates", n_dup)
        ctx.count("long-history-receiver:" + case["eps"][1]["kind"])
    return n_drop, n_dup


def _check_table(ctx, rr, case):
    """dynamic cross-check of the translator: what the real loop did in each iteration vs the table"""
    tab = _table()["loops"]
    consts = _table()["consts"]
    cd = {"loop": None, "case": case.get("name"), "max": case["max"], "eps": case["eps"], "ops": case["ops"]}
    for name, retried, nack, fed, failed in rr.loops_seen:
        if name not in tab or failed:
            continue
        ctx.count("loop-iteration:" + name)
        if retried != tab[name]["callsRetry"]:
            ctx.disagree("translator-vs-dynamic", dict(cd, loop=name),
                         {"callsRetry": tab[name]["callsRetry"]}, {"maybe_retry called in the iteration": retried})
        if nack > 0 and (fed > 0) != tab[name]["feedsAck"]:
            ctx.disagree("translator-vs-dynamic", dict(cd, loop=name),
                         {"feedsAck": tab[name]["feedsAck"]}, {"acks received": nack, "sender.ack calls": fed})
    for name, stops in rr.raises_seen:
        if name not in tab:
            continue
        ctx.count(f"raise-in-loop:{name}:{'ended-the-loop' if stops else 'SWALLOWED'}")
        if tab[name]["raiseEnds"] and not stops:      # (a loop with a swallowing handler may still end for another reason)
            ctx.disagree("translator-vs-dynamic", dict(cd, loop=name),
                         {"raiseEnds": tab[name]["raiseEnds"]}, {"the loop ended in the iteration in which maybe_retry raised": stops})
    for name, tmo in rr.polls_seen:
        if name not in tab:
            continue
        ctx.count(f"poll-timeout:{name}:{tmo}")
        if tmo != timeout_ms(tab[name], consts):
            ctx.disagree("translator-vs-dynamic", dict(cd, loop=name),
                         {"timeoutMs": timeout_ms(tab[name], consts)}, {"blocking poll entered with timeout": tmo})


def _report_violation(ctx, case, viol):
    kind = viol[0]
    sig = json.dumps(kind, sort_keys=True)
    seen = ctx.__dict__.setdefault("_c06_shrunk", set())
    if sig in seen:       # one minimised witness per signature; further ones are reported as found
        ctx.violation(kind, {"type": "history", "max": case["max"], "eps": case["eps"], "ops": case["ops"]}, viol[1])
        return
    seen.add(sig)
    from ekw.core import load_known, match_known
    if match_known(PROPERTY, kind, load_known()) is not None:
        # a known finding: its minimal history is the deterministic witness replayed on every run - no shrinking
        ctx.violation(kind, {"type": "history", "max": case["max"], "eps": case["eps"], "ops": case["ops"]}, viol[1])
        return
    if len(case["ops"]) > 400:
        # a long history: one replay costs a second - remove large chunks first (delta debugging, small budget); what is
        # still long after that is reported as it is (a bound on `acked` needs its thousand messages)
        case = shrink_chunks(case, lambda c: any(v[0] == kind for v in oracle_all_of(c)))
        if len(case["ops"]) > 400:
            v2 = next((v for v in oracle_all_of(case) if v[0] == kind), viol)
            ctx.violation(kind, {"type": "history", "max": case["max"], "eps": case["eps"], "ops": case["ops"], "oracle_only": True}, v2[1])
            return
    small = shrink_ops(case, lambda c: any(v[0] == kind for v in oracle_all_of(c)))
    v2 = next((v for v in oracle_all_of(small) if v[0] == kind), viol)
    ctx.violation(v2[0], {"type": "history", "max": small["max"], "eps": small["eps"], "ops": small["ops"]}, v2[1])


def _real_phase(ctx, with_model=True):
    """runs every case on the real code + oracle; returns the material for the model comparison"""
    from ekw.core import CORPUS_DIR
    nhist = ctx.budget(400, 9000)
    nframes = ctx.budget(3000, 40000)
    cases = []
    for f in sorted(glob.glob(str(CORPUS_DIR / "C06_*.json"))):
        c = json.load(open(f))
        if c.get("type", "history") == "history":
            cases.append(c)
    cases += witness_cases()
    cases += payload_cases()
    cases += long_cases(ctx.rng, ctx.budget(2, 12))
    for _ in range(nhist):
        cases.append(gen_case(ctx.rng, tier_big=not ctx.quick))
    material = []
    for case in cases:
        rr, out = run_real(case)
        n_drop, n_dup = _stats(ctx, case, rr)
        retrans = sum(1 for o in out if isinstance(o[1], dict) and any(p[1] and p[1][0][0] == "syn" for p in o[1].get("wire", []))) \
            - sum(1 for t in rr.trace if t[0] == "sent")
        ctx.case({"max": case["max"], "eps": [e["kind"] for e in case["eps"]], "ops": case["ops"][:10], "n_ops": len(case["ops"])},
                 nontrivial=((n_drop + n_dup > 0 and retrans > 0) or any(t[0] == "aborted" for t in rr.trace)))
        _check_table(ctx, rr, case)
        viols = oracle_all(case, rr.trace, rr.final)
        for viol in viols:
            ctx.count("oracle:" + viol[0]["kind"] + (":" + viol[0]["cause"] if "cause" in viol[0] else ""))
            _report_violation(ctx, case, viol)
        if case.get("expect") is not None or case.get("name") in WITNESS_EXPECT:
            _check_witness(ctx, case, viols)
        if not case.get("oracle_only"):
            material.append((case, out))
    fcases = [gen_frames(ctx.rng) for _ in range(nframes)]
    fouts = []
    for fc in fcases:
        try:
            o = real_rawrecv(fc)
        except Exception as ex:  # noqa: BLE001
            o = {"res": ["err", "crash:" + type(ex).__name__], "ack": None, "mark": None}
        fouts.append(o)
        ctx.count("frame-lists")
        ctx.count("frame-result:" + (o["res"][1] if o["res"][0] == "err" else o["res"][0]))
        ctx.case({"frames": fc}, nontrivial=(o["res"][0] != "ok"))
        v = frames_oracle(fc, o)
        if v:
            ctx.violation(v[0], {"type": "frames", **fc}, v[1])
    return material, fcases, fouts


def correspond(ctx):
    from ekw.core import lean_drive
    material, fcases, fouts = _real_phase(ctx)
    lines = [json.dumps({"op": "consts"})]
    for case, out in material:
        for line, _ in out:
            if line is not None:
                lines.append(json.dumps(line))
    for fc in fcases:
        lines.append(json.dumps({"op": "rawrecv", **fc}))
    res = lean_drive("C06", lines)
    consts = json.loads(res[0])
    tc = _table()["consts"]
    real_consts = {"maxRetries": tc["max_retries_per_message"], "resendGraceMs": tc["default_message_resend_ms"],
                   "defaultTimeoutMs": tc["default_timeout_ms"]}
    comms = _mods()[0]
    live = {"maxRetries": comms.max_retries_per_message, "resendGraceMs": comms.default_message_resend_ms,
            "defaultTimeoutMs": comms.default_timeout_ms}
    if consts != real_consts or live != real_consts:
        ctx.disagree("consts", {"translator": "retry_loops"}, consts, {"ast": real_consts, "imported": live})
    k = 1
    for case, out in material:
        ctx.traces += 1
        bad = False
        for i, (line, real) in enumerate(out):
            if line is None:
                continue
            mo = json.loads(res[k])
            k += 1
            if bad or line.get("op") == "reset":
                continue
            if _canon(mo) != _canon(real):
                bad = True
                nops = i  # out[0] is the reset line, op j of the case is out[j+1]
                ctx.disagree("ack-op", {"type": "history", "max": case["max"], "eps": case["eps"], "ops": case["ops"][:nops], "line": line},
                             _canon(mo), _canon(real))
    for fc, fo in zip(fcases, fouts):
        mo = json.loads(res[k])
        k += 1
        ctx.traces += 1
        if mo != fo:
            ctx.disagree("recv_one", {"type": "frames", **fc}, mo, fo)


def oracle_only(ctx):
    _real_phase(ctx, with_model=False)


def search(ctx, why):
    """(P) or (T) broken: larger targeted search on the real code (oracle only)."""
    from ekw.core import load_known, match_known
    known = load_known()
    if any(match_known(PROPERTY, v["signature"], known) is None for v in ctx.violations):
        return      # an unexplained failing input is already at hand
    from ekw.core import match_known as _mk
    for case in long_cases(ctx.rng, ctx.budget(3, 10)):
        rr, out = run_real(case)
        for viol in oracle_all(case, rr.trace, rr.final):
            if _mk(PROPERTY, viol[0], known) is None:
                _report_violation(ctx, case, viol)
                return
    for _ in range(ctx.budget(1500, 20000)):
        case = gen_case(ctx.rng, tier_big=True)
        rr, out = run_real(case)
        for viol in oracle_all(case, rr.trace, rr.final):
            if _mk(PROPERTY, viol[0], known) is None:
                _report_violation(ctx, case, viol)
                return
    for _ in range(ctx.budget(5000, 50000)):
        fc = gen_frames(ctx.rng)
        try:
            o = real_rawrecv(fc)
        except Exception as ex:  # noqa: BLE001
            o = {"res": ["err", "crash:" + type(ex).__name__], "ack": None, "mark": None}
        v = frames_oracle(fc, o)
        if v:
            ctx.violation(v[0], {"type": "frames", **fc}, v[1])
            return


def replay(payload):
    if "case" not in payload:
        # proof or correspondence broken without a failing input: show what broke, re-run the first diverging history
        print("proof broken:", json.dumps(payload.get("proof_broken"))[:2000])
        for d in payload.get("correspondence_broken", [])[:3]:
            print("correspondence broken at", d.get("where"), "\n  model:", json.dumps(d.get("model"))[:800], "\n  real: ", json.dumps(d.get("impl"))[:800])
            c = d.get("case", {})
            if c.get("type") == "history":
                rr, out = run_real(c)
                for (line, real), o in zip(out[1:], c["ops"]):
                    print("   ", o, "->", real)
        return 1
    case = payload["case"]
    if case.get("type") == "frames":
        o = real_rawrecv(case)
        print(case, "->", o)
        v = frames_oracle(case, o)
        print("oracle:", v)
        return 1 if v else 0
    rr, out = run_real(case)
    for (line, real), o in zip(out[1:], case["ops"]):
        print(o, "->", real)
    v = oracle(case, rr.trace, rr.final)
    print("oracle:", v)
    return 1 if v else 0
