"""C05 — a failing task or dying worker-side process fails the run, never hangs it; nothing is left behind.

Tie between Model/Failure.lean and the real code:
  (i)   translator `health` (AST of Executor.healthcheck -> Gen/Health.lean), cross-checked dynamically
        against the real healthcheck called with one dead child at a time;
  (ii)  shell objects (object.__new__, fake process handles / listener / sender, no sockets):
        healthcheck for EVERY combination of exit codes, Executor.terminate, one recv_loop iteration,
        the worker's execute_sequence, Bridge.recv_events / shutdown, and impl.run driven by a simulated
        cluster at message level;
  (iii) real local clusters (zmq tcp + shm + fork, in a subprocess with its own session) with an injected
        fault; oracle from the property text: `run` ends before a deadline, never with a wrong value,
        afterwards no process of the run and no /dev/shm segment of the run remain;
  (iv)  random histories of the real shm Manager (sim_shm) ended by Manager.atexit, compared with the model's `atexit`;
        any segment left in /dev/shm is a violation;
  (v)   translator `shm_entry` (AST of shm/server.py -> Gen/ShmEntry.lean: the ways out of LocalServer.start() and whether
        entrypoint runs the exit handler on each), cross-checked by driving the REAL entrypoint in-process over a scripted socket
        (undecodable datagrams, recvfrom/sendto errors, signal handlers, ShutdownCommand); any segment left after the server
        process has ended is a violation, the end (segments left, exit code) is compared with the model's `shmDies`/`shmShutdown`.
"""
import ast
import json
import os
import sys
import time

PROPERTY = "C05"
LEVEL_TEXT = ("Lean theorems over Model/Failure.lean + Model/FailureN.lean instantiated with two tables generated from the source (healthcheck of executor.py; "
              "the ways out of the shm server's request loop in shm/server.py and whether entrypoint runs the exit handler on each). For the healthcheck DESCRIBED BY THE "
              "TABLE: any exited or never-started child makes the next healthcheck raise, whatever the exit code (a healthy executor never does, heartbeat due or not; only "
              "an exhausted retry budget makes it give up) -- that the SOURCE predicate is the table's class is decided by a structural reading of the tests (is None / "
              "comparisons with integer literals / in / not-and-or / inlined lambda, if-elif chains in order; exact on all integers), anything else is a broken tie, and the "
              "real healthcheck is called with every exit code None, -255..255 for every kind of child on every run; "
              "a task body that ends by exception, sys.exit(n), BaseException or signal is reported by the executor's next iteration; a live executor that sees a "
              "TaskFailure or a dead child reports a failure-class message in the same recv_loop iteration and tears itself down; a failure-class message makes "
              "Bridge.recv_events shut down and raise whatever else is in the batch; for ANY number of executors and any interleaving in which the failing executor "
              "runs, then the network delivers, then the controller receives, and NOTHING IN FLIGHT IS LOST (hypothesis NoLoss of c05_never_hangs_any_shape_partial), the run "
              "has returned or raised (never `starved`), with an error whenever the controller was still waiting; without the no-loss hypothesis the statement fails "
              "(c05_bounded_full_fails; known finding C06-exit-unretried, filed under C06 -- the real fault runs of C05 are loss-free and do not replay it); the one-executor "
              "versions (c05_bounded_lossless_partial, c05_never_hangs_lossless_partial) are partial because that model has no loss step at all; outputs are only "
              "ever written from payloads read; every executor that reads ExecutorShutdown tears down; after the run has ended (normally or not, whatever was lost OF THE "
              "EXECUTOR-TO-CONTROLLER traffic; a lost ExecutorShutdown is not modelled, teardown in the environment where SIGKILL works) every "
              "executor that runs once more is torn down and stays so; for arbitrary host ids as long as no registered id is `data.` + another registered id (the Bridge "
              "refuses that second registration) -- one id may be a suffix, prefix or substring of another, contain dots or itself start with `data.` (since fix "
              "Bridge.shutdown no longer skips such an executor): a report removes "
              "exactly the host it names from the sender table (c05_pop_exact), when the run has ended every registered host has been sent ExecutorShutdown unless its own "
              "ExecutorExit/ExecutorFailure was read before the first shutdown (c05_every_host_shut_down, _consumed, _N for N executors with losses), nobody else is messaged, "
              "and an unreported host gets it exactly once (run returned) or twice (run raised: recv_events' own shutdown + the finally). Teardown: terminate is a PROGRAM against an explicit environment (Os): assuming only that "
              "SIGKILL+join ends a process, it is idempotent, addresses every child and leaves none alive, whatever workers and shm server do with their shutdown requests "
              "(the hypothesis cannot be dropped). Segments: none left when the shm server was alive and reacts as the source tree's server, or had died by SIGTERM/SIGINT or "
              "because its request loop raised (generated table: the exit handler runs on every path out of server.start()), and Manager.atexit (Model/Shm.lean) unlinks "
              "every segment after any conforming history; fails when the shm server was SIGKILLed (by the fault, or by terminate after it did not answer).")
LEVEL_NOTE = ("modelled, not verified: Executor.healthcheck/terminate/recv_loop, entrypoint.execute_sequence, Bridge.recv_events/shutdown, "
              "impl.run (scheduler abstracted to tasks-remaining / outputs-missing), shm/server.py entrypoint + LocalServer (end of the process only). "
              "Definitional obligations (case tables that restate the model and are carried by the correspondence tie, not by proof): c05_worker_body, c05_no_wrong_value's "
              "first conjunct (outputs come from payloads; that the payload carries the right value is C01), conjuncts 2-3 of c05_segments_partial (they unfold shmDies). "
              "Carried by the tie only: which exception classes execute_sequence reports (the model has ONE outcome `exc`; the tie raises every class of a structured "
              "universe -- 37 builtin Exception classes incl. the OSError/TimeoutError family, 7 user classes, an exception whose repr raises, 4 BaseException classes, 12 kinds "
              "of constructor arguments -- through the real execute_sequence with the real message serialisation on every run, and one class per real `raise` fault run). "
              "Process table, /dev/shm, exit codes delivered by the OS, "
              "wall-clock bounds (the graces are constants of the code) and message delivery (C06; not available for the last message of a leaving executor) are not proved; "
              "they are sampled by real-cluster fault runs (at most 3 hosts or 3 workers per host, one fixed 4-task diamond job; fused sequences are exercised through the real execute_sequence in-process only, the worker's waiting_ts path not at all). "
              "Real runs that end without a verdict (set-up failed three times, fault never injected, start-up verdict dropped, background run unfinished) are listed in the "
              "evidence (c05_unjudged) and bounded: more than UNJUDGED_MAX of a kind is a broken tie; the two scenarios of the fixed hangs must have been exercised in every quick run")
TECHNIQUE = ("Lean 4 proof (stage invariants over arbitrary fair schedules of N executors; teardown as a program against an environment with explicit hypotheses; table side "
             "conditions by decide) + two AST translators (healthcheck, predicates read structurally; shm server exit paths) each cross-checked by driving the real code + differential correspondence on shell "
             "objects (real shm client over a fake socket, real shm server entrypoint over a scripted socket) + real-cluster fault injection with a process-table//dev/shm oracle")
LEAN_PROPS = ["EkwVerif.Props.C05", "EkwVerif.Props.C05N", "EkwVerif.Props.C05Shm", "EkwVerif.Props.C05Hosts"]
LEAN_DRIVERS = ["C05", "C08"]
RULE = ("healthcheck: every combination of handle states {never-started, alive, exit 0, 1, -9} for 1-2 workers x {alive,0,1,-9} for shm and data "
        "server (480 cases) + one dead child of each kind with EVERY exit code None, -255..255 (1536 cases, oracle only); random executor states/inboxes for recv_loop "
        "(exit codes of dead children: 0, 1, 3, -9, -15 or uniform in -64..255; heartbeat due / retry budget exhausted as environment inputs) and terminate (stuck workers; shm "
        "server mute or lingering on the shutdown command, through the real shm client over a fake socket); generator tasks with 1-3 outputs crashing at a random "
        "point: every class of the exception universe at least once per run (60% with non-default constructor arguments: none, int, tuple, bytes, non-ascii, lone surrogate, 20 kB, dict+set, "
        "nested exception, opaque object, errno pair), every BaseException class, sys.exit(int | None | str), RuntimeError / KeyboardInterrupt at every crash point, then random; "
        "random listener streams for Bridge.recv_events over 1-3 hosts; impl.run against a "
        "simulated cluster (1-3 hosts) with a failure message of every class injected at every reply position; in both, 60% of the multi-host cases take their host names "
        "from families related by suffix (node1/gpunode1, h1/xh1, 1/11), prefix (h1/h10), both (1/11/111), equal length, substring, case, ids starting with `data.` "
        "(data.n1, data.data.n2, `data.`, `data`) or containing dots - in random registration order - "
        "plus 22 directed cases per run in which one executor reports ExecutorFailure/ExecutorExit while the others live; the real shm server entrypoint over a scripted socket: random request "
        "histories ended by ShutdownCommand / undecodable datagram (unknown tag, empty, non-ascii key) / recvfrom error / sendto error / SIGTERM / SIGINT handler; "
        "real clusters (1x1, 1x2, 2x1, 2x2, 1x3, 3x1 hosts x workers): task raises (one class of the universe per run, half from the OSError/TimeoutError family) / sys.exit(n) / SIGKILL before, during, after publishing; SIGKILL of data server; SIGKILL/SIGTERM of shm server "
        "(own/other host), shm server killed between reading a request / the shutdown command and answering it, one undecodable datagram on the shm port; "
        "2 (quick) / 14 (thorough) fault runs on 2-3 host clusters whose host ids are related by suffix / prefix / equal length or start with `data.` (the second one of every run), the death (helper killed by name, or the "
        "worker of the first of the parallel tasks a/b that runs there) placed on a chosen host, mostly the shorter-named one; every executor of a real run records when it "
        "read ExecutorShutdown and when it reported its own exit/failure (oracle: told to stop unless it had reported by itself); the deadline of a real run counts from the "
        "injection of the fault (30 s; start-up and crash point 60 s each; whole run at most 120 s; all allowances x load average / cores, at most x3, when the machine is oversubscribed); processes are found by session AND by an environment marker (a child that calls setsid is seen), segments by the run token whatever their prefix; "
        "random histories of the real shm Manager (as for C08/C09) each ended by Manager.atexit with readers/writers/disk jobs still registered; "
        "non-trivial = a case with at least one dead child, failure message or injected fault; distinct by content hash")
ASSUMPTIONS = [
    "shell objects: multiprocessing handles, zmq listener/sender, UDP sockets of the shm client/server and the clock are replaced by in-process fakes",
    "fault runs: a hang / leftover verdict that does not show again on an immediate re-run of the same case is dropped ONLY when the job had not started in the failing run "
    "(every data server has passed the runner's start-up gate and the first task body was entered otherwise): the fork-with-threads deadlock at cluster start-up under "
    "heavy machine load is outside C05; after the job has started it is reported with both runs in the replay; dropped verdicts are counted and more than one (quick) / three (thorough) per run is a broken tie",
    "nothing in flight from an executor to the controller is lost: hypothesis NoLoss of c05_never_hangs_any_shape_partial (C06 gives it only while the sender lives); the one-executor "
    "model has no loss step; a lost ExecutorShutdown (controller to executor) is not modelled; the executor process itself does not die (outside the property)",
    "SIGKILL followed by join ends a child process (hypothesis KillWorks of c05_teardown); a worker that is not blocked reads WorkerShutdown",
    "exit codes of child processes lie in -255..255 (multiprocessing: -signal number .. exit status & 0xff)",
    "no registered host id equals `data.` + another registered host id (Bridge.__init__ treats the second as a double registration and never completes)",
]
TRUSTED_EXTRA = ["multiprocessing.Process exit-code semantics (SystemExit(n) -> n, other BaseException -> 1, signal s -> -s)",
                 "Linux: /dev/shm/<name> is the POSIX shared-memory object <name>; /proc/net/udp shows a socket's receive queue"]

CODES = [None, 0, 1, -9]


# ============================================================================= translator `health`

class TranslateError(Exception):
    pass


class _PErr:
    """value of a sub-expression whose evaluation raises (e.g. `None < 0`)"""
    def __init__(self, why):
        self.why = why


_CMP = {ast.Eq: lambda a, b: a == b, ast.NotEq: lambda a, b: a != b, ast.Lt: lambda a, b: a < b, ast.LtE: lambda a, b: a <= b,
        ast.Gt: lambda a, b: a > b, ast.GtE: lambda a, b: a >= b}
_FLIP = {ast.Lt: ast.Gt, ast.Gt: ast.Lt, ast.LtE: ast.GtE, ast.GtE: ast.LtE, ast.Eq: ast.Eq, ast.NotEq: ast.NotEq}
PRED_DOMAIN = [None] + list(range(-255, 256))      # every exit code multiprocessing can deliver (-signal .. 255), and `still running`


def _int_const(node):
    """an integer literal (possibly signed), else None"""
    if isinstance(node, ast.Constant) and type(node.value) is int:
        return node.value
    if isinstance(node, ast.UnaryOp) and isinstance(node.op, (ast.USub, ast.UAdd)) and isinstance(node.operand, ast.Constant) and type(node.operand.value) is int:
        return -node.operand.value if isinstance(node.op, ast.USub) else node.operand.value
    return None


def translate_pred(test, is_code, lambdas):
    """STRUCTURAL translation of a healthcheck test over ONE exit code. `is_code(node)`: is this sub-expression the exit code of the
    child under test; `lambdas`: name -> ast.Lambda (single-parameter helpers defined in healthcheck, inlined).
    Accepted shapes (everything else: TranslateError `translator cannot read the predicate`):
        X is None | X is not None | X <op> c | c <op> X (op in == != < <= > >=, c an int literal) | X in (c, ..) | X not in (c, ..)
        | X (truth value) | not P | P and Q | P or Q | True | False | f(X) with f a lambda of the above.
    Returns (eval, consts): eval(code) -> bool | _PErr, computed by THIS interpreter (the source text is never evaluated), and the
    integer literals mentioned. The predicate is constant on every interval of integers between two consecutive literals, so its
    class is decided exactly by its values on None and on {c-1, c, c+1 : c a literal or 0}."""
    consts = [0]

    def cannot(node, why=""):
        raise TranslateError("translator cannot read the predicate: " + ast.unparse(node)[:80] + (" (" + why + ")" if why else ""))

    def tr(node, sub):
        # sub: parameter name -> True when that name stands for the exit code
        def code(n):
            return (isinstance(n, ast.Name) and sub.get(n.id)) or is_code(n)
        if isinstance(node, ast.Constant) and isinstance(node.value, bool):
            v = node.value
            return lambda x: v
        if code(node):
            return lambda x: bool(x)        # truth value of an exit code: None and 0 are false
        if isinstance(node, ast.BoolOp):
            parts = [tr(v, sub) for v in node.values]
            is_and = isinstance(node.op, ast.And)

            def f(x):
                r = is_and
                for p_ in parts:
                    r = p_(x)
                    if isinstance(r, _PErr):
                        return r
                    if r != is_and:
                        return r
                return r
            return f
        if isinstance(node, ast.UnaryOp) and isinstance(node.op, ast.Not):
            g = tr(node.operand, sub)
            return lambda x: (lambda r: r if isinstance(r, _PErr) else (not r))(g(x))
        if isinstance(node, ast.Call) and isinstance(node.func, ast.Name) and node.func.id in lambdas and len(node.args) == 1 and not node.keywords:
            lam = lambdas[node.func.id]
            a = lam.args
            if len(a.args) != 1 or a.vararg or a.kwarg or a.kwonlyargs or a.defaults or a.posonlyargs:
                cannot(node, "helper is not a one-parameter lambda")
            if not code(node.args[0]):
                cannot(node, "helper applied to something that is not the exit code")
            return tr(lam.body, {a.args[0].arg: True})
        if isinstance(node, ast.Compare) and len(node.ops) == 1:
            op, l, r = node.ops[0], node.left, node.comparators[0]
            if isinstance(op, (ast.Is, ast.IsNot)):
                if code(l) and isinstance(r, ast.Constant) and r.value is None:
                    pos = isinstance(op, ast.Is)
                    return lambda x: (x is None) == pos
                cannot(node)
            if isinstance(op, (ast.In, ast.NotIn)):
                if code(l) and isinstance(r, (ast.Tuple, ast.List, ast.Set)) and all(_int_const(e) is not None or (isinstance(e, ast.Constant) and e.value is None) for e in r.elts):
                    vals = [_int_const(e) for e in r.elts]
                    consts.extend(v for v in vals if v is not None)
                    pos = isinstance(op, ast.In)
                    return lambda x: (any((x is v) if v is None else (x is not None and x == v) for v in vals)) == pos
                cannot(node)
            if type(op) in _CMP:
                if code(l) and _int_const(r) is not None:
                    c, o = _int_const(r), type(op)
                elif code(r) and _int_const(l) is not None:
                    c, o = _int_const(l), _FLIP[type(op)]
                elif code(l) and isinstance(r, ast.Constant) and r.value is None and isinstance(op, (ast.Eq, ast.NotEq)):
                    pos = isinstance(op, ast.Eq)
                    return lambda x: (x is None) == pos
                else:
                    cannot(node)
                consts.append(c)
                fn = _CMP[o]

                def f(x):
                    if x is None:
                        if o in (ast.Eq, ast.NotEq):
                            return o is ast.NotEq
                        return _PErr("ordering comparison of None")
                    return fn(x, c)
                return f
        cannot(node)
    return tr(test, {}), consts


def classify_pred(ev, consts, what):
    """exact class of a translated predicate: exited | nonzero | never, else TranslateError naming an exit code on which the
    predicate differs from every class of the model."""
    pts = sorted({min(255, max(-255, c + d)) for c in consts for d in (-1, 0, 1)} | {-255, 255})      # within the domain of exit codes
    vals = {}
    for x in [None] + pts:
        r = ev(x)
        if isinstance(r, _PErr):
            raise TranslateError(f"translator cannot read the predicate: {what}: evaluation raises on exit code {x!r} ({r.why})")
        vals[x] = bool(r)
    ints = [x for x in pts]
    if not vals[None] and all(vals[x] for x in ints):
        return "exited"
    if not vals[None] and all(vals[x] == (x != 0) for x in ints):
        return "nonzero"
    if not any(vals.values()):
        return "never"
    if vals[None]:
        raise TranslateError(f"healthcheck predicate {what} holds for a child that is still running (exit code None): not a class of the model")
    odd = [x for x in ints if not vals[x] and x != 0]
    raise TranslateError(f"healthcheck predicate {what} is none of the model's classes (exited / nonzero / never): e.g. it is false for exit code(s) {odd[:4]}")


def _has_raise(stmts):
    """Does the branch body raise (at its own statement level or inside nested if/with/try bodies, unconditionally enough)?
    A bare `ValueError(...)` expression statement is NOT a raise."""
    for s in stmts:
        if isinstance(s, ast.Raise):
            return True
        if isinstance(s, ast.With) and _has_raise(s.body):
            return True
        if isinstance(s, ast.If) and s.orelse and _has_raise(s.body) and _has_raise(s.orelse):
            return True
    return False


class _Fake:
    def __init__(self, code):
        self.exitcode = code
        self.pid = 1


def health_table(src: str):
    """AST of Executor.healthcheck -> {"rows": [[child, pred, raises]...], "none_raises": bool}."""
    mod = ast.parse(src)
    cls = next((n for n in mod.body if isinstance(n, ast.ClassDef) and n.name == "Executor"), None)
    if cls is None:
        raise TranslateError("class Executor not found")
    fn = next((n for n in cls.body if isinstance(n, ast.FunctionDef) and n.name == "healthcheck"), None)
    if fn is None:
        raise TranslateError("Executor.healthcheck not found")
    # helpers usable by the tests: one-parameter lambdas assigned in healthcheck (inlined structurally by translate_pred)
    lambdas = {}
    env = {}
    for n in fn.body:
        if isinstance(n, ast.Assign) and isinstance(n.value, ast.Lambda) and len(n.targets) == 1 and isinstance(n.targets[0], ast.Name):
            lambdas[n.targets[0].id] = n.value
        elif isinstance(n, ast.FunctionDef) and not n.decorator_list:
            # `def f(x): return <expr>` (optionally after a docstring) is read like the lambda
            body_ = [b_ for b_ in n.body if not (isinstance(b_, ast.Expr) and isinstance(b_.value, ast.Constant))]
            if len(body_) == 1 and isinstance(body_[0], ast.Return) and body_[0].value is not None:
                lambdas[n.name] = ast.Lambda(args=n.args, body=body_[0].value)

    def pred_of(test, code_expr):
        """code_expr: source text of the expression holding the exit code of the child under test (e.g. `e.exitcode`)"""
        ev, consts = translate_pred(test, lambda nd: isinstance(nd, ast.Attribute) and ast.unparse(nd) == code_expr, lambdas)
        return classify_pred(ev, consts, ast.unparse(test)[:80] + ("  with " + "; ".join(f"{k} = {ast.unparse(v)}" for k, v in lambdas.items()) if lambdas else ""))

    def flatten(ifn, out):
        out.append((ifn.test, ifn.body))
        if len(ifn.orelse) == 1 and isinstance(ifn.orelse[0], ast.If):
            flatten(ifn.orelse[0], out)
        elif ifn.orelse:
            raise TranslateError("else branch in healthcheck not recognised: " + ast.unparse(ifn.test)[:60])
        return out

    def check_body(body):
        for s_ in body:
            for x in ast.walk(s_):
                if isinstance(x, (ast.Return, ast.Break, ast.Continue)):
                    raise TranslateError("return/break/continue inside a healthcheck branch not recognised: " + ast.unparse(s_)[:60])

    def combined(chains, code_expr, handle_name=None):
        """chains: [[(test, body)...]...] executed one after the other; within a chain the first true test decides. Returns
        (pred class of `some branch raises` as a function of the exit code, does a None handle raise)."""
        consts_all = [0]
        progs = []
        none_raises_ = False
        for ch in chains:
            prog = []
            for test, body in ch:
                check_body(body)
                if handle_name is not None and code_expr not in ast.unparse(test):
                    # the `handle is None` branch, structurally
                    ok = (isinstance(test, ast.Compare) and len(test.ops) == 1 and isinstance(test.ops[0], (ast.Is, ast.Eq)) and isinstance(test.left, ast.Name)
                          and test.left.id == handle_name and isinstance(test.comparators[0], ast.Constant) and test.comparators[0].value is None) or \
                         (isinstance(test, ast.UnaryOp) and isinstance(test.op, ast.Not) and isinstance(test.operand, ast.Name) and test.operand.id == handle_name)
                    if not ok:
                        raise TranslateError("translator cannot read the predicate: worker branch test " + ast.unparse(test)[:80])
                    if not prog:
                        none_raises_ = none_raises_ or _has_raise(body)
                    prog.append((lambda x: False, _has_raise(body)))
                    continue
                ev, cs = translate_pred(test, lambda nd: isinstance(nd, ast.Attribute) and ast.unparse(nd) == code_expr, lambdas)
                consts_all.extend(cs)
                prog.append((ev, _has_raise(body)))
            progs.append(prog)

        def raises(x):
            for prog in progs:
                for ev, r in prog:
                    v = ev(x)
                    if isinstance(v, _PErr):
                        return v
                    if v:
                        if r:
                            return True
                        break
            return False
        what = " ; ".join(" elif ".join(ast.unparse(t)[:60] for t, _ in ch) for ch in chains) + \
            ("  with " + "; ".join(f"{k} = {ast.unparse(v)}" for k, v in lambdas.items()) if lambdas else "")
        return classify_pred(raises, consts_all, what), none_raises_

    rows = {}
    none_raises = None
    seen_worker_loop = False
    top = {"shm": [], "data": []}
    for n in fn.body:
        if isinstance(n, ast.For) and "self.workers" in ast.unparse(n.iter):
            if seen_worker_loop:
                raise TranslateError("two loops over self.workers in healthcheck not recognised")
            seen_worker_loop = True
            # loop variable holding the handle
            tgt = n.target
            names = [e.id for e in tgt.elts] if isinstance(tgt, ast.Tuple) else [tgt.id]
            if ".items()" in ast.unparse(n.iter):
                kname, hname = names[0], names[1]
            elif ".values()" in ast.unparse(n.iter):
                kname, hname = None, names[0]
            else:
                raise TranslateError("worker loop shape not recognised: " + ast.unparse(n.iter))
            if n.orelse:
                raise TranslateError("else branch of the worker loop not recognised")
            chains = []
            for s in n.body:
                if isinstance(s, ast.If):
                    chains.append(flatten(s, []))
                elif isinstance(s, ast.Pass) or (isinstance(s, ast.Expr) and isinstance(s.value, ast.Constant)):
                    continue
                else:
                    raise TranslateError("statement in the worker loop not recognised: " + ast.unparse(s)[:60])
            p, none_raises = combined(chains, hname + ".exitcode", hname)
            rows["worker"] = [p, p != "never"]
        elif isinstance(n, ast.If):
            txt = " ".join(ast.unparse(t) for t, _ in flatten(n, []))
            hit = [child for attr, child in (("self.shm_process", "shm"), ("self.data_server", "data")) if attr + ".exitcode" in txt]
            if len(hit) > 1:
                raise TranslateError("one if-chain of healthcheck tests two children: not recognised: " + txt[:80])
            if hit:
                top[hit[0]].append(flatten(n, []))
            elif ".exitcode" in txt or "self.workers" in txt:
                raise TranslateError("exit-code test of healthcheck not recognised: " + txt[:80])
        elif isinstance(n, (ast.Return, ast.Raise, ast.Try, ast.While, ast.With)):
            raise TranslateError("statement of healthcheck not recognised: " + ast.unparse(n)[:60])
    for attr, child in (("self.shm_process", "shm"), ("self.data_server", "data")):
        if top[child]:
            p, _ = combined(top[child], attr + ".exitcode")
            rows[child] = [p, p != "never"]
    if not seen_worker_loop:
        rows.setdefault("worker", ["never", False])
    out = []
    for child in ("worker", "shm", "data"):
        p, r = rows.get(child, ["never", False])
        out.append([child, p, bool(r)])
    return {"rows": out, "none_raises": bool(none_raises)}


_LEAN_CHILD = {"worker": ".worker", "shm": ".shm", "data": ".dataServer"}


def render_lean(tab):
    rows = ",\n".join(f"      ⟨{_LEAN_CHILD[c]}, .{p}, {'true' if r else 'false'}⟩" for c, p, r in tab["rows"])
    return f"""/- GENERATED by harness/ekw/props/c05.py (translator `health`) from
   src/cascade/executor/executor.py::Executor.healthcheck -- do not edit by hand. -/
import EkwVerif.Model.Failure
namespace EkwVerif.Gen
open EkwVerif.Failure

def healthTable : HealthTable :=
  {{ rows := [
{rows}],
    workerNoneRaises := {'true' if tab['none_raises'] else 'false'} }}

def health_all_raise : Bool := allRaise healthTable

end EkwVerif.Gen
"""

# ============================================================================= translator `shm_entry`

def _catches_exception(handler):
    """does this `except` clause catch an arbitrary `Exception`?"""
    t = handler.type
    if t is None:
        return True
    names = [ast.unparse(x) for x in (t.elts if isinstance(t, ast.Tuple) else [t])]
    return any(n in ("Exception", "BaseException") for n in names)


def _is_call_on(node, var, attr_path):
    """is `node` an expression statement calling  <var>.<attr_path>(...) ?"""
    return (isinstance(node, ast.Expr) and isinstance(node.value, ast.Call)
            and ast.unparse(node.value.func) == var + "." + attr_path)


def _abstract_entry(stmts, var, scenario):
    """Abstract execution of the statements of `entrypoint` where `<var>.start()` either returns or raises an Exception
    (`scenario` in returned|raised). Returns (status, atexit_ran) with status normal|raise|return."""
    st = {"atexit": False, "start": False}

    def mentions(node):
        return any(isinstance(n, ast.Name) and n.id == var for n in ast.walk(node))

    def block(body):
        for s in body:
            if any(isinstance(n, ast.Call) and ast.unparse(n.func) == var + ".start" for n in ast.walk(s)) and not isinstance(s, (ast.Try, ast.With, ast.If)):
                st["start"] = True
                if scenario == "raised":
                    return "raise"
                continue
            if _is_call_on(s, var, "atexit") or _is_call_on(s, var, "manager.atexit"):
                if st["start"]:
                    st["atexit"] = True
                continue
            if isinstance(s, ast.Try):
                r = block(s.body)
                if r == "raise":
                    h = next((h for h in s.handlers if _catches_exception(h)), None)
                    if h is not None:
                        r = block(h.body)
                elif r == "normal":
                    r = block(s.orelse)
                rf = block(s.finalbody)
                if rf != "normal":
                    r = rf
                if r != "normal":
                    return r
                continue
            if isinstance(s, ast.With):
                r = block(s.body)
                if r != "normal":
                    return r
                continue
            if isinstance(s, ast.Raise):
                return "raise"
            if isinstance(s, ast.Return):
                return "return"
            if isinstance(s, (ast.If, ast.For, ast.While, ast.Match)):
                if (st["start"] or any(isinstance(n, ast.Call) and ast.unparse(n.func) == var + ".start" for n in ast.walk(s))) and \
                        (mentions(s) or any(isinstance(n, (ast.Raise, ast.Return)) for n in ast.walk(s))):
                    raise TranslateError("entrypoint: conditional use of the server around/after start() not recognised: " + ast.unparse(s)[:80])
                continue
            # logging calls, assignments ...: assumed not to raise
        return "normal"
    r = block(stmts)
    if not st["start"]:
        raise TranslateError("entrypoint: no call of <server>.start() found")
    return r, st["atexit"]


def shm_entry_table(src: str):
    """AST of cascade/shm/server.py -> which ways out of LocalServer.start() there are and whether `entrypoint` runs the exit
    handler on each: {"rows": [[exit, goes_on, atexit]...], "shutdown_breaks", "sigterm_handler", "sigint_handler",
    "atexit_unlinks", "loop_can_raise"}."""
    mod = ast.parse(src)
    ep = next((n for n in mod.body if isinstance(n, ast.FunctionDef) and n.name == "entrypoint"), None)
    if ep is None:
        raise TranslateError("function entrypoint not found")
    cls = next((n for n in mod.body if isinstance(n, ast.ClassDef) and n.name == "LocalServer"), None)
    if cls is None:
        raise TranslateError("class LocalServer not found")
    meth = {n.name: n for n in cls.body if isinstance(n, ast.FunctionDef)}
    for m in ("__init__", "start", "atexit"):
        if m not in meth:
            raise TranslateError(f"LocalServer.{m} not found")
    # --- entrypoint: the variable holding the server
    var = None
    for n in ast.walk(ep):
        if isinstance(n, ast.Assign) and isinstance(n.value, ast.Call) and ast.unparse(n.value.func) == "LocalServer" and isinstance(n.targets[0], ast.Name):
            var = n.targets[0].id
    if var is None:
        raise TranslateError("entrypoint: no `<name> = LocalServer(...)`")
    rows = []
    for scenario in ("returned", "raised"):
        status, ran = _abstract_entry(ep.body, var, scenario)
        rows.append([scenario, status != "raise", bool(ran)])
    # --- LocalServer.atexit: `self.manager.atexit()` as an unconditional statement (top level, or body/finally of a try at top level)
    def uncond(stmts):
        for s in stmts:
            if _is_call_on(s, "self", "manager.atexit"):
                return True
            if isinstance(s, ast.Try) and (uncond(s.body[:1]) or uncond(s.finalbody)):
                return True
            if isinstance(s, (ast.Return, ast.Raise)):
                return False
        return False
    atexit_unlinks = uncond(meth["atexit"].body)
    # --- LocalServer.__init__: signal handlers
    handlers = {}
    for n in ast.walk(meth["__init__"]):
        if isinstance(n, ast.Call) and ast.unparse(n.func) in ("signal.signal", "signal") and len(n.args) == 2:
            handlers[ast.unparse(n.args[0]).split(".")[-1]] = ast.unparse(n.args[1])
    # --- LocalServer.start: one `while` loop; the ShutdownCommand branch leaves it
    loops = [n for n in meth["start"].body if isinstance(n, ast.While)]
    if len(loops) != 1:
        raise TranslateError("LocalServer.start: expected exactly one top-level while loop")
    loop = loops[0]

    def leaves(stmts):
        """a `break` of THIS loop / a `return`, reached unconditionally within the statement list"""
        for s in stmts:
            if isinstance(s, (ast.Break, ast.Return)):
                return True
            if isinstance(s, ast.Raise) or isinstance(s, ast.Continue):
                return False
        return False
    shutdown_breaks = False
    for n in ast.walk(loop):
        if isinstance(n, ast.If) and "ShutdownCommand" in ast.unparse(n.test) and "not" not in ast.unparse(n.test).split():
            shutdown_breaks = leaves(n.body)
    # statements of the loop body that sit outside any try catching Exception and contain a call: the `raised` exit exists
    loop_can_raise = any(not isinstance(s, ast.Try) and any(isinstance(c, ast.Call) for c in ast.walk(s)) for s in loop.body) or \
        any(isinstance(s, ast.Try) and not any(_catches_exception(h) for h in s.handlers) for s in loop.body)
    return {"rows": rows, "shutdown_breaks": bool(shutdown_breaks),
            "sigterm_handler": handlers.get("SIGTERM") == "self.atexit", "sigint_handler": handlers.get("SIGINT") == "self.atexit",
            "atexit_unlinks": bool(atexit_unlinks), "loop_can_raise": bool(loop_can_raise)}


def render_shm_entry(tab):
    b = lambda x: "true" if x else "false"
    rows = ",\n".join(f"      ⟨.{x}, {b(g)}, {b(a)}⟩" for x, g, a in tab["rows"])
    return f"""/- GENERATED by harness/ekw/props/c05.py (translator `shm_entry`) from
   src/cascade/shm/server.py::entrypoint, LocalServer.start/atexit/__init__ -- do not edit by hand. -/
import EkwVerif.Model.Failure
namespace EkwVerif.Gen
open EkwVerif.Failure

def shmEntry : ShmEntry :=
  {{ rows := [
{rows}],
    shutdownBreaks := {b(tab['shutdown_breaks'])},
    sigtermHandler := {b(tab['sigterm_handler'])},
    sigintHandler := {b(tab['sigint_handler'])},
    atexitUnlinks := {b(tab['atexit_unlinks'])} }}

def shm_entry_clean : Bool := entryClean shmEntry

end EkwVerif.Gen
"""


def _repo_src():
    from ekw import core
    return core.REPO / "src" / "cascade" / "executor" / "executor.py"


def _write_if_changed(path, text):
    if not path.exists() or path.read_text() != text:
        path.parent.mkdir(exist_ok=True)
        path.write_text(text)


def translate(ctx):
    from ekw import core
    err = None
    try:
        tab = health_table(_repo_src().read_text())
        _write_if_changed(core.LEAN_DIR / "EkwVerif" / "Gen" / "Health.lean", render_lean(tab))
        ctx.extra["health_table"] = tab
    except TranslateError as e:
        err = e
    # second table: the ways out of the shm server's request loop (independent of the first: both are always attempted)
    etab = shm_entry_table((core.REPO / "src" / "cascade" / "shm" / "server.py").read_text())
    _write_if_changed(core.LEAN_DIR / "EkwVerif" / "Gen" / "ShmEntry.lean", render_shm_entry(etab))
    ctx.extra["shm_entry_table"] = etab
    if err is not None:
        raise err


# ============================================================================= shells (real code, fake world)

class _Stop(BaseException):
    """scripted listener exhausted (not an Exception: must not be caught by the code under test)"""


class _Hang(BaseException):
    """the real code would block forever here"""


class FakeProc:
    def __init__(self, kind, name, exitcode, stuck, log):
        self.kind, self.name, self.exitcode, self.stuck, self.log = kind, name, exitcode, stuck, log
        self.pid = 4242

    def is_alive(self):
        return self.exitcode is None

    def join(self, timeout=None):
        if self.kind == "worker":
            self.log.append(["a", ["join", self.name]])
        elif self.kind == "shm":
            self.log.append(["a", ["shm-join"]])
            if self.exitcode is None:
                # a shm server exits only once it has answered the shutdown command (mode ok: FakeShmSocket sets the exit code)
                if timeout is None:
                    raise _Hang("shm_process.join() without timeout on a shm server that does not exit")
                return
        if self.exitcode is None:
            if self.stuck:
                if timeout is None:
                    raise _Hang("join() without timeout on a process that never exits")
                return
            self.exitcode = 0

    def kill(self):
        if self.kind == "worker":
            self.log.append(["a", ["kill", self.name]])
        elif self.kind == "data":
            self.log.append(["a", ["data-kill"]])
        else:
            self.log.append(["a", [self.kind + "-kill"]])
        if self.exitcode is None:
            self.exitcode = -9


class FakeWatcher:
    breach = 0

    def step(self):
        pass

    def is_breach(self):
        return self.breach

    def elapsed_ms(self):
        return 0


class FakeSender:
    def __init__(self, log, hosts=()):
        self.log = log
        self.hosts = {}
        for h in hosts:
            self.hosts[h] = (None, "tcp://x:1")
            self.hosts["data." + h] = (None, "tcp://x:2")
        self.on_send = None
        self.retry_raises = False

    def add_host(self, h, a):
        self.hosts[h] = (None, a)

    def send(self, host, m):
        self.log.append((host, m))
        if self.on_send:
            self.on_send(host, m)

    def ack(self, idx):
        pass

    def maybe_retry(self):
        if self.retry_raises:
            # what ReliableSender.maybe_retry does once a message has used up its retries
            raise ValueError("message retried too many times")


class ScriptListener:
    """recv_messages returns the scripted batches one by one, then `exhausted()` decides."""

    def __init__(self, batches, exhausted):
        self.batches = list(batches)
        self.consumed = []
        self.exhausted = exhausted
        self.address = "tcp://ctrl:1"

    def recv_messages(self, timeout_ms=None):
        if not self.batches:
            return self.exhausted()
        b = self.batches.pop(0)
        self.consumed.append(b)
        return list(b)


def _wid(s):
    from cascade.low.core import WorkerId
    return WorkerId.from_repr(s)


def _dsid(s):
    from cascade.low.core import DatasetId
    t, o = s.split("|")
    return DatasetId(t, o)


def _ds_str(d):
    return f"{d.task}|{d.output}"


def make_executor(st, log):
    """Executor shell in state `st` (model JSON encoding); everything it touches is logged to `log`."""
    import cascade.executor.executor as xm
    e = object.__new__(xm.Executor)
    e.host = st["host"]
    e.workers = {}
    for w, h in st["workers"]:
        e.workers[_wid(w)] = None if h == "ns" else FakeProc("worker", w, h["exit"], h.get("stuck", False), log)
    e.shm_process = FakeProc("shm", "shm", st["shm"], False, log)
    e.shm_process.mode = st.get("shm_mode", "ok")
    e.data_server = FakeProc("data", "data", st["data"], False, log)
    e.terminating = st["terminating"]
    e.heartbeat_watcher = FakeWatcher()
    e.datasets = set()
    e.daddress = "tcp://x:2"
    import cascade.executor.msg as _M
    e.registration = _M.ExecutorRegistration(host=st["host"], maddress="tcp://x:1", daddress="tcp://x:2", workers=[])
    ctrl_log = []
    e.sender = FakeSender(ctrl_log)
    e._ctrl_log = ctrl_log

    # the REAL cascade.shm.client.shutdown/_send_command over a fake UDP socket: a server in mode `ok` answers the
    # ShutdownCommand and exits, `lingers` answers and stays, `mute` never answers (recv blocks: for ever without a
    # socket timeout, else socket.timeout)
    import cascade.shm.api as shm_api
    import cascade.shm.client as real_client
    os.environ.setdefault(shm_api.client_port_envvar, "1")

    class _FakeShmSocket:
        def __init__(self, *a, **k):
            self.timeout, self.resp = None, None

        def settimeout(self, t):
            self.timeout = t

        def connect(self, addr):
            pass

        def send(self, b):
            comm = shm_api.deser(b)
            if isinstance(comm, shm_api.ShutdownCommand):
                log.append(["a", ["shm-shutdown"]])
            p = e.shm_process
            if p.exitcode is not None:
                raise ConnectionRefusedError(111, "Connection refused")
            if p.mode in ("ok", "lingers"):
                self.resp = shm_api.ser(shm_api.OkResponse())
                if p.mode == "ok" and isinstance(comm, shm_api.ShutdownCommand):
                    p.exitcode = 0

        def recv(self, n):
            if self.resp is not None:
                return self.resp
            if self.timeout is None:
                raise _Hang("shm client recv() without timeout on a shm server that never answers")
            raise TimeoutError("timed out")

        def close(self):
            pass

    class _FakeShmSocketMod:
        AF_INET, SOCK_DGRAM = 2, 2
        socket = _FakeShmSocket
        timeout = TimeoutError
    real_client.socket = _FakeShmSocketMod

    class _Shm:
        ConflictError = real_client.ConflictError
        shutdown = staticmethod(real_client.shutdown)

        @staticmethod
        def ensure():
            pass

    def cb(addr, m):
        from cascade.executor.msg import TaskSequence, WorkerShutdown
        w = addr.split("/")[-1].rsplit(".socket", 1)[0]
        if isinstance(m, TaskSequence):
            log.append(["w", w])
        elif isinstance(m, WorkerShutdown):
            log.append(["a", ["shutdown", w]])
    xm.callback = cb
    xm.shm_client = _Shm
    orig_send = e.sender.send

    def send(host, m):
        log.append(["c", _cmsg_of_real(m)])
    e.sender.send = send
    return e


def _cmsg_of_real(m, job=None):
    import cascade.executor.msg as M
    if isinstance(m, M.DatasetPublished):
        ds = _ds_str(m.ds)
        if job is not None:
            last = sorted(job.tasks[m.ds.task].definition.output_schema.keys())[-1]
            comp = m.transmit_idx is None and last == m.ds.output
        else:
            comp = ds.endswith("1")
        return ["pub", ds, bool(comp)]
    if isinstance(m, M.DatasetTransmitPayload):
        import cloudpickle
        try:
            v = cloudpickle.loads(bytes(m.value))
        except Exception:
            v = -1
        return ["pay", _ds_str(m.header.ds), v]
    if isinstance(m, M.Ack):
        return ["ack"]
    if isinstance(m, M.ExecutorRegistration):
        return ["reg", m.host]
    if isinstance(m, M.TaskFailure):
        return ["tf"]
    if isinstance(m, M.ExecutorFailure):
        return ["ef", m.host]
    if isinstance(m, M.DatasetTransmitFailure):
        return ["xf"]
    if isinstance(m, M.ExecutorExit):
        return ["exit", m.host]
    return ["unsup"]


def _real_emsg(j, host):
    """model EMsg encoding -> real message object arriving at the executor's listener"""
    import cascade.executor.msg as M
    k = j[0]
    if k == "ts":
        return M.TaskSequence(worker=_wid(j[1]), tasks=[], publish=set())
    if k == "ack":
        return M.Ack(idx=0)
    if k == "purge":
        return M.DatasetPurge(ds=_dsid("zz|o0"))
    if k == "shutdown":
        return M.ExecutorShutdown()
    if k == "tf":
        return M.TaskFailure(worker=_wid(j[1]), task="t", detail="x")
    if k == "pub":
        return M.DatasetPublished(origin=_wid(host + ".w0"), ds=_dsid(j[1]), transmit_idx=None)
    if k == "xf":
        return M.DatasetTransmitFailure(host=host, detail="x")
    return M.WorkerReady(worker=_wid(host + ".w0"))     # not handled by recv_loop: TypeError


def _real_cmsg(j, h0="h0"):
    """`h0`: the (registered) host that worker-level messages (pub / tf / xf) come from"""
    import cascade.executor.msg as M
    import cloudpickle
    from cascade.low.core import WorkerId
    k = j[0]
    if k == "pub":
        return M.DatasetPublished(origin=WorkerId(h0, "w0"), ds=_dsid(j[1]), transmit_idx=None)
    if k == "pay":
        return M.DatasetTransmitPayload(header=M.DatasetTransmitPayloadHeader(confirm_address="x", confirm_idx=0, ds=_dsid(j[1]), deser_fun="cloudpickle.loads"),
                                        value=cloudpickle.dumps(j[2]))
    if k == "ack":
        return M.Ack(idx=0)
    if k == "reg":
        return M.ExecutorRegistration(host=j[1], maddress="x", daddress="y", workers=[])
    if k == "tf":
        return M.TaskFailure(worker=WorkerId(h0, "w0"), task="t", detail="x")
    if k == "ef":
        return M.ExecutorFailure(host=j[1], detail="x")
    if k == "xf":
        return M.DatasetTransmitFailure(host=h0, detail="x")
    if k == "exit":
        return M.ExecutorExit(host=j[1])
    return M.ExecutorShutdown()


def _err(e):
    return type(e).__name__


# ---- (ii.a) healthcheck

def real_health(st):
    log = []
    try:
        e = make_executor(st, log)
        e.healthcheck()
        return {"raises": False}
    except _Hang:
        return {"raises": "hang"}
    except Exception:
        return {"raises": True}       # whatever the class: recv_loop catches `Exception`


def oracle_health(st, out):
    dead = any(h == "ns" or h["exit"] is not None for _, h in st["workers"]) or st["shm"] is not None or st["data"] is not None
    if dead and out["raises"] is not True:
        which = ("worker" if any(h == "ns" or h["exit"] is not None for _, h in st["workers"]) else "shm" if st["shm"] is not None else "data")
        codes = [("ns" if h == "ns" else h["exit"]) for _, h in st["workers"]] + [st["shm"], st["data"]]
        zero_only = all(c in (None, 0) for c in codes)
        return ({"kind": "undetected-dead-child", "child": which, "exit0_only": zero_only},
                f"healthcheck did not raise although a child is not running: workers={st['workers']} shm={st['shm']} data={st['data']}")
    if not dead and out["raises"] is not False:
        return ({"kind": "spurious-health-failure"}, f"healthcheck raised ({out}) with every child alive")
    return None


def health_cases():
    hs = ["ns"] + [{"exit": c, "stuck": False} for c in CODES]
    cases = []
    for nw in (1, 2):
        import itertools
        for ws in itertools.product(hs, repeat=nw):
            for shm in CODES:
                for data in CODES:
                    cases.append({"host": "h0", "workers": [[f"h0.w{i}", w] for i, w in enumerate(ws)], "shm": shm, "data": data, "terminating": False})
    return cases


# ---- (ii.b) terminate

def real_terminate(st):
    log = []
    try:
        e = make_executor(st, log)
        e.terminate()
        acts = [x[1] for x in log if x[0] == "a"]
        n = len(log)
        e.terminate()
        acts2 = [x[1] for x in log[n:] if x[0] == "a"]
        alive = [w for w, p in ((repr(k), v) for k, v in e.workers.items()) if p is not None and p.exitcode is None]
        return {"acts": acts, "acts2": acts2, "alive": alive + (["shm"] if e.shm_process.exitcode is None else []) + (["data"] if e.data_server.exitcode is None else []),
                "terminating": e.terminating}
    except _Hang as h:
        return {"hang": str(h), "acts": [x[1] for x in log if x[0] == "a"]}
    except Exception as ex:
        return {"crash": _err(ex)}


def oracle_terminate(st, out):
    if st["terminating"]:
        return None
    if "hang" in out:
        return ({"kind": "teardown-blocks"}, f"terminate blocks for ever ({out['hang']}) on {st}")
    if "crash" in out:
        return ({"kind": "teardown-crash"}, f"terminate raised {out['crash']} on {st}")
    if out["alive"]:
        return ({"kind": "child-left-alive"}, f"after terminate still alive: {out['alive']} from {st}")
    if out["acts2"]:
        return ({"kind": "teardown-not-idempotent"}, f"second terminate acted again: {out['acts2']}")
    return None


# ---- (ii.c) one recv_loop iteration

def real_tick(st, inbox, hb=False, retry=False):
    log = []
    try:
        e = make_executor(st, log)
        if hb:
            e.heartbeat_watcher.breach = 1      # grace elapsed without a message to the controller
        e.sender.retry_raises = bool(retry)     # a message to the controller has run out of retries
        msgs = [_real_emsg(j, st["host"]) for j in inbox]

        def exhausted():
            raise _Stop()
        e.mlistener = ScriptListener([msgs], exhausted)
        try:
            e.recv_loop()
        except _Stop:
            pass
        return {"out": log, "terminating": e.terminating}
    except _Hang as h:
        return {"hang": str(h), "out": log}
    except Exception as ex:
        return {"crash": _err(ex), "out": log}


def oracle_tick(st, inbox, out, retry=False):
    if st["terminating"]:
        return None
    dead = any(h == "ns" or h["exit"] is not None for _, h in st["workers"]) or st["shm"] is not None or st["data"] is not None
    tf = any(m[0] == "tf" for m in inbox)
    if "hang" in out:
        return ({"kind": "teardown-blocks"}, f"recv_loop iteration blocks for ever: {out['hang']}")
    if "crash" in out:
        return ({"kind": "executor-crash"}, f"recv_loop iteration let {out['crash']} escape (state {st}, inbox {inbox})")
    sent = [x[1][0] for x in out["out"] if x[0] == "c"]
    if (dead or tf) and not any(k in ("tf", "ef", "xf", "exit") for k in sent):
        return ({"kind": "failure-not-reported", "cause": "task-failure" if tf else "dead-child"},
                f"executor with {'a TaskFailure in its queue' if tf else 'a dead child'} sent no failure message to the controller: state {st}, inbox {inbox}, sent {sent}")
    if retry:
        return None      # the sender ran out of retries: the executor gives up (ExecutorFailure) -- not a spurious failure
    if not dead and not any(m[0] in ("tf", "xf", "shutdown", "other") for m in inbox) and all(m[0] != "ts" or _alive(st, m[1]) for m in inbox):
        if any(k in ("ef",) for k in sent):
            return ({"kind": "spurious-executor-failure"}, f"healthy executor reported ExecutorFailure: state {st}, inbox {inbox}")
    if not dead and not tf and any(m[0] == "shutdown" for m in inbox) and all(m[0] in ("shutdown", "ack", "purge", "pub") for m in inbox):
        if "ef" in sent:
            return ({"kind": "spurious-executor-failure"}, f"executor reported ExecutorFailure while serving a clean ExecutorShutdown: state {st}, inbox {inbox}")
    return None


def _alive(st, w):
    for k, h in st["workers"]:
        if k == w:
            return h != "ns" and h["exit"] is None
    return False


def gen_state(rng, healthy_bias=0.35):
    nw = rng.randint(1, 3)
    healthy = rng.random() < healthy_bias

    def handle():
        if healthy:
            return {"exit": None, "stuck": False}
        r = rng.random()
        if r < 0.08:
            return "ns"
        if r < 0.6:
            return {"exit": None, "stuck": rng.random() < 0.25}
        return {"exit": rng.choice([0, 1, -9, 3, -15, rng.randint(-64, 255)]), "stuck": False}
    return {"host": "h0", "workers": [[f"h0.w{i}", handle()] for i in range(nw)],
            "shm": None if healthy or rng.random() < 0.7 else rng.choice([0, 1, -9, rng.randint(-64, 255)]),
            "data": None if healthy or rng.random() < 0.7 else rng.choice([0, 1, -9, rng.randint(-64, 255)]),
            "terminating": (not healthy) and rng.random() < 0.08,
            "shm_mode": "ok" if healthy else rng.choice(["ok", "ok", "ok", "ok", "mute", "lingers"])}


def gen_inbox(rng, st):
    n = rng.choice([0, 0, 1, 1, 2, 3, 4])
    ws = [w for w, _ in st["workers"]] + ["h0.w9"]
    out = []
    for _ in range(n):
        r = rng.random()
        if r < 0.2:
            out.append(["ts", rng.choice(ws)])
        elif r < 0.3:
            out.append(["ack"])
        elif r < 0.38:
            out.append(["purge"])
        elif r < 0.48:
            out.append(["shutdown"])
        elif r < 0.66:
            out.append(["tf", rng.choice(ws[:-1])])
        elif r < 0.86:
            out.append(["pub", "t%d|o%d" % (rng.randint(0, 3), rng.randint(0, 1)), None])
        elif r < 0.93:
            out.append(["xf"])
        else:
            out.append(["other"])
    for m in out:
        if m[0] == "pub":
            m[2] = m[1].endswith("1")
    return out


# ---- (ii.d) worker body: execute_sequence

from ekw.c05_cluster import BASE_KINDS, EXC_ARGS, EXC_BUILTIN, EXC_HOSTILE, EXC_KINDS, EXC_USER, make_exception  # noqa: E402  (the universe of what a task body can raise)


def real_worker(case):
    """case: n_out, crash_at (0..n_out), outcome ["returns"|"exc",kind[,argkind]|"exit",n|"base"[,kind[,argkind]]], publish: list of output indices"""
    import cascade.executor.runner.entrypoint as ep
    import cascade.executor.runner.memory as mem
    from cascade.executor.msg import DatasetPublished, TaskFailure, TaskSequence
    from cascade.executor.serde import des_message, ser_message
    from cascade.low.core import DatasetId, JobInstance, TaskDefinition, TaskInstance
    n, at, outcome = case["n_out"], case["crash_at"], case["outcome"]

    def crash():
        k = outcome[0]
        if k == "exc":
            raise make_exception(outcome[1], outcome[2] if len(outcome) > 2 else "boom")
        if k == "exit":
            sys.exit(outcome[1])
        if k == "base":
            raise make_exception(outcome[1] if len(outcome) > 1 else "KeyboardInterrupt", outcome[2] if len(outcome) > 2 else "none")

    if n == 1:
        def body():
            if at == 0:
                crash()
            return 7
    else:
        def body():
            for i in range(n):
                if at == i:
                    crash()
                yield 10 * (i + 1)
            if at == n:
                crash()
    td = TaskDefinition(func=TaskDefinition.func_enc(body), environment=[], input_schema={}, output_schema={str(i): "int" for i in range(n)})
    # FUSED sequence: case["pre"] = output counts of tasks p0, p1, .. that run (and return normally) in the same TaskSequence BEFORE `t`
    pre = list(case.get("pre", []))
    tasks = {}
    for i_, k_ in enumerate(pre):
        def mk(k_=k_, i_=i_):
            if k_ == 1:
                return lambda: 100 + i_
            def g():
                for j_ in range(k_):
                    yield 100 * (i_ + 1) + j_
            return g
        tasks[f"p{i_}"] = TaskInstance(definition=TaskDefinition(func=TaskDefinition.func_enc(mk()), environment=[], input_schema={},
                                                                 output_schema={str(j_): "int" for j_ in range(k_)}), static_input_kw={}, static_input_ps={})
    tasks["t"] = TaskInstance(definition=td, static_input_kw={}, static_input_ps={})
    last_out = {f"p{i_}": k_ - 1 for i_, k_ in enumerate(pre)}
    last_out["t"] = n - 1
    job = JobInstance(tasks=tasks, edges=[])
    w = _wid("h0.w0")
    sent = []

    class Buf:
        def __init__(self, l):
            self.b = bytearray(l)

        def view(self):
            return memoryview(self.b)

        def close(self):
            pass

    class Shm:
        @staticmethod
        def allocate(key, l, deser_fun):
            return Buf(l)
    old = (ep.callback, mem.callback, mem.shm_client)
    # what the worker hands to `callback` goes through the REAL message serialisation (as on the ipc socket)
    ep.callback = lambda addr, m: sent.append(des_message(ser_message(m)))
    mem.callback = lambda addr, m: sent.append(des_message(ser_message(m)))
    mem.shm_client = Shm
    try:
        rc = ep.RunnerContext(workerId=w, job=job, callback="cb", param_source={k_: {} for k_ in tasks})
        ts = TaskSequence(worker=w, tasks=list(tasks), publish={DatasetId("t", str(i)) for i in case["publish"]} |
                          {DatasetId(f"p{i_}", str(j_)) for i_, k_ in enumerate(pre) for j_ in range(k_)})
        memory = mem.Memory("cb", w)
        prop = None
        try:
            ep.execute_sequence(ts, memory, ep.PackagesEnv(), rc)
        except SystemExit as e:
            c = e.code
            prop = 0 if c is None else (c if isinstance(c, int) else 1)
        except BaseException:
            prop = 1
        msgs = []
        for m in sent:
            if isinstance(m, DatasetPublished):
                msgs.append(["pub", _ds_str(m.ds), m.ds.output == str(last_out.get(m.ds.task))])
            elif isinstance(m, TaskFailure):
                msgs.append(["tf", repr(m.worker)])
            else:
                msgs.append(["other"])
        return {"msgs": msgs, "exit": prop}
    finally:
        ep.callback, mem.callback, mem.shm_client = old


def _exit_code_of(c):
    """multiprocessing: SystemExit(None) -> 0, SystemExit(int n) -> n, SystemExit(anything else) -> 1"""
    return 0 if c is None else (c if isinstance(c, int) else 1)


def worker_model_line(case):
    n, at = case["n_out"], case["crash_at"]
    o = case["outcome"]
    crashes = o[0] != "returns"
    upto = n if not crashes else (0 if n == 1 else at)
    pubs = [["pub", f"p{i_}|{j_}", j_ == k_ - 1] for i_, k_ in enumerate(case.get("pre", [])) for j_ in range(k_)] + \
        [["pub", f"t|{i}", i == n - 1] for i in range(upto) if i in case["publish"]]
    if o[0] == "exc" and o[1] in EXC_HOSTILE:
        oc = ["base"]         # the `except Exception` handler itself raises while formatting repr(e): nothing is reported, the process ends (exit code 1)
    else:
        oc = {"returns": ["returns"], "exc": ["exc"], "exit": ["exit", _exit_code_of(o[1]) if len(o) > 1 else 0], "base": ["base"]}[o[0]]
    return {"op": "worker", "w": "h0.w0", "pubs": pubs, "outcome": oc}


def oracle_worker(case, out):
    """Property text: a task that raises must not go unnoticed. An Exception of ANY class with ANY arguments is reported by exactly one
    TaskFailure and the worker lives on; where the worker cannot report (BaseException that is not an Exception; an exception whose
    repr raises) the worker PROCESS must end (the executor's healthcheck then sees the exit code) -- a worker that neither reports
    nor ends leaves the run waiting for ever."""
    o = case["outcome"]
    tf = [m for m in out["msgs"] if m[0] == "tf"]
    if o[0] == "exc" and o[1] not in EXC_HOSTILE and (len(tf) != 1 or out["exit"] is not None):
        return ({"kind": "task-failure-not-reported", "raised": "exception"},
                f"task raised {o[1]} (arguments: {o[2] if len(o) > 2 else 'boom'}) but the worker sent {out['msgs']} / process exit {out['exit']}")
    if (o[0] == "base" or (o[0] == "exc" and o[1] in EXC_HOSTILE)) and len(tf) != 1 and out["exit"] is None:
        return ({"kind": "task-failure-not-reported", "raised": "base-exception" if o[0] == "base" else "hostile-exception"},
                f"task raised {o[1:] or ['KeyboardInterrupt']}: the worker neither reported a TaskFailure nor ended (sent {out['msgs']}, process goes on)")
    if o[0] == "exit" and out["exit"] is None:
        return ({"kind": "task-failure-not-reported", "raised": "system-exit"}, f"task called sys.exit({o[1]!r}) and the worker process goes on without a report: {out['msgs']}")
    return None


def gen_worker_cases(rng, n):
    """every class of the universe at least once per run (random crash point, 60% with a non-default argument kind), every
    BaseException class, sys.exit with int / None / str codes, a normal return per arity; then random cases up to n"""
    def point():
        n_out = rng.choice([1, 2, 2, 3])
        return n_out, (0 if n_out == 1 else rng.randint(0, n_out))
    cases = []
    for k in EXC_KINDS + EXC_HOSTILE:
        n_out, at = point()
        cases.append({"n_out": n_out, "crash_at": at, "outcome": ["exc", k, "boom" if rng.random() < 0.4 else rng.choice(EXC_ARGS)], "publish": list(range(n_out))})
    for k in BASE_KINDS:
        n_out, at = point()
        cases.append({"n_out": n_out, "crash_at": at, "outcome": ["base", k, rng.choice(["none", "boom", "int"])], "publish": list(range(n_out))})
    for c in (0, 1, 3, 255, None, "bye"):
        n_out, at = point()
        cases.append({"n_out": n_out, "crash_at": at, "outcome": ["exit", c], "publish": list(range(n_out))})
    for n_out in (1, 2, 3):
        cases.append({"n_out": n_out, "crash_at": 0, "outcome": ["returns"], "publish": list(range(n_out))})
        # the first round's fixed grid, reduced: RuntimeError / KeyboardInterrupt at every crash point
        for at in range(0, (1 if n_out == 1 else n_out + 1)):
            cases.append({"n_out": n_out, "crash_at": at, "outcome": ["exc", "RuntimeError"], "publish": list(range(n_out))})
            cases.append({"n_out": n_out, "crash_at": at, "outcome": ["base"], "publish": list(range(n_out))})
    for c in cases:
        if rng.random() < 0.3:
            c["pre"] = [rng.randint(1, 2) for _ in range(rng.randint(1, 2))]      # fused sequence: 1-2 tasks run before the crashing one
    while len(cases) < n:
        n_out, at = point()
        r = rng.random()
        if r < 0.6:
            oc = ["exc", rng.choice(EXC_KINDS + EXC_HOSTILE), rng.choice(EXC_ARGS)]
        elif r < 0.72:
            oc = ["base", rng.choice(BASE_KINDS), rng.choice(["none", "boom", "tuple"])]
        elif r < 0.87:
            oc = ["exit", rng.choice([0, 1, 2, 3, 127, 255, None, "bye", rng.randint(0, 255)])]
        else:
            oc = ["returns"]
        cases.append({"n_out": n_out, "crash_at": at, "outcome": oc, "publish": [i for i in range(n_out) if rng.random() < 0.6],
                      **({"pre": [rng.randint(1, 2) for _ in range(rng.randint(1, 2))]} if rng.random() < 0.35 else {})})
    return cases


# ---- host-name families: executor host ids are free-form strings (`HostId = str`); the Bridge keys its sender table by
# them ("<host>" and "data.<host>"). Names related by suffix / prefix / substring / equal length must behave like unrelated ones.

HOST_FAMILIES = [
    ("suffix", ["node1", "gpunode1", "xgpunode1"]), ("suffix", ["h1", "xh1", "yxh1"]), ("suffix", ["1", "11", "211"]),
    ("suffix", ["a1", "ba1", "cba1"]), ("suffix-prefix", ["1", "11", "111"]), ("prefix", ["h1", "h10", "h101"]),
    ("prefix", ["n", "n0", "n00"]), ("equal-length", ["ab", "ba", "aa"]), ("substring", ["b", "abc", "xabcy"]),
    ("case", ["h1", "H1", "hh1"]), ("substring-of-data-key", ["a", "h1", "t"]),
    # host ids that themselves start with "data." (the Bridge keys the data server of host h as "data." + h) or contain dots;
    # never a pair h / "data." + h (the Bridge refuses the second registration: such a cluster never starts)
    ("data-prefix", ["data.n1", "n1x", "data.data.n2"]), ("data-prefix", ["data.", "data", "data.h"]), ("dotted", ["a.b", "a", "b.a"]),
]


# (registered hosts in registration order, the host that dies): suffix both orders, suffix+prefix, prefix, equal length, substring
DIRECTED_NAMES = [(["node1", "gpunode1"], "node1"), (["xh1", "h1"], "h1"), (["1", "11", "111"], "1"), (["1", "11", "111"], "11"),
                  (["h1", "h10"], "h1"), (["ab", "ba"], "ab"), (["abc", "b"], "b"), (["h0", "h1"], "h0"),
                  (["data.x", "h1"], "h1"), (["h1", "data.x"], "data.x"), (["data.x"], "data.x")]


def directed_recvs():
    """Bridge.recv_events reads the failure / exit of one executor; the live ones answer the shutdown (or one never does)"""
    out = []
    for names, dead in DIRECTED_NAMES:
        others = [h for h in names if h != dead]
        out.append((list(names), [[["pub", "t0|o0", False], ["ef", dead]]] + [[["exit", h]] for h in others]))
        out.append((list(names), [[["ack"]], [["exit", dead], ["pub", "t1|o1", True]]] + [[["exit", h]] for h in others[:-1]]))
    return out


def gen_host_names(rng, n, related=0.6):
    """n distinct host names; with probability `related` from a family in which one name is a proper suffix / prefix /
    substring of another (in random order: the shorter name is not always the first registered)"""
    if rng.random() >= related:
        return "plain", [f"h{i}" for i in range(n)]
    fam, names = rng.choice(HOST_FAMILIES)
    if n <= len(names):
        k = rng.randint(0, len(names) - n)
        pick = names[k:k + n] if rng.random() < 0.7 else rng.sample(names, n)
    else:
        pick = names + [f"h{i}" for i in range(n - len(names))]
    pick = list(pick)
    rng.shuffle(pick)
    return fam, pick


def related_names(hosts):
    """is some host name a proper suffix or prefix of another one"""
    return any(a != b and (b.endswith(a) or b.startswith(a)) for a in hosts for b in hosts)


# ---- (ii.e) Bridge.recv_events

class FakeTime:
    def __init__(self):
        self.t = 1_000_000_000

    def time_ns(self):
        self.t += 1000
        return self.t

    def time(self):
        return self.time_ns() / 1e9


def make_bridge(hosts, listener, log):
    import cascade.executor.bridge as bm
    from cascade.low.core import Environment
    b = object.__new__(bm.Bridge)
    b.mlistener = listener
    b.heartbeat_checker = {}
    b.transmit_idx_counter = 0
    b.sender = FakeSender(log, hosts)
    b.environment = Environment(workers={})
    ft = FakeTime()
    bm.time = ft
    b._ft = ft
    return b


_LAST_RECV = {}


def oracle_recv(hosts, batches, out):
    """Property text: after a failure the executor processes exit — the Bridge sends ExecutorShutdown to every executor that has
    not itself reported its exit/failure (whatever the hosts are called). Reads what the real listener handed out."""
    if out.get("res") != "raised":
        return None
    lst = _LAST_RECV.get("listener")
    consumed = lst.consumed if lst is not None else []
    reported = {m.host for bt in consumed for m in bt if _cmsg_of_real(m)[0] in ("ef", "exit")}
    for h in hosts:
        if h not in out.get("sent", []) and h not in reported:
            return ({"kind": "no-shutdown-at-end", "ended": "recv-raised"},
                    f"Bridge.recv_events shut down and raised, but host {h!r} (registered hosts {hosts}) was never sent ExecutorShutdown and had "
                    f"not reported its own exit or failure (reported: {sorted(reported)}); batches {batches}")
    for h in out.get("sent", []):
        if h not in hosts:
            return ({"kind": "shutdown-to-stranger"}, f"ExecutorShutdown sent to {h!r}, which is not a registered host ({hosts})")
    return None


def real_recv(hosts, batches):
    import cascade.executor.msg as M
    log = []
    holder = {}

    def exhausted():
        if holder.get("in_shutdown"):
            holder["b"]._ft.t += 10 ** 13     # the grace elapses (2.8 h of fake time per empty poll)
            holder["empty_polls"] = holder.get("empty_polls", 0) + 1
            if holder["empty_polls"] > 25:
                raise _Hang("Bridge.shutdown keeps waiting for hosts that never answer (70 h of fake time)")
            return []
        raise _Stop()
    lst = ScriptListener([[_real_cmsg(j, hosts[0]) for j in b] for b in batches], exhausted)
    b = make_bridge(hosts, lst, log)
    holder["b"] = b
    _LAST_RECV["listener"] = lst
    for h in list(hosts) + [x for x in ("h0", "h1", "h2") if x not in hosts]:      # registration order first (as Bridge.__init__ fills it)
        b.heartbeat_checker[h] = FakeWatcher()
    orig = b.shutdown

    def sd():
        holder["in_shutdown"] = True
        try:
            return orig()
        finally:
            holder["in_shutdown"] = False
    b.shutdown = sd
    consumed_failure = lambda: any(_cmsg_of_real(m)[0] in ("tf", "ef", "xf", "exit", "unsup") for bt in lst.consumed for m in bt)
    try:
        ev = b.recv_events()
        return {"res": "events", "events": [_cmsg_of_real(m) for m in ev], "hosts": [h for h in b.sender.hosts if h in hosts]}, consumed_failure()
    except _Stop:
        return {"res": "starved", "hosts": [h for h in b.sender.hosts if h in hosts]}, consumed_failure()
    except _Hang as hg:
        return {"res": "hang", "why": str(hg)}, consumed_failure()
    except ValueError:
        sent = [h for h, m in log if isinstance(m, M.ExecutorShutdown)]
        return {"res": "raised", "sent": sent, "left": [h for h in b.sender.hosts if h in hosts]}, True
    except Exception as ex:
        return {"res": "crash:" + _err(ex)}, consumed_failure()


def gen_batches(rng, hosts):
    nb = rng.randint(1, 4)
    out = []
    fail = rng.random() < 0.6
    for i in range(nb):
        b = []
        for _ in range(rng.choice([0, 1, 1, 2, 3])):
            r = rng.random()
            if r < 0.3:
                b.append(["ack"])
            elif r < 0.4:
                b.append(["reg", rng.choice(hosts)])
            elif r < 0.7:
                d = "t%d|o%d" % (rng.randint(0, 3), rng.randint(0, 1))
                b.append(["pub", d, d.endswith("1")])
            elif r < 0.8:
                b.append(["pay", "t%d|o1" % rng.randint(0, 3), rng.randint(0, 99)])
            elif fail:
                b.append(rng.choice([["tf"], ["ef", rng.choice(hosts)], ["xf"], ["exit", rng.choice(hosts)], ["unsup"]]))
        out.append(b)
    if fail and len(hosts) >= 2 and rng.random() < 0.5:
        # the FIRST failure the controller reads comes from one given host (the others are alive and must be told to stop)
        h = rng.choice(hosts)
        out.insert(rng.randint(0, len(out)), [rng.choice([["ef", h], ["exit", h]])])
    # replies to the shutdown
    for h in hosts:
        if rng.random() < 0.8:
            out.append([["exit", h]] if rng.random() < 0.8 else [["ack"], ["ef", h]])
    return out


# ---- (ii.f) impl.run against a simulated cluster

def _sim_job(ext):
    from ekw import c05_cluster as cl
    return cl.make_job({"fault": "none", "when": "before", "task": "src", "pidfile": "/nonexistent", "ext": ext})


def real_run_sim(case):
    """case: hosts (1|2), workers, ext, inject: None | {"at": k, "kind": [..], "pos": "before"|"after"}, split: list of ints (delivery granularity)"""
    import cloudpickle
    import cascade.executor.msg as M
    from cascade.controller.impl import run
    from cascade.low.core import Environment, Worker, WorkerId
    from cascade.scheduler.graph import precompute
    from ekw import c05_cluster as cl
    job = _sim_job(case["ext"])
    hosts = list(case["names"]) if case.get("names") else [f"h{i}" for i in range(case["hosts"])]
    log = []
    queue = []
    state = {"replies": 0, "in_shutdown": False, "exited": set()}
    inject = case.get("inject")
    split = list(case.get("split", []))

    def push(m):
        if inject and state["replies"] == inject["at"] and inject["pos"] == "before":
            queue.append(_real_cmsg(inject["kind"], hosts[0]))
        queue.append(m)
        if inject and state["replies"] == inject["at"] and inject["pos"] == "after":
            queue.append(_real_cmsg(inject["kind"], hosts[0]))
        state["replies"] += 1

    def on_send(host, m):
        if isinstance(m, M.TaskSequence):
            for t in m.tasks:
                for o in sorted(job.tasks[t].definition.output_schema.keys()):
                    ds = _dsid(f"{t}|{o}")
                    if ds in m.publish:
                        push(M.DatasetPublished(origin=m.worker, ds=ds, transmit_idx=None))
        elif isinstance(m, M.DatasetTransmitCommand):
            if m.target == "controller":
                push(M.DatasetTransmitPayload(header=M.DatasetTransmitPayloadHeader(confirm_address="x", confirm_idx=m.idx, ds=m.ds, deser_fun="cloudpickle.loads"),
                                              value=cloudpickle.dumps(cl.EXPECTED[_ds_str(m.ds)])))
            else:
                push(M.DatasetPublished(origin=m.target, ds=m.ds, transmit_idx=m.idx))
        elif isinstance(m, M.ExecutorShutdown):
            if host not in state["exited"]:
                state["exited"].add(host)
                queue.append(M.ExecutorExit(host=host))

    class L:
        address = "tcp://ctrl:1"
        batches = []

        def recv_messages(self, timeout_ms=None):
            if not queue:
                if state["in_shutdown"]:
                    b._ft.t += 10 ** 13
                    state["empty_polls"] = state.get("empty_polls", 0) + 1
                    if state["empty_polls"] > 25:
                        raise _Hang("Bridge.shutdown keeps waiting for hosts that never answer (70 h of fake time)")
                    return []
                raise _Stop()
            k = split.pop(0) if split else len(queue)
            k = max(1, min(k, len(queue)))
            bt = queue[:k]
            del queue[:k]
            self.batches.append(bt)
            return list(bt)
    lst = L()
    lst.batches = []
    b = make_bridge(hosts, lst, log)
    b.sender.on_send = on_send
    for h in hosts:
        b.heartbeat_checker[h] = FakeWatcher()
        for i in range(case["workers"]):
            b.environment.workers[WorkerId(h, f"w{i}")] = Worker(cpu=1, gpu=0, memory_mb=1024)
    calls = {"n": 0}
    orig = b.shutdown

    def sd():
        calls["n"] += 1
        state["in_shutdown"] = True
        try:
            return orig()
        finally:
            state["in_shutdown"] = False
    b.shutdown = sd
    res = {}
    try:
        st = run(job, b, precompute(job))
        res["status"] = "ok"
        res["outputs"] = sorted([_ds_str(k), v] for k, v in st.outputs.items() if v is not None)
    except _Stop:
        res["status"] = "starved"
    except _Hang as hg:
        res["status"] = "hang"
        res["error"] = str(hg)
    except Exception as ex:
        res["status"] = "error"
        res["error"] = _err(ex)
    res["calls"] = calls["n"]
    res["sent"] = [h for h, m in log if isinstance(m, M.ExecutorShutdown)]
    res["left"] = [h for h in b.sender.hosts if h in hosts]      # the executors' keys (a host id may itself start with "data.")
    batches = [[_cmsg_of_real(m, job) for m in bt] for bt in lst.batches]
    return res, batches, hosts


def oracle_run_sim(case, res, batches, hosts):
    from ekw import c05_cluster as cl
    fail_read = any(m[0] in ("tf", "ef", "xf", "exit", "unsup") for b in batches[: _batches_before_end(batches)] for m in b)
    inj = case.get("inject")
    if inj and res["status"] == "starved":
        # did the failure message reach the controller before it starved?
        if any(m[0] == inj["kind"][0] for b in batches for m in b):
            return ({"kind": "failure-ignored", "msg": inj["kind"][0]}, f"controller read {inj['kind']} and kept waiting for ever (simulated cluster, case {case})")
    if inj and res["status"] == "ok" and any(m[0] == inj["kind"][0] for b in batches for m in b if m[0] != "exit" or True):
        # ok is acceptable only if every requested output was delivered with the right value (checked below)
        pass
    if res["status"] == "ok":
        want = sorted([e, cl.EXPECTED[e]] for e in case["ext"])
        if res.get("outputs") != want:
            return ({"kind": "wrong-value"}, f"run ended ok with outputs {res.get('outputs')}, expected {want}")
    if res["status"] == "hang":
        return ({"kind": "shutdown-waits-forever"}, f"impl.run does not end: {res.get('error')} (simulated cluster, case {case})")
    if res["status"] == "starved" and not inj:
        return ({"kind": "hang", "fault": "none", "where": "sim"}, f"controller starved although every reply was delivered (case {case})")
    if res["status"] in ("ok", "error"):
        exited_by_msg = {m[1] for b in batches for m in b if m[0] in ("ef", "exit")}
        for h in hosts:
            if h not in res["sent"] and h not in exited_by_msg:
                return ({"kind": "no-shutdown-at-end", "ended": res["status"]}, f"run ended ({res['status']}) but host {h} was never sent ExecutorShutdown (case {case})")
    return None


def _batches_before_end(batches):
    return len(batches)


def gen_run_cases(rng, n):
    kinds = [["tf"], ["ef", "h0"], ["xf"], ["exit", "h0"], ["unsup"]]
    cases = []
    for hosts, workers in [(1, 1), (1, 2), (2, 1)]:
        for ext in (["src|0", "sink|o"], ["sink|o"], ["src|1", "a|o", "sink|o"]):
            cases.append({"hosts": hosts, "workers": workers, "ext": ext, "inject": None, "split": []})
    # one executor reports its failure / exit while the others live, host names related in every way (every run)
    for names, dead in DIRECTED_NAMES:
        for kind in ("ef", "exit"):
            cases.append({"hosts": len(names), "workers": 1, "ext": ["src|0", "sink|o"], "names": list(names),
                          "inject": {"at": 1 if kind == "ef" else 2, "kind": [kind, dead], "pos": "after" if kind == "ef" else "before"}, "split": []})
    while len(cases) < n:
        hosts, workers = rng.choice([(1, 1), (1, 2), (2, 1), (2, 2), (3, 1)])
        ext = rng.choice([["src|0", "sink|o"], ["sink|o"], ["src|1", "a|o", "sink|o"], ["b|o"]])
        fam, names = gen_host_names(rng, hosts, related=0.6 if hosts > 1 else 0.2)
        k = rng.choice(kinds)
        if hosts > 1 and rng.random() < 0.5:
            k = [rng.choice(["ef", "exit"]), ""]      # multi-host clusters: mostly one executor dies, the others live
        if k[0] in ("ef", "exit"):
            k = [k[0], names[rng.randrange(hosts)]]
        case = {"hosts": hosts, "workers": workers, "ext": ext,
                "inject": None if rng.random() < 0.2 else {"at": rng.randint(0, 8), "kind": k, "pos": rng.choice(["before", "after"])},
                "split": [rng.randint(1, 3) for _ in range(rng.randint(0, 6))]}
        if fam != "plain":
            case["names"] = names
        cases.append(case)
    return cases


# ---- (ii.g) the END of the shm server process: the real `cascade.shm.server.entrypoint` in-process, fake socket

GARBAGE = {"unknown-tag": "ff2067617262616765", "empty": "", "non-ascii-key": "0100000002fffe", "short-alloc": "03"}
SHM_ENDS = ["shutdown", "garbage", "recv-error", "respond-error", "sigterm", "sigint"]
_entry_counter = [0]


class _Dead(BaseException):
    """the process was killed by the default action of a signal"""


def _b36(n):
    d = "0123456789abcdefghijklmnopqrstuvwxyz"
    out = ""
    while True:
        out = d[n % 36] + out
        n //= 36
        if not n:
            return out


def real_shm_entry(case):
    """Runs the REAL entrypoint (hence LocalServer.__init__/start/atexit and a real dataset.Manager) in this process.
    The socket is scripted: requests of clients (which create their segment in /dev/shm once an allocation is granted,
    as cascade.shm.client does), then the END event:
      shutdown       the ShutdownCommand
      garbage        one datagram `api.deser` cannot decode (case["datagram"]: key of GARBAGE)
      recv-error     recvfrom raises OSError
      respond-error  sendto raises OSError on the answer to a StatusInquiry
      sigterm|sigint the registered handler runs while the server is blocked in recvfrom (then EBADF if it closed the socket)
    Observation: how entrypoint ended (returned|raised:<T>|alive|killed:<n>), exit code, which segments are still in /dev/shm."""
    import cascade.shm.api as api
    import cascade.shm.dataset as dsm
    import cascade.shm.server as server
    _entry_counter[0] += 1
    prefix = "e5%s%s_" % (_b36(os.getpid()), _b36(_entry_counter[0]))
    for n in os.listdir("/dev/shm"):
        if n.startswith(prefix):
            try:
                os.unlink("/dev/shm/" + n)
            except OSError:
                pass
    world = {"segs": {}, "sizes": {}, "handlers": {}, "left_start": False, "srv_atexit": [], "mgr_atexit": 0, "in_srv_atexit": False,
             "fail_respond": False, "responses": [], "servers": [], "rdids": {}, "pre_end": None}
    script = []
    for r in case["reqs"]:
        k = r[0]
        if k == "alloc":
            script.append(("dgram", api.ser(api.AllocateRequest(key=r[1], l=int(r[2]), deser_fun="d")), r))
            if r[3]:
                script.append(("dgram", api.ser(api.CloseCallback(key=r[1], rdid="")), r))
        elif k == "get":
            script.append(("dgram", api.ser(api.GetRequest(key=r[1])), r))
        elif k == "purge":
            script.append(("dgram", api.ser(api.PurgeRequest(key=r[1])), r))
        elif k == "status":
            script.append(("dgram", api.ser(api.StatusInquiry()), r))
        elif k == "free":
            script.append(("dgram", api.ser(api.FreeSpaceRequest()), r))
        elif k == "dsstatus":
            script.append(("dgram", api.ser(api.DatasetStatusRequest(key=r[1])), r))
        elif k == "unsupported":
            script.append(("dgram", api.ser(api.OkResponse(error="")), r))
    end = case["end"]
    script.append(("mark",))
    if end == "shutdown":
        script.append(("dgram", api.ser(api.ShutdownCommand()), None))
    elif end == "garbage":
        script.append(("dgram", bytes.fromhex(GARBAGE[case.get("datagram", "unknown-tag")]), None))
    elif end == "recv-error":
        script.append(("raise",))
    elif end == "respond-error":
        script.append(("failnext",))
        script.append(("dgram", api.ser(api.StatusInquiry()), None))
    elif end in ("sigterm", "sigint"):
        script.append(("signal", end.upper()))

    def seg_names():
        return sorted(k for k, n in world["segs"].items() if os.path.exists("/dev/shm/" + n))

    class Sock:
        closed = False

        def bind(self, addr):
            pass

        def settimeout(self, t):
            pass

        def setsockopt(self, *a):
            pass

        def recvfrom(self, n):
            while True:
                if self.closed:
                    raise OSError(9, "Bad file descriptor")
                if not script:
                    raise _Stop()
                it = script.pop(0)
                if it[0] == "mark":
                    world["pre_end"] = seg_names()
                    continue
                if it[0] == "failnext":
                    world["fail_respond"] = True
                    continue
                if it[0] == "dgram":
                    world["cur"] = it[2]
                    return it[1], ("127.0.0.1", 40000)
                if it[0] == "raise":
                    raise OSError(111, "Connection refused")
                if it[0] == "signal":
                    h = world["handlers"].get(it[1])
                    if h is None or not callable(h):
                        raise _Dead(15 if it[1] == "SIGTERM" else 2)
                    h(15 if it[1] == "SIGTERM" else 2, None)
                    continue        # a closed socket raises EBADF above; an open one keeps blocking (script is empty)

        def sendto(self, b, addr):
            if world["fail_respond"]:
                world["fail_respond"] = False
                raise OSError(90, "Message too long")
            try:
                resp = api.deser(b)
            except Exception:
                return
            cur = world.get("cur")
            if isinstance(resp, api.AllocateResponse) and not resp.error and cur and cur[0] == "alloc":
                # the client creates the segment it was granted
                fd = os.open("/dev/shm/" + resp.shmid, os.O_CREAT | os.O_EXCL | os.O_RDWR, 0o600)
                os.ftruncate(fd, max(1, int(cur[2])))
                os.close(fd)
                world["segs"][cur[1]] = resp.shmid
            return len(b)

        def close(self):
            self.closed = True

    class FakeSocketMod:
        AF_INET, SOCK_DGRAM, SOL_SOCKET, SO_REUSEADDR = 2, 2, 1, 2
        error = OSError
        timeout = TimeoutError

        @staticmethod
        def socket(*a, **k):
            return Sock()

    class FakeSignalMod:
        SIGINT, SIGTERM = "SIGINT", "SIGTERM"

        @staticmethod
        def signal(signum, handler):
            world["handlers"][signum if isinstance(signum, str) else {2: "SIGINT", 15: "SIGTERM"}.get(int(signum), str(signum))] = handler

    orig_server = server.LocalServer

    class Rec(orig_server):
        def __init__(self, *a, **k):
            world["servers"].append(self)
            super().__init__(*a, **k)

        def start(self):
            try:
                return super().start()
            finally:
                world["left_start"] = True

        def atexit(self, *a, **k):
            before = world["mgr_atexit"]
            try:
                return super().atexit(*a, **k)
            finally:
                world["srv_atexit"].append({"after_start": world["left_start"], "manager": world["mgr_atexit"] > before})
    orig_matexit = dsm.Manager.atexit

    def matexit(self_):
        world["mgr_atexit"] += 1
        if world["left_start"]:
            world["mgr_after_start"] = True
        return orig_matexit(self_)
    saved = (server.socket, server.signal)
    server.socket, server.signal, server.LocalServer = FakeSocketMod, FakeSignalMod, Rec
    dsm.Manager.atexit = matexit
    import multiprocessing.resource_tracker as rt
    saved_rt = (rt.register, rt.unregister)
    rt.register = lambda *a, **k: None
    rt.unregister = lambda *a, **k: None
    out = {}
    try:
        try:
            server.entrypoint(0, None, None, prefix)
            out["ended"], out["code"] = "returned", 0
        except _Stop:
            out["ended"], out["code"] = "alive", None
        except _Dead as d:
            out["ended"], out["code"] = "killed", -int(d.args[0])
        except Exception as ex:
            out["ended"], out["code"] = "raised:" + _err(ex), 1
        if world["pre_end"] is None:
            world["pre_end"] = seg_names()
        out["pre"] = world["pre_end"]
        out["left"] = seg_names()
        out["atexit_after_start"] = any(a["after_start"] for a in world["srv_atexit"]) or bool(world.get("mgr_after_start"))
        out["srv_atexit_unlinks"] = (all(a["manager"] for a in world["srv_atexit"]) if world["srv_atexit"] else None)
        out["handlers"] = sorted(k for k, h in world["handlers"].items() if getattr(h, "__func__", None) is Rec.atexit)
        out["left_start"] = world["left_start"]
    finally:
        server.socket, server.signal = saved
        server.LocalServer = orig_server
        dsm.Manager.atexit = orig_matexit
        # whatever the code under test did: the check itself leaves nothing behind
        for srv in world["servers"]:
            try:
                orig_matexit(srv.manager)
            except Exception:
                pass
        for n in list(world["segs"].values()):
            try:
                os.unlink("/dev/shm/" + n)
            except OSError:
                pass
        rt.register, rt.unregister = saved_rt
    return out


_END_CLASS = {"shutdown": "shutdown", "garbage": "loop-exception", "recv-error": "loop-exception", "respond-error": "loop-exception",
              "sigterm": "sigterm", "sigint": "sigint"}


def oracle_shm_entry(case, out):
    """From the property text: once the shm server process has ended (any way but SIGKILL) none of its segments is left;
    asked to shut down, it ends."""
    if "crash" in out:
        return None
    how = _END_CLASS[case["end"]]
    if out["ended"] == "alive":
        if case["end"] == "shutdown":
            return ({"kind": "shm-server-ignores-shutdown"}, f"the shm server keeps serving after the ShutdownCommand (Executor.terminate joins it without a timeout); history {case}")
        return None
    if out["left"]:
        return ({"kind": "segments-left-after-shm-exit", "end": how},
                f"the shm server process ended ({case['end']}{'/' + case['datagram'] if case['end'] == 'garbage' else ''} -> entrypoint {out['ended']}, exit code {out['code']}) "
                f"and left {len(out['left'])} of its {len(out['pre'])} segments in /dev/shm: keys {out['left']}; request history {case['reqs']}")
    return None


def gen_shm_entry_cases(rng, n):
    # fixed: the three states a dataset can be in (published, half written, being read) before every kind of end
    base = [["alloc", "pub0", 64, True], ["alloc", "pub1", 8, True], ["get", "pub1"], ["alloc", "half", 16, False]]
    cases = [{"reqs": base, "end": e, "datagram": "unknown-tag"} for e in SHM_ENDS]
    cases += [{"reqs": base[:2], "end": "garbage", "datagram": g} for g in GARBAGE]
    cases.append({"reqs": [], "end": "garbage", "datagram": "unknown-tag"})
    while len(cases) < n:
        keys = ["k%d" % i for i in range(rng.randint(1, 4))]
        reqs, have = [], set()
        for _ in range(rng.randint(0, 8)):
            r = rng.random()
            k = rng.choice(keys)
            if r < 0.45:
                reqs.append(["alloc", k, rng.choice([1, 8, 64, 4096]), rng.random() < 0.7])
                have.add(k)
            elif r < 0.6:
                reqs.append(["get", k])
            elif r < 0.72:
                reqs.append(["purge", k])
            elif r < 0.8:
                reqs.append(["dsstatus", k])
            elif r < 0.88:
                reqs.append(["status"])
            elif r < 0.94:
                reqs.append(["free"])
            else:
                reqs.append(["unsupported"])
        cases.append({"reqs": reqs, "end": rng.choice(SHM_ENDS + ["garbage", "garbage", "respond-error"]), "datagram": rng.choice(sorted(GARBAGE))})
    return cases


def _run_shm_entry(case):
    try:
        return real_shm_entry(case)
    except Exception as ex:
        return {"crash": _err(ex) + ": " + str(ex)[:200]}


def _shrink_shm_entry(case, o):
    """drop requests while the same kind of failure remains"""
    cur, cur_o = case, o
    i = 0
    while i < len(cur["reqs"]):
        cand = dict(cur, reqs=cur["reqs"][:i] + cur["reqs"][i + 1:])
        out = _run_shm_entry(cand)
        o2 = None if "crash" in out else oracle_shm_entry(cand, out)
        if o2 and o2[0] == o[0]:
            cur, cur_o = cand, o2
        else:
            i += 1
    return cur, cur_o


def _dynamic_entry():
    """What the real entrypoint/LocalServer do (translator cross-check): the same facts as shm_entry_table, observed."""
    one = [["alloc", "a", 8, True]]
    sh = _run_shm_entry({"reqs": one, "end": "shutdown"})
    ex = _run_shm_entry({"reqs": one, "end": "recv-error"})
    ga = _run_shm_entry({"reqs": one, "end": "garbage", "datagram": "unknown-tag"})
    st = _run_shm_entry({"reqs": one, "end": "sigterm"})
    if any("crash" in o for o in (sh, ex, ga, st)):
        return {"crash": [o.get("crash") for o in (sh, ex, ga, st)]}
    unl = [o["srv_atexit_unlinks"] for o in (sh, ex, ga, st) if o["srv_atexit_unlinks"] is not None]
    return {"rows": [["returned", sh["ended"] in ("returned", "alive"), bool(sh["atexit_after_start"])],
                     ["raised", ex["ended"] == "returned", bool(ex["atexit_after_start"])]],
            "shutdown_breaks": sh["ended"] != "alive" and sh["left_start"],
            "sigterm_handler": "SIGTERM" in st["handlers"], "sigint_handler": "SIGINT" in st["handlers"],
            "atexit_unlinks": bool(unl) and all(unl),
            "loop_can_raise": ga["ended"] != "alive"}


# ============================================================================= (iii) real clusters

def cluster_matrix():
    out = []
    for hosts, workers in [(1, 1), (1, 2), (2, 1), (2, 2), (1, 3), (3, 1)]:
        for fault in ("raise", "exit", "kill9"):
            for task, when in [("src", "before"), ("src", "during"), ("src", "after"), ("a", "before"), ("sink", "before")]:
                out.append(dict(fault=fault, when=when, task=task, hosts=hosts, workers=workers, code=3))
        out.append(dict(fault="exit", when="during", task="src", hosts=hosts, workers=workers, code=0))
        out.append(dict(fault="exit", when="before", task="a", hosts=hosts, workers=workers, code=0))
        for fault in ("kill-data", "kill-shm", "term-shm"):
            for task, when in [("src", "before"), ("src", "during"), ("src", "after"), ("sink", "before")]:
                for victim in (["own", "other"] if hosts >= 2 else ["own"]):
                    out.append(dict(fault=fault, when=when, task=task, hosts=hosts, workers=workers, victim=victim))
        out.append(dict(fault="kill-shm-midreq", when="before", task="src", hosts=hosts, workers=workers, victim="own"))
        if workers == 1:
            # the shm server dies between reading the executor's ShutdownCommand and answering it (single worker: the only
            # datagram that can queue up in the frozen server's socket is that command)
            out.append(dict(fault="kill-shm-midshutdown", when="before", task="src", hosts=hosts, workers=1, victim="own"))
        # the shm server's request loop raises on ONE undecodable datagram: it ends through entrypoint's exception path
        for i, (task, when) in enumerate([("src", "before"), ("src", "during"), ("src", "after"), ("sink", "before")]):
            for victim in (["own", "other"] if hosts >= 2 else ["own"]):
                out.append(dict(fault="garbage-shm", when=when, task=task, hosts=hosts, workers=workers, victim=victim,
                                datagram=CLUSTER_DATAGRAMS[(i + hosts + workers) % len(CLUSTER_DATAGRAMS)]))
    return out


GROUPS = {"raise": ["raise"], "worker-dies": ["exit", "kill9"], "helper-dies": ["kill-data", "kill-shm", "term-shm", "kill-shm-midreq", "kill-shm-midshutdown", "garbage-shm"]}
SHM_WITNESS = dict(fault="kill-shm", when="during", task="src", hosts=1, workers=2, victim="own")
CLUSTER_DATAGRAMS = ["unknown-tag", "empty", "non-ascii-key"]


def garbage_case(rng):
    """The fault run every quick run contains: the shm server of a host that HOLDS published datasets (the first output of
    `src` is out, or both are) receives one undecodable datagram from a task of that host."""
    when = rng.choice(["during", "after"])
    hosts, workers = rng.choice([(1, 1), (1, 2), (1, 2), (2, 1)])
    return dict(fault="garbage-shm", when=when, task="src", hosts=hosts, workers=workers, victim="own", datagram=rng.choice(CLUSTER_DATAGRAMS))



OWN_REPORT_SLACK_S = 5.0
SIGKILL_SHM_FAULTS = ("kill-shm", "kill-shm-midreq", "kill-shm-midshutdown")


def fault_class(case):
    """the class of the FAULT (the class of a leftover segment additionally depends on whose segment it is: judge_cluster)"""
    return "shm-sigkill" if case["fault"] in SIGKILL_SHM_FAULTS else "other"      # garbage-shm / term-shm: "other" (the server CAN clean up)


def lost_output_certain(case):
    """Faults that CERTAINLY prevent a requested output (default request: src|0 and sink|o; sink needs every task): the task
    body ends before having produced all its outputs, or its own host's shm server is gone before it can publish them."""
    if case.get("ext", ["src|0", "sink|o"]) != ["src|0", "sink|o"]:
        return False
    pt = (case["task"], case["when"])
    early = pt in (("src", "before"), ("src", "during"), ("a", "before"), ("b", "before"), ("sink", "before"))
    if case["fault"] in ("raise", "exit", "kill9"):
        return early
    if case["fault"] in ("kill-shm", "term-shm", "garbage-shm", "kill-shm-midreq", "kill-shm-midshutdown"):
        return early and case.get("victim", "own") == "own"
    return False


def judge_cluster(case, obs):
    """Oracle from the property text. Returns list of (signature, what)."""
    from ekw import c05_cluster as cl
    sig0 = {"fault": case["fault"], "when": case["when"], "task": case["task"], "fault_class": fault_class(case)}
    v = []
    if obs["ended"] == "hang":
        v.append((dict(sig0, kind="hang"), f"run did not end within the deadline ({obs.get('alive_at_deadline')} processes still alive; job started: {obs.get('job_started')}, "
                                           f"fault injected: {obs.get('fault_fired')}); case {case}"))
        return v
    if obs["ended"] == "infra":
        return v
    if obs["ended"] == "ok":
        want = {e: cl.EXPECTED[e] for e in case.get("ext", ["src|0", "sink|o"])}
        if obs["outputs"] != want:
            v.append((dict(sig0, kind="wrong-value"), f"run ended without error but outputs {obs['outputs']} != {want}; case {case}"))
        elif obs.get("fault_fired") and lost_output_certain(case):
            # clause "with an error whenever the failure prevents a requested output from being produced or delivered"
            v.append((dict(sig0, kind="ok-despite-lost-output"),
                      f"the fault was injected ({case['fault']} at {case['task']}/{case['when']}: the task cannot have produced all its outputs) and the run "
                      f"still ended WITHOUT an error, outputs {obs['outputs']}; case {case}"))
    # every executor is told to stop unless it had itself reported its exit / failure while the run was still on: an executor
    # that is never sent ExecutorShutdown lives on with its workers, shm server and data server (until, at best, its own
    # heartbeat retries run out long after the run is over)
    for h, e in sorted((obs.get("exec_events") or {}).items()):
        told = e.get("shutdown") is not None
        # (an executor that has just seen one of its own children die may report and leave without reading the shutdown already
        # queued for it; giving up on the vanished controller takes max_retries x resend grace = more than 15 s)
        own = e.get("reported") is not None and e["reported"] <= OWN_REPORT_SLACK_S
        if not told and not own:
            late = f"; it gave up by itself {e['reported']} s after the run had ended ({e.get('what', '')[:80]})" if e.get("reported") is not None else "; it never reported anything itself"
            v.append((dict(sig0, kind="no-shutdown-at-end", ended=obs["ended"], where="cluster"),
                      f"the run ended ({obs['ended']}) but the executor of host {h!r} (hosts of the run: {obs.get('hosts')}, fault on {obs.get('victim_host')!r}) "
                      f"was never sent ExecutorShutdown{late}; case {case}"))
    if obs["leftover_procs"]:
        v.append((dict(sig0, kind="leftover-procs"), f"{len(obs['leftover_procs'])} process(es) of the run still alive after it ended ({obs['ended']}): {[c[:50] for c in obs['leftover_procs'][:3]]}; case {case}"))
    if obs["leftover_shm"]:
        # whose segments? only those of the host whose shm server was SIGKILLed belong to the class a SIGKILL explains
        vh = obs.get("victim_host") or ""
        hs = obs.get("hosts") or ([vh] if vh else [])
        # exact attribution (one host name may be a prefix of another one's)
        mine = [n for n in obs["leftover_shm"] if vh and (cl.segment_host(n, hs) == vh if hs else n.startswith("sCasc" + vh))]
        others = [n for n in obs["leftover_shm"] if n not in mine]
        if mine:
            v.append((dict(sig0, kind="leftover-shm", host="victim"),
                      f"/dev/shm segments of the host whose helper was hit ({vh}) left behind after the run ended ({obs['ended']}): {mine}; case {case}"))
        if others:
            v.append((dict(sig0, kind="leftover-shm", host="survivor" if vh else "any", fault_class="other"),
                      f"/dev/shm segments left behind after the run ended ({obs['ended']}) by a host whose shm server was NOT the one hit"
                      f"{' (' + vh + ' was)' if vh else ''}: {others}; case {case}"))
    return v


def _obs_summary(obs):
    return {k: obs.get(k) for k in ("ended", "error", "outputs", "leftover_procs", "leftover_shm", "job_started", "fault_fired", "victim_host", "t_run", "wall", "load_scale", "alive_at_deadline",
                                    "hosts", "exec_events")}


def run_cluster_case(ctx, case, deadline=30.0, confirm=True, first_obs=None):
    """One real fault run (+ one more run of the same case if it is not clean). Returns (obs, violations); a violation is
    (signature, what, runs) where `runs` holds both observations when the second run did not show the same verdict.

    Which verdicts are reported:
      * wrong value / ok-despite-lost-output: always (one witness is enough);
      * hang / leftover that shows again on the immediate re-run: reported;
      * hang / leftover that does NOT show again: reported with "reproduced": false and both runs in the replay WHEN THE JOB HAD
        STARTED in the failing run (every helper process had passed the start-up gate of the runner, the first task body had been
        entered); dropped (counted as cluster:flaky-startup-*) only when the job had not started -- the documented
        fork-with-threads deadlock at cluster start-up under heavy machine load, which is outside C05."""
    from ekw import c05_cluster as cl
    from ekw.core import load_known, match_known
    obs = first_obs
    if obs is None or obs["ended"] == "infra":
        for attempt in range(3):
            obs = cl.run_case(case, deadline_s=deadline, settle_s=25.0)
            if obs["ended"] != "infra":
                break
            ctx.count("cluster:infra-retry")
    ctx.count("cluster:runs")
    ctx.count("cluster:fault=" + case["fault"])
    if case.get("exc"):
        ctx.count("cluster:raises=" + case["exc"] + "/" + case.get("exc_args", "boom"))
    ctx.count("cluster:when=" + case["when"])
    ctx.count(f"cluster:shape={case['hosts']}x{case['workers']}")
    ctx.count("cluster:ended=" + obs["ended"])
    mask = ctx.extra.setdefault("c05_unjudged", {"infra-no-verdict": [], "fault-not-reached": [], "startup-verdict-dropped": [], "background-not-finished": []})
    if case["fault"] != "none" and obs["ended"] != "infra":
        ctx.count("cluster:fault-injected" if obs.get("fault_fired") else "cluster:fault-not-reached")
        if not obs.get("fault_fired"):
            # the run is judged as a healthy one below (it must end, with the right values); as a FAULT run it says nothing
            mask["fault-not-reached"].append({"case": case, "ended": obs["ended"], "error": obs.get("error")})
            if obs["ended"] == "ok" and case.get("on_host") is None and "+" not in case["task"]:
                # every task of the job has run (the sink's output was delivered), so the crash point WAS passed: the injection itself is broken
                ctx.disagree("fault-injection", {"cluster": case}, "a run that completed every task has passed the crash point and injected the fault",
                             {"ended": obs["ended"], "fault_fired": False, "job_started": obs.get("job_started")})
    if obs["ended"] == "error" and case["fault"] != "none" and not lost_output_certain(case):
        ctx.count("cluster:error-where-outputs-might-have-survived")      # allowed by the property text; counted for the record
    viol = judge_cluster(case, obs)
    if case.get("names"):
        ctx.count("cluster:related-host-names")
        ctx.count("cluster:names=" + ",".join(case["names"]))
        if obs.get("fault_fired"):
            ctx.count("cluster:related-host-names+death-on=" + ("shorter-named" if (obs.get("victim_host") or "") == min(obs.get("hosts") or [""], key=len) else "other"))
    ctx.extra.setdefault("cluster_runs", []).append({"case": {k: case[k] for k in ("fault", "when", "task", "hosts", "workers", "victim", "datagram", "names", "on_host", "exc", "exc_args") if k in case}, "ended": obs["ended"],
                                                      "t_run": obs.get("t_run"), "wall": obs.get("wall"), "fault_fired": bool(obs.get("fault_fired")), "verdicts": [s["kind"] for s, _ in viol]})
    if obs["ended"] == "infra":
        ctx.notes.append(f"cluster run could not be set up ({obs.get('error')}): {case}")
        ctx.count("cluster:infra-no-verdict")
        mask["infra-no-verdict"].append({"case": case, "error": obs.get("error")})
        return obs, []
    out = [(s, w, None) for s, w in viol]
    if viol and confirm:
        known = load_known()
        need = [x for x in viol if match_known(PROPERTY, x[0], known) is None]
        if need:
            obs2 = cl.run_case(case, deadline_s=deadline, settle_s=25.0)
            ctx.count("cluster:confirm-runs")
            kinds2 = {s["kind"] for s, _ in judge_cluster(case, obs2)}
            runs = [_obs_summary(obs), _obs_summary(obs2)]
            out = []
            for s, w in viol:
                if match_known(PROPERTY, s, known) is not None or s["kind"] in kinds2:
                    out.append((s, w, None))
                elif s["kind"] in ("wrong-value", "ok-despite-lost-output"):
                    out.append((s, w + " [not shown by the immediate re-run]", runs))
                elif obs.get("job_started"):
                    ctx.count("cluster:unreproduced-after-start-" + s["kind"])
                    out.append((dict(s, reproduced=False), w + " [the job HAD started; the immediate re-run of the same case did not show this verdict: "
                                                               f"{runs[1]['ended']}, leftover procs {len(runs[1]['leftover_procs'] or [])}, leftover shm {len(runs[1]['leftover_shm'] or [])}]", runs))
                else:
                    ctx.count("cluster:flaky-startup-" + s["kind"])
                    mask["startup-verdict-dropped"].append({"case": case, "signature": s, "runs": runs})
                    ctx.notes.append(f"start-up verdict (job had not started) not reproduced on re-run, ignored: {s}")
    return obs, out


REAL_RAISE_FOCUS = ["TimeoutError", "OSError", "CustomTimeout", "CustomOS", "ConnectionResetError", "FileNotFoundError", "StopIteration", "MemoryError", "Custom"]


def with_exception_class(rng, case):
    """fault `raise` on a real cluster: ONE class of the universe per run (half of the runs from the OSError/TimeoutError family and
    other classes a misplaced handler is likely to single out, else any Exception class, a hostile one or a BaseException) with one
    kind of constructor arguments"""
    if case.get("fault") != "raise" or "exc" in case:
        return case
    r = rng.random()
    kind = rng.choice(REAL_RAISE_FOCUS) if r < 0.5 else rng.choice(EXC_KINDS) if r < 0.85 else rng.choice(EXC_HOSTILE + BASE_KINDS)
    return dict(case, exc=kind, exc_args="boom" if rng.random() < 0.4 else rng.choice(EXC_ARGS))


def pick_cluster_cases(ctx):
    return [with_exception_class(ctx.rng, c) for c in _pick_cluster_cases(ctx)]


def _pick_cluster_cases(ctx):
    rng = ctx.rng
    m = cluster_matrix()
    if ctx.quick:
        picks = []
        for g, faults in GROUPS.items():
            pool = [c for c in m if c["fault"] in faults and fault_class(c) != "shm-sigkill"]     # the SIGKILL class: SHM_WITNESS + SLOW_CASES, every run
            picks.append(rng.choice(pool))
        if not any(c["fault"] == "garbage-shm" and c["when"] != "before" and c.get("victim") == "own" for c in picks):
            picks.append(garbage_case(rng))
        return picks
    core_set = [c for c in m if (c["hosts"], c["workers"]) == (1, 2)]
    # always: the shutdown-command window (only exists on single-worker hosts) and a helper of the OTHER host hit on 2 hosts
    must = [c for c in m if c not in core_set and (c["fault"] == "kill-shm-midshutdown" or
                                                   (c.get("victim") == "other" and c["when"] == "during" and c["workers"] == 1))]
    rest = [c for c in m if c not in core_set and c not in must]
    rng.shuffle(rest)
    return core_set + must + rest[: max(0, 56 - len(core_set) - len(must))]


def cluster_phase(ctx, cases, healthy=True, stop_after=0, first=None):
    from ekw import c05_cluster as cl
    done = ctx.extra.setdefault("_cluster_done", [])
    if healthy:
        for shape in ([(1, 2)] if ctx.quick else [(1, 1), (2, 2)]):
            case = dict(fault="none", when="before", task="src", hosts=shape[0], workers=shape[1])
            obs, viol = run_cluster_case(ctx, case)
            ctx.case({"cluster": case, "ended": obs["ended"]}, nontrivial=False)
            ctx.traces += 1
            if obs["ended"] == "error":
                ctx.disagree("cluster-healthy-run", case, "ok", {"ended": obs["ended"], "error": obs.get("error")})
            for s, w, runs in viol:
                ctx.violation(s, {"cluster": case, **({"runs": runs} if runs else {})}, w)
    for case in cases:
        key = json.dumps(case, sort_keys=True)
        if key in done:
            continue
        if stop_after and len({json.dumps(v["signature"], sort_keys=True) for v in ctx.violations if "cluster" in v["case"] and v["signature"]["kind"] != "leftover-shm"}) >= stop_after:
            ctx.notes.append("search stopped: enough failing real-cluster inputs found")
            break
        done.append(key)
        obs, viol = run_cluster_case(ctx, case, first_obs=(first or {}).get(key))
        ctx.case({"cluster": case, "ended": obs["ended"], "t_run": obs.get("t_run")}, nontrivial=True)
        ctx.traces += 1
        for s, w, runs in viol:
            ctx.violation(s, {"cluster": case, **({"runs": runs} if runs else {})}, w)


# ============================================================================= the check

def _health_state(child, c):
    st = {"host": "h0", "workers": [["h0.w0", {"exit": None, "stuck": False}]], "shm": None, "data": None, "terminating": False}
    if child == "worker":
        st["workers"][0][1]["exit"] = c
    else:
        st[child] = c
    return st


def _dynamic_table():
    """What the real healthcheck does with exactly one dead child, for EVERY exit code of PRED_DOMAIN (None, -255..255): the
    translator cross-check, and the input of the oracle sweep. Returns (classes, raw) with raw[child][code] = raises."""
    res, raw = {}, {}
    for child in ("worker", "shm", "data"):
        got = {c: real_health(_health_state(child, c))["raises"] for c in PRED_DOMAIN}
        raw[child] = got
        ints = [c for c in PRED_DOMAIN if c is not None]
        if got[None] is False and all(got[c] is True for c in ints):
            res[child] = "exited"
        elif got[None] is False and all((got[c] is True) == (c != 0) for c in ints):
            res[child] = "nonzero"
        elif all(got[c] is False for c in PRED_DOMAIN):
            res[child] = "never"
        else:
            odd = [c for c in ints if got[c] is not True]
            res[child] = f"other: raises on None: {got[None]}; no raise on exit codes {odd[:6]}"
    st = _health_state("worker", None)
    st["workers"][0][1] = "ns"
    res["none"] = real_health(st)["raises"] is True
    return res, raw


def _load_corpus():
    import glob
    from ekw.core import CORPUS_DIR
    out = []
    for f in sorted(glob.glob(str(CORPUS_DIR / "C05_*.json"))):
        try:
            d = json.load(open(f))
            out += d["cases"] if "cases" in d else [d["case"]]
        except Exception:
            continue
    return out


def _inprocess(ctx, use_model=True):
    from ekw.core import lean_drive
    rng = ctx.rng
    lines = []
    checks = []      # (where, case, real_out, canon function for model output)

    def add(where, case, line, real_out, canon_model):
        lines.append(json.dumps(line))
        checks.append((where, case, real_out, canon_model))

    # (i) translator cross-check
    tab = ctx.extra.get("health_table")
    dyn, raw = _dynamic_table()
    ctx.extra["health_dynamic"] = dyn
    # the oracle on EVERY exit code (one dead child at a time): a code the healthcheck does not report is a failing input
    for child in ("worker", "shm", "data"):
        for c in PRED_DOMAIN:
            ctx.count("health-sweep:cases")
            st = _health_state(child, c)
            o = oracle_health(st, {"raises": raw[child][c]})
            if o:
                ctx.count("health-sweep:undetected")
                ctx.violation(o[0], {"health": st}, o[1])
    if tab is not None:
        eff = {c: (p if r else "never") for c, p, r in tab["rows"]}
        for c in ("worker", "shm", "data"):
            if eff[c] != dyn[c]:
                ctx.disagree("translator-vs-real-healthcheck", {"child": c}, {"translated": eff[c], "table": tab}, {"observed": dyn[c]})
        if bool(tab["none_raises"]) != bool(dyn["none"]):
            ctx.disagree("translator-vs-real-healthcheck", {"child": "worker-none"}, tab["none_raises"], dyn["none"])
        add("translator-vs-lean-table", {"op": "table"}, {"op": "table"}, {"rows": tab["rows"], "none_raises": tab["none_raises"]},
            lambda m: {"rows": m["rows"], "none_raises": m["none_raises"]})
        ctx.count("translator:rows", 3)

    # (i') translator `shm_entry` cross-check: the real entrypoint driven in-process vs the AST table vs the Lean table
    etab = ctx.extra.get("shm_entry_table")
    edyn = _dynamic_entry()
    ctx.extra["shm_entry_dynamic"] = edyn
    if "crash" in edyn:
        ctx.disagree("shm-entry-harness", {"op": "entry-table"}, "the real entrypoint can be driven with a scripted socket", edyn)
    elif etab is not None:
        for k in ("rows", "shutdown_breaks", "sigterm_handler", "sigint_handler", "atexit_unlinks", "loop_can_raise"):
            if etab[k] != edyn[k]:
                ctx.disagree("translator-vs-real-shm-entrypoint", {"fact": k}, {"translated": etab[k], "table": etab}, {"observed": edyn[k]})
        add("translator-vs-lean-entry-table", {"op": "entry-table"}, {"op": "entry-table"},
            {k: etab[k] for k in ("rows", "shutdown_breaks", "sigterm_handler", "sigint_handler", "atexit_unlinks")},
            lambda m: {k: m[k] for k in ("rows", "shutdown_breaks", "sigterm_handler", "sigint_handler", "atexit_unlinks")})
        ctx.count("translator:entry-rows", len(etab["rows"]))

    corpus = _load_corpus()
    ctx.count("corpus:entries", len(corpus))
    # (ii.g) the end of the shm server process
    for case in [c["shm_entry"] for c in corpus if "shm_entry" in c] + gen_shm_entry_cases(rng, ctx.budget(60, 1200)):
        out = _run_shm_entry(case)
        ctx.case({"shm_entry": case}, nontrivial=True)
        ctx.count("shm-entry:cases")
        ctx.count("shm-entry:end=" + case["end"] + ("/" + case.get("datagram", "") if case["end"] == "garbage" else ""))
        if "crash" in out:
            ctx.disagree("shm-entry-harness", {"shm_entry": case}, "the real entrypoint can be driven with a scripted socket", out)
            continue
        ctx.count("shm-entry:ended=" + out["ended"].split(":")[0])
        if out["pre"]:
            ctx.count("shm-entry:with-segments")
        o = oracle_shm_entry(case, out)
        if o:
            small, o = _shrink_shm_entry(case, o)
            ctx.violation(o[0], {"shm_entry": small}, o[1])
        if out["ended"] == "alive" and _END_CLASS[case["end"]] == "loop-exception":
            ctx.count("shm-entry:survived")          # the datagram was decodable / the error handled in the loop: no death to compare
            continue
        add("shm-server-end", {"shm_entry": case}, {"op": "shmend", "segs": out["pre"], "how": _END_CLASS[case["end"]]},
            {"left": out["left"], "code": out["code"]}, lambda m: {"left": sorted(m["left"]), "code": m["code"]})

    # (ii.a) healthcheck, every combination
    for st in [c["health"] for c in corpus if "health" in c] + health_cases():
        out = real_health(st)
        dead = any(h == "ns" or h["exit"] is not None for _, h in st["workers"]) or st["shm"] is not None or st["data"] is not None
        ctx.case({"health": st}, nontrivial=dead)
        ctx.count("health:cases")
        ctx.count("health:raises" if out["raises"] is True else "health:silent")
        o = oracle_health(st, out)
        if o:
            ctx.violation(o[0], {"health": st}, o[1])
        add("healthcheck", {"health": st}, dict(st, op="health"), {"raises": out["raises"]}, lambda m: {"raises": m["raises"]})

    # (ii.b) terminate
    for st in [c["terminate"] for c in corpus if "terminate" in c] + [gen_state(rng, healthy_bias=0.2) for _ in range(ctx.budget(150, 3000))]:
        out = real_terminate(st)
        ctx.case({"terminate": st}, nontrivial=not st["terminating"])
        ctx.count("terminate:cases")
        if any(h != "ns" and h["exit"] is None and h["stuck"] for _, h in st["workers"]):
            ctx.count("terminate:with-stuck-worker")
        if st["shm"] is None and st.get("shm_mode", "ok") != "ok" and not st["terminating"]:
            ctx.count("terminate:with-" + st["shm_mode"] + "-shm")
        o = oracle_terminate(st, out)
        if o:
            ctx.violation(o[0], {"terminate": st}, o[1])
        real_c = {"acts": out.get("acts"), "acts2": out.get("acts2"), "hang": "hang" in out, "crash": out.get("crash")}
        add("terminate", {"terminate": st}, dict(st, op="terminate"), real_c,
            lambda m: {"acts": m["acts"], "acts2": m["acts2"], "hang": False, "crash": None})

    # (ii.c) recv_loop iteration
    ticks = [(c["tick"], c["inbox"], bool(c.get("hb")), bool(c.get("retry"))) for c in corpus if "tick" in c]
    for _ in range(ctx.budget(400, 8000)):
        st = gen_state(rng)
        # environment of the iteration: heartbeat grace elapsed / the sender has run out of retries for some message
        ticks.append((st, gen_inbox(rng, st), rng.random() < 0.25, rng.random() < 0.15))
    for st, inbox, hb, retry in ticks:
        out = real_tick(st, inbox, hb, retry)
        dead = any(h == "ns" or h["exit"] is not None for _, h in st["workers"]) or st["shm"] is not None or st["data"] is not None
        tcase = {"tick": st, "inbox": inbox, "hb": hb, "retry": retry}
        ctx.case(tcase, nontrivial=dead or retry or any(m[0] in ("tf", "xf", "other", "shutdown") for m in inbox))
        ctx.count("tick:cases")
        for m in inbox:
            ctx.count("tick:msg=" + m[0])
        if dead:
            ctx.count("tick:with-dead-child")
        if hb:
            ctx.count("tick:heartbeat-due")
        if retry:
            ctx.count("tick:retry-budget-exhausted")
        if any(x[0] == "c" and x[1][0] == "reg" for x in out.get("out", [])):
            ctx.count("tick:heartbeat-sent")
        o = oracle_tick(st, inbox, out, retry)
        if o:
            ctx.violation(o[0], tcase, o[1])
        real_c = {"out": out.get("out"), "terminating": out.get("terminating"), "hang": "hang" in out, "crash": out.get("crash")}
        add("recv_loop-iteration", tcase, dict(st, op="tick", inbox=inbox, hb=hb, retry=retry), real_c,
            lambda m: {"out": m["out"], "terminating": m["st"]["terminating"], "hang": False, "crash": None})

    # (ii.d) worker body
    for case in [c["worker"] for c in corpus if "worker" in c] + gen_worker_cases(rng, ctx.budget(160, 1500)):
        try:
            out = real_worker(case)
        except Exception as ex:
            out = {"msgs": [["crash", _err(ex)]], "exit": None}
        ctx.case({"worker": case}, nontrivial=case["outcome"][0] != "returns")
        ctx.count("worker:cases")
        ctx.count("worker:outcome=" + case["outcome"][0])
        ctx.count("worker:sequence-length=%d" % (1 + len(case.get("pre", []))))
        if case["outcome"][0] in ("exc", "base") and len(case["outcome"]) > 1:
            ctx.count("worker:raises=" + case["outcome"][1])
            ctx.count("worker:args=" + (case["outcome"][2] if len(case["outcome"]) > 2 else "boom"))
        o = oracle_worker(case, out)
        if o:
            ctx.violation(o[0], {"worker": case}, o[1])
        add("execute_sequence", {"worker": case}, worker_model_line(case), out, lambda m: {"msgs": m["msgs"], "exit": m["exit"]})

    # (ii.e) Bridge.recv_events
    recvs = [(c["hosts"], c["recv"]) for c in corpus if "recv" in c] + directed_recvs()
    for _ in range(ctx.budget(300, 6000)):
        nh = rng.choice([1, 2, 2, 3])
        fam, hosts = gen_host_names(rng, nh, related=0.6 if nh > 1 else 0.2)
        recvs.append((hosts, gen_batches(rng, hosts)))
    for hosts, batches in recvs:
        out, fail_consumed = real_recv(hosts, batches)
        ctx.case({"recv": batches, "hosts": hosts}, nontrivial=any(m[0] in ("tf", "ef", "xf", "exit", "unsup") for b in batches for m in b))
        ctx.count("recv:cases")
        ctx.count("recv:res=" + out["res"].split(":")[0])
        ctx.count("recv:hosts=%d" % len(hosts))
        if related_names(hosts):
            ctx.count("recv:related-host-names")
            if out["res"] == "raised" and any(m[0] in ("ef", "exit") for b in batches for m in b):
                ctx.count("recv:related-host-names+executor-death")
        o = oracle_recv(hosts, batches, out)
        if o:
            ctx.violation(o[0], {"recv": batches, "hosts": hosts}, o[1])
        if out["res"] == "hang":
            ctx.violation({"kind": "shutdown-waits-forever"}, {"recv": batches, "hosts": hosts},
                          f"Bridge.shutdown never returns when a host does not answer ExecutorShutdown: {out['why']}; batches {batches}")
        elif out["res"] != "raised" and fail_consumed:
            kinds = sorted({m[0] for b in batches for m in b if m[0] in ("tf", "ef", "xf", "exit", "unsup")})
            ctx.violation({"kind": "failure-ignored", "msg": kinds[0] if kinds else "?"}, {"recv": batches, "hosts": hosts},
                          f"Bridge.recv_events read a failure message ({kinds}) and did not shut down and raise: result {out}")
        add("Bridge.recv_events", {"recv": batches, "hosts": hosts}, {"op": "recv", "hosts": hosts, "batches": batches}, out, lambda m: m)

    # (ii.f) impl.run on a simulated cluster
    for case in [c["run_sim"] for c in corpus if "run_sim" in c] + gen_run_cases(rng, ctx.budget(60, 800)):
        try:
            res, batches, hosts = real_run_sim(case)
        except Exception as ex:
            ctx.disagree("run-sim-harness", case, "runs", _err(ex) + ": " + str(ex)[:200])
            continue
        ctx.case({"run_sim": case}, nontrivial=case["inject"] is not None)
        ctx.count("runsim:cases")
        ctx.count("runsim:status=" + res["status"])
        if case["inject"]:
            ctx.count("runsim:inject=" + case["inject"]["kind"][0])
        ctx.count("runsim:hosts=%d" % len(hosts))
        if related_names(hosts):
            ctx.count("runsim:related-host-names")
            if case["inject"] and case["inject"]["kind"][0] in ("ef", "exit"):
                ctx.count("runsim:related-host-names+executor-death")
        o = oracle_run_sim(case, res, batches, hosts)
        if o:
            ctx.violation(o[0], {"run_sim": case}, o[1])
        real_c = {"status": res["status"], "outputs": res.get("outputs") if res["status"] == "ok" else None, "calls": res["calls"], "sent": res["sent"], "left": res["left"]}
        add("impl.run", {"run_sim": case, "batches": batches},
            {"op": "run", "requested": case["ext"], "remaining": 4, "hosts": hosts, "batches": batches}, real_c,
            lambda m: {"status": m["status"], "outputs": sorted(m["outputs"]) if m["status"] == "ok" else None, "calls": m["calls"], "sent": m["sent"], "left": m["left"]})

    if not use_model:
        return
    res = lean_drive("C05", lines)
    if len(res) != len(lines):
        ctx.disagree("driver", {"lines": len(lines)}, f"{len(res)} output lines", f"{len(lines)} input lines")
        return
    seen = set()
    for (where, case, real_out, canon), raw in zip(checks, res):
        ctx.traces += 1
        try:
            m = canon(json.loads(raw))
        except Exception as ex:
            m = {"driver": raw[:200], "error": _err(ex)}
        if json.loads(json.dumps(m)) != json.loads(json.dumps(real_out)):
            if where not in seen or len(ctx.disagreements) < 12:
                ctx.disagree(where, case, m, real_out)
            seen.add(where)


def shm_exit_phase(ctx):
    """(iv) the shm server's exit handler after random histories of the REAL Manager (readers still registered, writers
    that never closed, delayed purges, disk jobs in flight): leftovers in /dev/shm are a violation; the state after
    Manager.atexit is compared with the model's `atexit` (theorems c05_atexit_*)."""
    from ekw import sim_shm
    sim_shm.ATEXIT_LINE = True
    n0 = len(ctx.disagreements)
    try:
        sim_shm.run_batch(ctx, sim_shm.C05_KINDS, "c09", ctx.budget(150, 2500), ctx.budget(60, 100), ctx.budget(4, 6), "C05shm_*.json")
        _recheck_blocked_ops(ctx, n0)
    finally:
        sim_shm.ATEXIT_LINE = False


BLOCKED_RECHECK_MAX = 3


def _recheck_blocked_ops(ctx, n0):
    """sim_shm reports an operation of the real store that has not returned within its 6 s watchdog as `blocked-<op>` (and the
    history then differs from the model). The histories are driven single-threaded, so a store that really blocks does so again
    on the same history; on a machine with 30+ runnable processes per 16 cores a 6 s stall of the check process itself
    also trips the watchdog. Every such disagreement is therefore REPLAYED once (same history, fresh store, same model
    comparison): it is dropped only if the replay neither blocks nor differs from the model; counted, noted, and at most
    BLOCKED_RECHECK_MAX per run are re-examined (more = kept as they are)."""
    import re
    from ekw import sim_shm
    idx = [i for i in range(n0, len(ctx.disagreements)) if re.match(r"shm-op \d+ blocked-", str(ctx.disagreements[i].get("where", "")))]
    ctx.count("shm-exit:blocked-op-disagreements", len(idx))
    if not idx or len(idx) > BLOCKED_RECHECK_MAX:
        return

    class _Probe:
        def __init__(self):
            self.traces, self.disagreements = 0, []

        def disagree(self, where, case, model, impl):
            self.disagreements.append(where)
    drop = []
    for i in idx:
        d = ctx.disagreements[i]
        case = {k: d["case"].get(k) for k in ("cap", "via_server", "stale", "avail", "ops")}
        try:
            run, left = sim_shm.replay_history(case)
            probe = _Probe()
            if not getattr(run, "deadlocked", False):
                sim_shm.compare_with_model(probe, [(case, run)])
            again = getattr(run, "deadlocked", False) or bool(probe.disagreements)
        except Exception as ex:
            again = True
            ctx.notes.append(f"re-check of a blocked shm operation failed: {_err(ex)}")
        if again:
            ctx.count("shm-exit:blocked-op-reproduced")
        else:
            ctx.count("shm-exit:blocked-op-not-reproduced")
            ctx.notes.append(f"{d['where'][:60]}: the operation returned and the history agreed with the model on an immediate replay (watchdog tripped by machine load); dropped")
            drop.append(i)
    for i in reversed(drop):
        del ctx.disagreements[i]


# Host ids of the executors are free-form strings and key the Bridge's sender table ("<host>", "data.<host>"). Real clusters whose
# host names are related (`{u}` = the run's unique token): one a proper SUFFIX of the other, a proper PREFIX, or of equal length; a
# process dies on ONE host (mostly the one with the shorter name) -> its executor reports ExecutorFailure and is forgotten by the
# Bridge; the OTHER executor is alive and must be shut down like in any other run (no process, no segment left).
NAME_RELATIONS = {"data-prefix": ["data.{u}", "{u}1"], "suffix": ["{u}1", "g{u}1"], "suffix-rev": ["g{u}1", "{u}1"], "prefix": ["{u}1", "{u}1z"], "equal-length": ["{u}ab", "{u}ba"],
                  "suffix-3": ["{u}1", "g{u}1", "xg{u}1"]}


def name_cases(rng, n):
    """n fault runs on clusters with related host names: the death is placed on a chosen host by name"""
    out = []
    rels = ["suffix", "suffix-rev", "suffix", "prefix", "equal-length", "suffix-3", "data-prefix"]
    for k in range(n):
        rel = "suffix" if k == 0 else "data-prefix" if k == 1 else rng.choice(rels)
        names = NAME_RELATIONS[rel]
        # the death is placed mostly on the shorter-named host; with a "data."-named host on the OTHER one (the "data." host lives and must be told to stop)
        short = min(range(len(names)), key=lambda i: len(names[i]))
        where = short if (k == 0 or rng.random() < 0.8) else rng.randrange(len(names))
        x = rng.random()
        if x < 0.45:
            # a helper process of the chosen host dies (whoever runs the task kills it) -> ExecutorFailure from that host
            c = dict(fault=rng.choice(["kill-data", "kill-data", "term-shm", "garbage-shm"]), when=rng.choice(["before", "during"]), task="src",
                     hosts=len(names), workers=1, victim="name:%d" % where)
            if c["fault"] == "garbage-shm":
                c["datagram"] = rng.choice(CLUSTER_DATAGRAMS)
        else:
            # a worker of the chosen host dies: the first of the two parallel tasks a / b that runs there
            c = dict(fault=rng.choice(["kill9", "exit"]), when="before", task="a+b", hosts=len(names), workers=1, code=3, on_host=where)
        c["names"] = list(names)
        out.append(c)
    return out


# fault runs whose teardown sits out a grace period (a worker blocked for ever on a dead shm server; a shm server that never
# answers the shutdown command): 12-25 s each. The quick tier runs them too -- concurrently with the in-process phases.
SLOW_CASES = [dict(fault="kill-shm-midreq", when="before", task="src", hosts=1, workers=2, victim="own"),
              dict(fault="kill-shm-midshutdown", when="before", task="src", hosts=1, workers=1, victim="own")]


def _start_background(ctx, cases):
    import threading
    from ekw import c05_cluster as cl
    res = {}

    def work(case, key):
        try:
            res[key] = cl.run_case(case, deadline_s=30.0, settle_s=25.0)
        except Exception as ex:
            res[key] = {"ended": "infra", "error": _err(ex) + ": " + str(ex)[:200], "outputs": {}, "leftover_procs": [], "leftover_shm": []}
    threads = []
    for i, case in enumerate(cases):
        th = threading.Thread(target=work, args=(case, json.dumps(case, sort_keys=True)), daemon=True)
        th.start()
        threads.append(th)
        time.sleep(0.05)
    return threads, res


def _cluster_all(ctx):
    named = name_cases(ctx.rng, ctx.budget(2, 14))
    bgcases = SLOW_CASES + named[:2]
    bg = _start_background(ctx, bgcases) if ctx.quick else None
    yield
    cases = pick_cluster_cases(ctx) + ([] if ctx.quick else named)
    cluster_phase(ctx, cases + [SHM_WITNESS], healthy=True)
    if bg is not None:
        threads, res = bg
        t_join = time.time() + 600          # one run is bounded by run_case itself (4 x deadline + settle + tracker wait, x load scale <= 3)
        for th in threads:
            th.join(max(1.0, t_join - time.time()))
        mask = ctx.extra.setdefault("c05_unjudged", {"infra-no-verdict": [], "fault-not-reached": [], "startup-verdict-dropped": [], "background-not-finished": []})
        for c in bgcases:
            if json.dumps(c, sort_keys=True) not in res:
                # never dropped silently: the run is made again in the foreground (cluster_phase runs whatever has no first observation)
                ctx.count("cluster:background-run-not-finished")
                mask["background-not-finished"].append({"case": c})
        cluster_phase(ctx, bgcases, healthy=False, first=res)
        # the two scenarios of the fixed hangs (SLOW_CASES) must have been EXERCISED in this run: fault injected, a verdict reached
        runs = ctx.extra.get("cluster_runs", [])
        for c in SLOW_CASES:
            mine = [r for r in runs if all(r["case"].get(k) == v for k, v in c.items())]
            if not any(r["ended"] in ("ok", "error", "hang") and r.get("fault_fired") for r in mine):
                obs, viol = run_cluster_case(ctx, c)          # once more, alone
                for s_, w_, rr in viol:
                    ctx.violation(s_, {"cluster": c, **({"runs": rr} if rr else {})}, w_)
                if not (obs["ended"] in ("ok", "error", "hang") and obs.get("fault_fired")):
                    ctx.disagree("fixed-hang-scenario-not-exercised", {"cluster": c}, "the fault run completes with the fault injected (twice attempted)",
                                 {"runs": [{k: r.get(k) for k in ("ended", "fault_fired", "verdicts")} for r in mine], "last": _obs_summary(obs)})
    _unjudged_verdict(ctx)
    yield


UNJUDGED_MAX = {"infra-no-verdict": (1, 4), "fault-not-reached": (2, 8), "startup-verdict-dropped": (1, 3), "background-not-finished": (1, 1)}


def _unjudged_verdict(ctx):
    """Real runs that ended without a verdict (could not be set up three times; fault never injected; start-up verdict not
    reproduced and dropped; background run unfinished) are counted, listed in the evidence and BOUNDED: more than
    UNJUDGED_MAX[kind] (quick, thorough) of one kind in a run = the tie no longer observes what it claims = broken correspondence."""
    mask = ctx.extra.get("c05_unjudged") or {}
    for kind, (q, t) in UNJUDGED_MAX.items():
        n = len(mask.get(kind, []))
        ctx.count("cluster:unjudged:" + kind, n)
        if n > (q if ctx.quick else t):
            ctx.disagree("real-runs-without-verdict", {"kind": kind, "n": n, "max": q if ctx.quick else t},
                         "at most %d real fault runs of a check run end without a verdict of this kind" % (q if ctx.quick else t), mask[kind][:4])


def correspond(ctx):
    g = _cluster_all(ctx)
    next(g)
    _inprocess(ctx, use_model=True)
    shm_exit_phase(ctx)
    next(g)
    ctx.extra.pop("_cluster_done_tmp", None)


def oracle_only(ctx):
    g = _cluster_all(ctx)
    next(g)
    _inprocess(ctx, use_model=False)
    shm_exit_phase(ctx)
    next(g)


def search(ctx, why):
    """(P) or (T) is broken: look for a failing input on REAL clusters with a fixed, targeted set of fault runs."""
    targeted = [
        dict(fault="raise", when="before", task="a", hosts=1, workers=2, code=3),
        dict(fault="exit", when="before", task="src", hosts=1, workers=2, code=3),
        dict(fault="exit", when="during", task="src", hosts=1, workers=2, code=0),
        dict(fault="kill9", when="during", task="src", hosts=2, workers=1, code=3),
        dict(fault="kill-data", when="during", task="src", hosts=1, workers=2, victim="own"),
        dict(fault="term-shm", when="during", task="src", hosts=1, workers=2, victim="own"),
        dict(fault="garbage-shm", when="during", task="src", hosts=1, workers=2, victim="own", datagram="unknown-tag"),
        dict(fault="kill-shm", when="before", task="src", hosts=1, workers=2, victim="own"),
        dict(fault="kill-shm-midreq", when="before", task="src", hosts=1, workers=2, victim="own"),
        dict(fault="kill-shm-midshutdown", when="before", task="src", hosts=1, workers=1, victim="own"),
    ]
    ctx.count("search:invoked")
    # the search exists to FIND a failing input; when the run has already produced one that no known finding explains
    # (in-process history or real fault run, stored as replay), nothing is gained by 9 more cluster runs
    from ekw.core import load_known, match_known
    known = load_known()
    if any(match_known(PROPERTY, v["signature"], known) is None for v in ctx.violations):
        ctx.count("search:skipped-failing-input-already-found")
        ctx.notes.append("search skipped: a failing input had already been found")
        return
    cluster_phase(ctx, targeted, healthy=False, stop_after=2)


def replay(payload):
    case = payload["case"]
    from ekw import c05_cluster as cl

    class C:
        notes = []
        quick = True

        def count(self, *a, **k):
            pass
    if "ops" in case:
        from ekw import sim_shm
        sim_shm.ATEXIT_LINE = True
        return sim_shm.replay_print(payload, sim_shm.C05_KINDS)
    if "shm_entry" in case:
        out = _run_shm_entry(case["shm_entry"])
        o = None if "crash" in out else oracle_shm_entry(case["shm_entry"], out)
        print("real cascade.shm.server.entrypoint, scripted socket:", case["shm_entry"], "->", out, "\noracle:", o)
        return 1 if o else 0
    if "health" in case:
        out = real_health(case["health"])
        o = oracle_health(case["health"], out)
        print("healthcheck on", case["health"], "->", out, "\noracle:", o)
        return 1 if o else 0
    if "terminate" in case:
        out = real_terminate(case["terminate"])
        o = oracle_terminate(case["terminate"], out)
        print("terminate on", case["terminate"], "->", out, "\noracle:", o)
        return 1 if o else 0
    if "tick" in case:
        out = real_tick(case["tick"], case["inbox"], bool(case.get("hb")), bool(case.get("retry")))
        o = oracle_tick(case["tick"], case["inbox"], out, bool(case.get("retry")))
        print("recv_loop iteration on", case["tick"], "inbox", case["inbox"], "->", out, "\noracle:", o)
        return 1 if o else 0
    if "worker" in case:
        out = real_worker(case["worker"])
        o = oracle_worker(case["worker"], out)
        print("execute_sequence", case["worker"], "->", out, "\noracle:", o)
        return 1 if o else 0
    if "recv" in case:
        out, fc = real_recv(case["hosts"], case["recv"])
        bad = (out["res"] != "raised" and fc) or out["res"] == "hang"
        o = oracle_recv(case["hosts"], case["recv"], out)
        print("recv_events over", case["recv"], "hosts", case["hosts"], "->", out,
              "\noracle: failure ignored / shutdown waits for ever" if bad else "\noracle: " + (str(o) if o else "ok"))
        return 1 if (bad or o) else 0
    if "run_sim" in case:
        res, batches, hosts = real_run_sim(case["run_sim"])
        o = oracle_run_sim(case["run_sim"], res, batches, hosts)
        print("impl.run on simulated cluster", case["run_sim"], "->", res, "\nbatches:", batches, "\noracle:", o)
        return 1 if o else 0
    if "cluster" in case:
        obs = cl.run_case(case["cluster"], deadline_s=30.0, settle_s=25.0)
        v = judge_cluster(case["cluster"], obs)
        if case.get("runs"):
            print("recorded: the verdict showed in the first of these two consecutive runs of the case only:")
            for r in case["runs"]:
                print("   ", r)
        print("real cluster run", case["cluster"], "->", _obs_summary(obs))
        print("oracle:", v)
        return 1 if v else 0
    print("unknown replay case")
    return 2
