"""C16 — the preschedule is a faithful structural summary of the job DAG.

Tie: the REAL `cascade.scheduler.graph.precompute` (with the real `decompose`, `enrich`, python
fallback of `nearest_common_descendant`, `low.views.dependants` / `param_source`) against
Model/Presched.lean on the same random jobs; everything that came out of a Python set or
dict is compared as a set / map (components: as a set of components, plus the sequence of
weights as produced). The internal `paths` table of `enrich` is observed by wrapping the
module global `nearest_common_descendant` (no hook in the repo). Every case runs twice: inline with a
synchronous stand-in for the thread pool (interruptible: a hang is a result), and in a child process
(c16_worker.py) with the real ThreadPoolExecutor; a quarter also with a stand-in for `coptrs`.
Jobs outside the property's quantifier (dangling edges, cycles, raw edges with both / neither sink
input) are compared with the model too — which exception, or no return — but not judged.
Oracle: written from the property text with networkx (weakly connected components, in-degree,
shortest path lengths, descendants, longest path), independent of the model.
"""
import json
import signal

PROPERTY = "C16"
LEVEL_TEXT = ("Lean theorems over Model/Presched.lean (dependants, param_source, edge projections, decompose flood fill, enrich layering + "
              "shortest-descendant-path DP + value, python fallback of nearest_common_descendant, component sort): for every job DAG whose edges "
              "join tasks of the job - ALSO when several edges feed the same sink input (hypothesis removed with the fix: precompute records every "
              "edge) - the components are exactly the weakly connected components (partition, closed, connected), sources are exactly the tasks without "
              "inputs, edge_o/edge_i/task_o equal the job's edges (multi-edges, multi-output tasks included), the DP table holds shortest directed "
              "path lengths (depth if none), value = depth - distance to the nearest sink, distance(a,b) = least d such that some task is within d "
              "steps of both (depth if none), weights are non-increasing; the while-loop of enrich exits with `remaining` empty after at most len(nodes) "
              "rounds and the loop fuels of the model are sufficient; run as the real code runs it (a missing key of `remaining` = KeyError, an empty layer "
              "with `remaining` non-empty = never exits) enrich returns for every component, and returns the model function's value "
              "(c16_enrich_returns, c16_layersLoopE_ok), while a stuck loop never exits (c16_stuck_never_exits); the scheduler's inputs of a task agree with what the "
              "executor binds (param_source) exactly when no input has two sources (c16_executor_view_partial / _full_fails); the two remaining "
              "hypotheses are necessary (c16_partition_cyclic_full_fails, c16_partition_dangling_full_fails) and are what the builder (C19) / the "
              "property's 'job DAG' provide. Unbounded in the size of the job; tied to the real precompute by the correspondence check.")
LEVEL_NOTE = ("modelled, not verified: scheduler/graph.py precompute/decompose/enrich/nearest_common_descendant (python fallback), low/views.py "
              "dependants/param_source, scheduler/core.py ComponentCore/Preschedule; the coptrs C extension (absent here) is outside the model - its "
              "conversion code in graph.py is exercised with a stand-in module that computes the fallback's function on coptrs' data layout; "
              "Python set iteration order is abstracted (results compared as sets/maps); the thread pool of precompute is a pure map in the model - "
              "every case is re-run through the real ThreadPoolExecutor in a child process and must give the inline result. The driver runs the "
              "`...E` functions of the model, in which KeyError and 'never exits' are results (proved equal to the total functions on well-formed "
              "DAGs: c16_enrich_returns), with a flood fuel that also covers dangling ends.")
TECHNIQUE = ("Lean 4 proofs (flood-fill invariant, counting invariant of the layering loop, Bellman equations of the DP solved by induction on a DAG "
             "rank) + differential correspondence with the real precompute (inline, real thread pool, coptrs stand-in) + networkx oracle")
LEAN_PROPS = ["EkwVerif.Props.C16"]
LEAN_DRIVERS = ["C16"]
RULE = ("random jobs: 0-40 tasks (thorough: up to 60) plus big jobs of 80-150 tasks, most with a directed path of 61-110 tasks and one of 130-140 "
        "(depth and distances beyond 60 / beyond 127): quick 1 of 80-82 tasks compared with the model and 2 judged by the oracle and re-run through the "
        "real pool only (the interpreted model needs minutes beyond ~100 tasks), thorough 4 + 30; 1-6 planted components of shapes chain / diamond / fan-in / fan-out / layered random / ladder / "
        "isolated, plus random extra forward edges, multi-edges between the same pair (same or different output, different sink inputs), 0-6 declared "
        "outputs per task (1 in 13 tasks has an EMPTY output_schema, producers too: their edges then name an undeclared output), kw and positional (also negative) sink inputs, task names of three styles (short tags, arbitrary strings incl. dots / blanks / "
        "non-ASCII / the empty name / shared prefixes, hex words) uncorrelated with topology; 14% with a sink input fed by 2-4 edges (other task, other "
        "output of the same task, exact copy); 6% outside the quantifier (edge from / to a non-task, cycle, self loop) and 2.5% raw edges with "
        "both/neither sink input, compared with the model only; 10 many-component jobs (6-12 components of 8-20 tasks) three times each through the "
        "real pool at a 1 us switch interval. non-trivial = at least one edge and (>= 2 components or a multi-edge or a multi-output task or a diamond "
        "or an input fed twice); distinct by content hash")
ASSUMPTIONS = [
    "the property's 'job DAG': task ids distinct (a dict), every edge joins two tasks of the job (what JobBuilder.build guarantees: Props/C19.lean c19_accepted_presched_wf_run), acyclic (IsDag; NOT checked by any code before precompute) - explicit hypotheses of the theorems, shown necessary by c16_partition_*_full_fails",
    "coptrs is not installed: the python fallback of nearest_common_descendant is what runs and what is modelled; the stand-in used for the conversion code assumes that coptrs computes the fallback's function",
    "the inline runs replace ThreadPoolExecutor by a synchronous map (so that a hang can be interrupted); every case is re-run with the real pool in a child process that is killed when it does not answer",
    "set/dict iteration order is not part of the compared result (PYTHONHASHSEED is fixed from the seed for reproducibility)",
]

TIMEOUT_S = 3.0          # a healthy precompute on 60 tasks takes milliseconds
_timeouts_seen = 0       # after a few hangs the limit is lowered so that a looping implementation cannot stall the check


# ----------------------------------------------------------------------------- real side

class _Timeout(Exception):
    pass


def _alarm(signum, frame):
    raise _Timeout()


class _SyncPool:
    """Stand-in for ThreadPoolExecutor: same interface as used by precompute, runs inline."""

    def __init__(self, *a, **k):
        pass

    def __enter__(self):
        return self

    def __exit__(self, *a):
        return False

    def map(self, f, it):
        return map(f, it)


def _err_enum(e):
    """`<exception class>@<function of the repo that raised it>`: a TypeError of param_source (both / neither sink
    input given) is a different result from a TypeError raised anywhere else."""
    import traceback
    fn = "?"
    try:
        for fr, _ in traceback.walk_tb(e.__traceback__):
            f = fr.f_code.co_filename
            if "/cascade/" in f or "/earthkit/" in f:
                fn = fr.f_code.co_name
    except Exception:
        pass
    return f"{type(e).__name__}@{fn}"


def build_job(case):
    from cascade.low.core import DatasetId, JobInstance, Task2TaskEdge, TaskDefinition, TaskInstance
    tasks = {}
    for t, outs in case["tasks"]:
        d = TaskDefinition(entrypoint="x", environment=[], input_schema={}, output_schema={o: "int" for o in outs})
        tasks[t] = TaskInstance(definition=d, static_input_kw={}, static_input_ps={})
    edges = [Task2TaskEdge(source=DatasetId(e["src"], e["out"]), sink_task=e["dst"], sink_input_kw=e["kw"], sink_input_ps=e["ps"])
             for e in case["edges"]]
    return JobInstance(tasks=tasks, edges=edges)


def run_real(case, real_pool=False, timeout=None):
    """Returns the raw result {"pre": Preschedule, "paths": {frozenset(nodes): paths}} or {"error": enum}."""
    global _timeouts_seen
    import cascade.scheduler.graph as graph
    if timeout is None:
        timeout = TIMEOUT_S if _timeouts_seen < 3 else 0.5
    captured = []
    orig_ncd = graph.nearest_common_descendant
    orig_pool = graph.ThreadPoolExecutor

    def wrap(paths, nodes, L):
        captured.append((list(nodes), {a: dict(r) for a, r in paths.items()}))
        return orig_ncd(paths, nodes, L)

    graph.nearest_common_descendant = wrap
    if not real_pool:
        graph.ThreadPoolExecutor = _SyncPool
    old = signal.signal(signal.SIGALRM, _alarm)
    try:
        job = build_job(case)
        if not real_pool:
            signal.setitimer(signal.ITIMER_REAL, timeout)
        try:
            pre = graph.precompute(job)
        finally:
            signal.setitimer(signal.ITIMER_REAL, 0)
        return {"pre": pre, "paths": captured}
    except _Timeout:
        _timeouts_seen += 1
        return {"error": "Timeout"}
    except BaseException as e:  # noqa: the real code's exception is a result
        if isinstance(e, (KeyboardInterrupt, SystemExit)):
            raise
        return {"error": _err_enum(e)}
    finally:
        signal.signal(signal.SIGALRM, old)
        graph.nearest_common_descendant = orig_ncd
        graph.ThreadPoolExecutor = orig_pool


def _ds(d):
    return [d.task, d.output]


def canon_real(res):
    try:
        return _canon_real(res)
    except Exception as e:
        return {"error": "Malformed:" + type(e).__name__}


def _canon_real(res):
    if "error" in res:
        return {"error": res["error"]}
    pre = res["pre"]
    paths_by = {}
    for nodes, p in res["paths"]:
        paths_by[tuple(sorted(nodes))] = p
    comps = []
    for c in pre.components:
        p = paths_by.get(tuple(sorted(c.nodes)), {})
        comps.append({
            "nodes": sorted(c.nodes), "sources": sorted(c.sources), "depth": c.depth,
            "value": sorted([k, v] for k, v in c.value.items()),
            "dist": sorted([a, sorted([b, d] for b, d in r.items())] for a, r in c.distance_matrix.items()),
            "paths": sorted([a, sorted([b, d] for b, d in r.items())] for a, r in p.items()),
        })
    return {
        "weights": [len(c.nodes) for c in pre.components],
        "components": sorted(comps, key=lambda c: (-len(c["nodes"]), c["nodes"])),
        "edge_o": sorted([_ds(k), sorted(v)] for k, v in pre.edge_o.items()),
        "edge_i": sorted([k, sorted(_ds(d) for d in v)] for k, v in pre.edge_i.items()),
        "task_o": sorted([k, sorted(_ds(d) for d in v)] for k, v in pre.task_o.items()),
    }


MODEL_ERR = {"KeyError": "KeyError@enrich", "Diverges": "Timeout"}


def canon_model(out):
    if "driver_error" in out:
        return {"error": "driver"}
    if out.get("error") == "TypeError":
        return {"error": "TypeError@param_source"}
    if out.get("error") == "Enrich":
        # the real code stops at the first failing component it meets (set order): any of these
        return {"error": "Enrich", "any_of": sorted({MODEL_ERR.get(x, x) for x in out.get("errors", [])})}
    if "error" in out:
        return {"error": out["error"]}
    comps = []
    for c in out["components"]:
        comps.append({
            "nodes": sorted(c["nodes"]), "sources": sorted(c["sources"]), "depth": c["depth"],
            "value": sorted(c["value"]),
            "dist": sorted([a, sorted(r)] for a, r in c["dist"]),
            "paths": sorted([a, sorted(r)] for a, r in c["paths"]),
        })
    return {
        "weights": [len(c["nodes"]) for c in out["components"]],
        "components": sorted(comps, key=lambda c: (-len(c["nodes"]), c["nodes"])),
        "edge_o": sorted([k, sorted(v)] for k, v in out["edge_o"]),
        "edge_i": sorted([k, sorted(v)] for k, v in out["edge_i"]),
        "task_o": sorted([k, sorted(v)] for k, v in out["task_o"]),
    }


def first_diff(a, b):
    """a = model, b = real (both canonical)."""
    if "error" in a or "error" in b:
        if "any_of" in a:
            return None if b.get("error") in a["any_of"] else "error"
        return "error" if a != b else None
    for k in ("weights", "edge_o", "edge_i", "task_o"):
        if a[k] != b[k]:
            return k
    if len(a["components"]) != len(b["components"]):
        return "components"
    for x, y in zip(a["components"], b["components"]):
        for k in ("nodes", "sources", "depth", "value", "paths", "dist"):
            if x[k] != y[k]:
                return k
    return None


# ----------------------------------------------------------------------------- generator

_SHAPES = ["chain", "diamond", "fanin", "fanout", "layered", "random", "isolated", "ladder"]


_ODD = ["", " ", ".", "a.b", "a.b.c", "0", "17", "007", "t", "T", "t ", "täsk", "задача", "名前", "x" * 40, "n1", "n10", "n100", "n-1", "-",
        "o0", "k0", "a/b", "a:b", "[]", "None", "__NO_OUTPUT__", "it's", 'q"q', "a\\b", "\u00e9", "e\u0301"]


def _names(rng, n):
    """Task names uncorrelated with topology. Three styles (one per job): the short tags of the first version of this
    check, arbitrary printable strings (dots, blanks, digits only, non-ASCII, long, shared prefixes, the empty name), or
    hexadecimal words (many different hash values, so that set iteration order is exercised beyond one name shape)."""
    style = rng.random()
    pool = []
    used = set()
    while len(pool) < n:
        if style < 0.5:
            s = rng.choice(["t", "task", "n", "x-", "job_"]) + str(rng.randint(0, 999))
        elif style < 0.8:
            s = rng.choice(_ODD) if rng.random() < 0.5 else rng.choice(_ODD) + rng.choice(["", ".", "_", " "]) + str(rng.randint(0, 30))
        else:
            s = "%x" % rng.getrandbits(rng.choice([8, 16, 32, 64]))
        if s not in used:
            used.add(s)
            pool.append(s)
    return pool, ("tags" if style < 0.5 else "odd" if style < 0.8 else "hex")


def _component_edges(rng, shape, k):
    """Pairs (i, j) with i < j over local indices 0..k-1 (so: acyclic); connected for the planted shapes."""
    if k == 1 or shape == "isolated":
        return []
    if shape == "chain":
        return [(i, i + 1) for i in range(k - 1)]
    if shape == "fanin":
        return [(i, k - 1) for i in range(k - 1)]
    if shape == "fanout":
        return [(0, i) for i in range(1, k)]
    if shape == "diamond":
        if k < 4:
            return [(i, i + 1) for i in range(k - 1)]
        mids = list(range(1, k - 1))
        return [(0, m) for m in mids] + [(m, k - 1) for m in mids]
    if shape == "ladder":
        es = [(i, i + 1) for i in range(k - 1)]
        es += [(i, i + 2) for i in range(k - 2) if rng.random() < 0.6]
        es += [(i, i + 3) for i in range(k - 3) if rng.random() < 0.3]
        return es
    if shape == "layered":
        es = []
        layers = []
        i = 0
        while i < k:
            w = rng.randint(1, 3)
            layers.append(list(range(i, min(k, i + w))))
            i += w
        for a, b in zip(layers, layers[1:]):
            for v in b:
                es.append((rng.choice(a), v))
            for u in a:
                if rng.random() < 0.4:
                    es.append((u, rng.choice(b)))
        return es
    # random: spanning tree over forward pairs + extras
    es = []
    for j in range(1, k):
        es.append((rng.randrange(0, j), j))
    for _ in range(rng.randint(0, k)):
        i, j = sorted(rng.sample(range(k), 2))
        es.append((i, j))
    return es


def gen_case(rng, max_tasks):
    n = rng.randint(1, max_tasks) if rng.random() < 0.8 else rng.randint(1, min(6, max_tasks))
    ncomp = min(n, rng.randint(1, 6))
    names, style = _names(rng, n)
    rng.shuffle(names)
    # split n into ncomp parts >= 1
    cuts = sorted(rng.sample(range(1, n), ncomp - 1)) if ncomp > 1 else []
    sizes = [b - a for a, b in zip([0] + cuts, cuts + [n])]
    tasks = [[t, _outputs(rng)] for t in names]       # 0-6 declared outputs (0: an EMPTY output_schema, also for producers)
    outs = dict((t, o) for t, o in tasks)
    pairs = []
    base = 0
    shapes = []
    for k in sizes:
        shape = rng.choice(_SHAPES)
        shapes.append(shape if k > 1 else "isolated")
        local = names[base:base + k]
        rng.shuffle(local)  # hidden topological order
        for i, j in _component_edges(rng, shape, k):
            pairs.append((local[i], local[j]))
        base += k
    # multi-edges between the same pair
    multi = 0
    for (a, b) in list(pairs):
        if rng.random() < 0.15:
            for _ in range(rng.randint(1, 2)):
                pairs.append((a, b))
                multi += 1
    rng.shuffle(pairs)
    edges = []
    nxt = {}
    for a, b in pairs:
        i = nxt.get(b, 0)
        nxt[b] = i + 1
        if rng.random() < 0.3:
            kw, ps = "k%d" % i, None
        elif rng.random() < 0.03:
            kw, ps = None, -1 - i          # JobBuilder.with_edge takes any int
        else:
            kw, ps = None, i
        # (rarely) an output name the source task does not declare: nothing in JobInstance forbids it, edge_o is keyed by it
        out = rng.choice(outs[a]) if (outs[a] and rng.random() > 0.02) else "undeclared"
        edges.append({"src": a, "out": out, "dst": b, "kw": kw, "ps": ps})
    # a task nobody consumes from may have an empty output schema
    producers = {e["src"] for e in edges}
    for t in tasks:
        if t[0] not in producers and rng.random() < 0.08:
            t[1] = []
    return {"tasks": tasks, "edges": edges}, {"shapes": shapes, "multi": multi, "names": style}


def _outputs(rng):
    """declared outputs of a task: mostly 1, up to 6, sometimes none at all (an EMPTY output_schema)"""
    k = rng.choice([1, 1, 1, 1, 1, 2, 2, 3, 3, 4, 5, 6, 0])
    return ["o%d" % i for i in range(k)]


def gen_big_case(rng, n_lo=80, n_hi=150, deep=None, spine=None):
    """A job of 80-150 tasks; `deep`: one component with a spine (directed path) of 61-110 tasks, so depth > 60 and
    distances / values well beyond anything a small table, a signed byte or a shallow recursion could hold; the other
    tasks hang off the spine or feed it (edges only forward in a hidden order: acyclic), a few stay isolated.
    Outputs per task 0-6 (tasks with an EMPTY output_schema also as producers: their edges name an undeclared output)."""
    n = rng.randint(n_lo, n_hi)
    if deep is None:
        deep = rng.random() < 0.7
    names, style = _names(rng, n)
    rng.shuffle(names)
    tasks = [[t, _outputs(rng)] for t in names]
    outs = dict((t, o) for t, o in tasks)
    order = list(names)
    rng.shuffle(order)                                   # hidden topological order
    L = rng.randint(61, min(n - 5, 110)) if deep else rng.randint(3, 25)
    if spine is not None:
        L = rng.randint(min(spine[0], n - 5), min(spine[1], n - 5))      # e.g. 130-140: distances beyond a signed byte
    spine_pos = sorted(rng.sample(range(n), L))
    pairs = [(order[a], order[b]) for a, b in zip(spine_pos, spine_pos[1:])]
    on_spine = set(spine_pos)
    for pos in range(n):
        if pos in on_spine or rng.random() < 0.04:
            continue                                      # (a few isolated tasks)
        for _ in range(rng.choice([1, 1, 2, 3])):
            if pos > 0 and (pos == n - 1 or rng.random() < 0.5):
                pairs.append((order[rng.randrange(0, pos)], order[pos]))
            else:
                pairs.append((order[pos], order[rng.randrange(pos + 1, n)]))
    rng.shuffle(pairs)
    edges, nxt = [], {}
    for a, b in pairs:
        i = nxt.get(b, 0)
        nxt[b] = i + 1
        kw, ps = ("k%d" % i, None) if rng.random() < 0.3 else (None, i)
        edges.append({"src": a, "out": rng.choice(outs[a]) if outs[a] else "undeclared", "dst": b, "kw": kw, "ps": ps})
    return {"tasks": tasks, "edges": edges}, {"shapes": ["big-deep" if deep else "big"], "multi": 0, "names": style, "big": True}


def _reach(case):
    import networkx as nx
    g = nx.DiGraph()
    g.add_nodes_from(t for t, _ in case["tasks"])
    g.add_edges_from((e["src"], e["dst"]) for e in case["edges"])
    return g


def gen_dupkey_case(rng, max_tasks):
    """A DAG in which some sink input is fed by more than one edge (JobInstance has no validator for it; before its
    fix JobBuilder.build accepted it): a second edge into the SAME (sink task, sink input) from another task, from
    another output of the same task, or an exact copy of an edge; sometimes a third one. Still acyclic."""
    import networkx as nx
    for _ in range(20):
        case, meta = gen_case(rng, max_tasks)
        if case["edges"] and len(case["tasks"]) >= 2:
            break
    else:
        case = {"tasks": [["a", ["o0"]], ["b", ["o0"]], ["c", ["o0"]]], "edges": [{"src": "a", "out": "o0", "dst": "c", "kw": None, "ps": 0}]}
        meta = {"shapes": ["fanin"], "multi": 0, "names": "tags"}
    g = _reach(case)
    outs = dict((t, o) for t, o in case["tasks"])
    kinds = []
    for _ in range(rng.choice([1, 1, 1, 2, 3])):
        e = rng.choice(case["edges"])
        b = e["dst"]
        banned = nx.descendants(g, b) | {b}
        others = [t for t, o in case["tasks"] if t not in banned and o]
        x = rng.random()
        if x < 0.15:
            new = dict(e)
            kinds.append("copy")
        elif x < 0.35 and len(outs[e["src"]]) > 1:
            new = dict(e, out=rng.choice([o for o in outs[e["src"]] if o != e["out"]]))
            kinds.append("other-output")
        elif others:
            a = rng.choice(others)
            new = dict(e, src=a, out=rng.choice(outs[a]))
            g.add_edge(a, b)
            kinds.append("other-task")
        else:
            new = dict(e)
            kinds.append("copy")
        case["edges"].insert(rng.randint(0, len(case["edges"])), new)
    meta = dict(meta, dupkey=kinds)
    return case, meta


def gen_outside_case(rng, max_tasks):
    """Jobs OUTSIDE the property's quantifier (compared with the model only, never judged by the oracle): an edge
    whose source or sink is not a task of the job, or a directed cycle (also a self loop). The real code is run
    under the watchdog; the model says which of them make `enrich` raise KeyError or never return."""
    case, meta = gen_case(rng, max_tasks)
    names = [t for t, _ in case["tasks"]]
    outs = dict((t, o) for t, o in case["tasks"])
    if rng.random() < 0.5:
        ghost = rng.choice(["ghost", "", "nope", names[0] + "'"])
        while ghost in names:
            ghost += "_"
        withouts = [t for t in names if outs[t]]
        if rng.random() < 0.5 or not withouts:
            e = {"src": ghost, "out": "o0", "dst": rng.choice(names), "kw": None, "ps": 90}
            kind = "ghost-source"
        else:
            a = rng.choice(withouts)
            e = {"src": a, "out": rng.choice(outs[a]), "dst": ghost, "kw": "k", "ps": None}
            kind = "ghost-sink"
        case["edges"].append(e)
    else:
        g = _reach(case)
        withouts = [t for t in names if outs[t]]
        if not withouts:
            case["tasks"][0][1] = ["o0"]
            outs[names[0]] = ["o0"]
            withouts = [names[0]]
        a = rng.choice(withouts)
        import networkx as nx
        anc = sorted(nx.ancestors(g, a))
        b = rng.choice(anc) if anc and rng.random() < 0.8 else a
        case["edges"].append({"src": a, "out": rng.choice(outs[a]), "dst": b, "kw": None, "ps": 91})
        kind = "self-loop" if a == b else "cycle"
    return case, dict(meta, outside=kind)


def gen_bad_case(rng):
    """raw edge with both or neither sink input: param_source raises TypeError"""
    case, _ = gen_case(rng, 6)
    if not case["edges"]:
        case["tasks"] = [["a", ["o0"]], ["b", ["o0"]]]
        case["edges"] = [{"src": "a", "out": "o0", "dst": "b", "kw": None, "ps": 0}]
    e = rng.choice(case["edges"])
    if rng.random() < 0.5:
        e["kw"], e["ps"] = "k", 0
    else:
        e["kw"], e["ps"] = None, None
    return case


def in_quantifier(case):
    """The property's 'every job DAG': task ids distinct, every edge names exactly one sink input, joins two tasks of
    the job, and the edges are acyclic. (More than one edge into the same sink input IS inside: nothing in JobInstance
    forbids it and the property demands that the inputs are recorded 'exactly as the job's edges state'.)"""
    ids = [t for t, _ in case["tasks"]]
    if len(set(ids)) != len(ids):
        return False
    for e in case["edges"]:
        if (e["kw"] is None) == (e["ps"] is None):
            return False
        if e["src"] not in ids or e["dst"] not in ids:
            return False
    import networkx as nx
    return nx.is_directed_acyclic_graph(_reach(case))


def has_dup_key(case):
    seen = set()
    for e in case["edges"]:
        k = (e["dst"], "kw" if e["kw"] is not None else "ps", e["kw"] if e["kw"] is not None else e["ps"])
        if k in seen:
            return True
        seen.add(k)
    return False


# ----------------------------------------------------------------------------- oracle (property text + networkx)

def oracle(case, res):
    """First failure (kind, detail) of the property on the real result, or None. Only for well-formed DAGs."""
    try:
        return _oracle(case, res)
    except Exception as e:  # the result is not even of the expected shape (foreign keys, missing entries, ...)
        return ("malformed-result", f"result cannot be inspected: {type(e).__name__}: {e}")


def _oracle(case, res):
    import networkx as nx
    if "error" in res:
        return ("no-result", f"precompute raised/hung: {res['error']}")
    pre = res["pre"]
    ids = [t for t, _ in case["tasks"]]
    g = nx.MultiDiGraph()
    g.add_nodes_from(ids)
    for e in case["edges"]:
        g.add_edge(e["src"], e["dst"])
    # --- partition into exactly the weakly connected components
    allnodes = [t for c in pre.components for t in c.nodes]
    if sorted(allnodes) != sorted(ids):
        missing = sorted(set(ids) - set(allnodes))
        dup = sorted({t for t in allnodes if allnodes.count(t) > 1})
        extra = sorted(set(allnodes) - set(ids))
        return ("partition", f"tasks in no component: {missing}; in more than one / twice: {dup}; not tasks: {extra}")
    want = {frozenset(c) for c in nx.weakly_connected_components(g)}
    got = {frozenset(c.nodes) for c in pre.components}
    if want != got:
        for c in pre.components:
            for e in case["edges"]:
                if (e["src"] in c.nodes) != (e["dst"] in c.nodes):
                    return ("closed", f"edge {e['src']}->{e['dst']} leaves component {sorted(c.nodes)}")
        return ("connected", f"components {sorted(map(sorted, got))} are not the weakly connected components {sorted(map(sorted, want))}")
    # --- heaviest first
    w = [len(c.nodes) for c in pre.components]
    if any(a < b for a, b in zip(w, w[1:])):
        return ("order", f"component weights not heaviest-first: {w}")
    # --- sources = tasks without inputs
    for c in pre.components:
        ws = sorted(t for t in c.nodes if g.in_degree(t) == 0)
        if sorted(c.sources) != ws:
            return ("sources", f"component {sorted(c.nodes)}: sources {sorted(c.sources)}, tasks without inputs {ws}")
    # --- consumers / inputs / outputs exactly as the edges state
    from cascade.low.core import DatasetId
    cons, inps = {}, {}
    for e in case["edges"]:
        cons.setdefault((e["src"], e["out"]), set()).add(e["dst"])
        inps.setdefault(e["dst"], set()).add((e["src"], e["out"]))
    dss = set(cons) | {(t, o) for t, outs in case["tasks"] for o in outs} | {(k.task, k.output) for k in pre.edge_o.keys()}
    for d in sorted(dss):
        gotc = set(pre.edge_o.get(DatasetId(d[0], d[1]), set()))
        if gotc != cons.get(d, set()):
            return ("edge_o", f"consumers of {d}: recorded {sorted(gotc)}, edges say {sorted(cons.get(d, set()))}")
    for t in sorted(set(ids) | set(pre.edge_i.keys())):
        goti = {(x.task, x.output) for x in pre.edge_i.get(t, set())}
        if goti != inps.get(t, set()):
            return ("edge_i", f"inputs of {t}: recorded {sorted(goti)}, edges say {sorted(inps.get(t, set()))}")
    if sorted(pre.task_o.keys()) != sorted(ids):
        return ("task_o", f"task_o keys {sorted(pre.task_o.keys())} != tasks")
    for t, outs in case["tasks"]:
        goto = {(x.task, x.output) for x in pre.task_o[t]}
        if goto != {(t, o) for o in outs}:
            return ("task_o", f"outputs of {t}: recorded {sorted(goto)}, job says {sorted(outs)}")
    # --- value, depth, distance
    sg = nx.DiGraph(g)
    spl = dict(nx.all_pairs_shortest_path_length(sg))
    for c in pre.components:
        sub = sg.subgraph(c.nodes)
        depth = nx.dag_longest_path_length(sub) + 1
        if c.depth != depth:
            return ("depth", f"component {sorted(c.nodes)}: depth {c.depth}, number of layers (longest path + 1) {depth}")
        sinks = [t for t in c.nodes if sg.out_degree(t) == 0]
        if sorted(c.value.keys()) != sorted(c.nodes):
            return ("value", f"component {sorted(c.nodes)}: value defined for {sorted(c.value.keys())}")
        for t in c.nodes:
            near = min(spl[t][s] for s in sinks if s in spl[t])
            if c.value[t] != c.depth - near:
                return ("value", f"value[{t}] = {c.value[t]}, depth {c.depth} - distance to nearest sink {near} = {c.depth - near}")
        for a in c.nodes:
            if sorted(c.distance_matrix.get(a, {}).keys()) != sorted(c.nodes):
                return ("distance", f"distance_matrix[{a}] defined for {sorted(c.distance_matrix.get(a, {}).keys())}")
            for b in c.nodes:
                common = [max(spl[a][x], spl[b][x]) for x in spl[a] if x in spl[b]]
                wantd = min(common) if common else c.depth
                if c.distance_matrix[a][b] != wantd:
                    return ("distance", f"distance[{a}][{b}] = {c.distance_matrix[a][b]}, least d with a task within d steps of both "
                                        f"{'= %d' % wantd if common else 'does not exist, depth = %d' % wantd}")
    return None


def shrink(case, kind):
    """Greedy: drop edges, then tasks without edges, while the same kind of failure persists (time-boxed)."""
    import time
    t_end = time.time() + 20

    def fails(c):
        if time.time() > t_end or not in_quantifier(c):
            return False
        f = oracle(c, run_real(c, timeout=0.5 if len(c["tasks"]) <= 60 else 15.0))
        return f is not None and f[0] == kind
    cur = {"tasks": [list(t) for t in case["tasks"]], "edges": [dict(e) for e in case["edges"]]}
    changed = True
    rounds = 0
    while changed and rounds < 6 and time.time() < t_end:
        changed = False
        rounds += 1
        for i in range(len(cur["edges"]) - 1, -1, -1):
            cand = {"tasks": cur["tasks"], "edges": cur["edges"][:i] + cur["edges"][i + 1:]}
            if fails(cand):
                cur = cand
                changed = True
        for i in range(len(cur["tasks"]) - 1, -1, -1):
            t = cur["tasks"][i][0]
            if any(e["src"] == t or e["dst"] == t for e in cur["edges"]):
                continue
            cand = {"tasks": cur["tasks"][:i] + cur["tasks"][i + 1:], "edges": cur["edges"]}
            if cand["tasks"] and fails(cand):
                cur = cand
                changed = True
        for i, (t, outs) in enumerate(cur["tasks"]):
            if len(outs) > 1:
                used = {e["out"] for e in cur["edges"] if e["src"] == t}
                keep = [o for o in outs if o in used] or outs[:1]
                if keep != outs:
                    cand = {"tasks": cur["tasks"][:i] + [[t, keep]] + cur["tasks"][i + 1:], "edges": cur["edges"]}
                    if fails(cand):
                        cur = cand
                        changed = True
    return cur


# ----------------------------------------------------------------------------- fixed cases (always run first)

def fixed_cases():
    def e(a, o, b, i, kw=False):
        return {"src": a, "out": o, "dst": b, "kw": ("k%d" % i) if kw else None, "ps": None if kw else i}
    one = [["a", ["o0"]]]
    return [
        {"tasks": [], "edges": []},                               # the empty job
        {"tasks": one, "edges": []},
        {"tasks": [["a", ["o0"]], ["b", ["o0"]], ["c", ["o0"]]], "edges": []},
        # multi-edge, two outputs of the same task into the same sink
        {"tasks": [["a", ["o0", "o1"]], ["b", ["o0"]]], "edges": [e("a", "o0", "b", 0), e("a", "o1", "b", 1), e("a", "o0", "b", 2, True)]},
        # diamond + tail + isolated + second smaller component
        {"tasks": [[t, ["o0"]] for t in "sabcdxyz"],
         "edges": [e("s", "o0", "a", 0), e("s", "o0", "b", 0), e("a", "o0", "c", 0), e("b", "o0", "c", 1), e("c", "o0", "d", 0), e("x", "o0", "y", 0)]},
        # only reachable through an in-edge of a non-source: u -> w <- v ; nearest vs first common descendant: p,q -> far ... and p,q -> near
        {"tasks": [[t, ["o0"]] for t in ["u", "v", "w", "p", "q", "m1", "m2", "far", "near"]],
         "edges": [e("u", "o0", "w", 0), e("v", "o0", "w", 1),
                   e("p", "o0", "m1", 0), e("m1", "o0", "m2", 0), e("m2", "o0", "far", 0), e("q", "o0", "far", 1),
                   e("p", "o0", "near", 0), e("q", "o0", "near", 1), e("near", "o0", "far", 2)]},
        # test_graph.py example of the repo
        {"tasks": [["v%d" % i, ["o0"]] for i in range(7)],
         "edges": [e("v0", "o0", "v1", 0), e("v1", "o0", "v2", 0), e("v3", "o0", "v1", 1), e("v4", "o0", "v5", 0), e("v5", "o0", "v2", 1), e("v4", "o0", "v6", 0)]},
        # jDup of Props/C16.lean: two tasks feed the same sink input (positional / keyword / negative position)
        {"tasks": [[t, ["o0"]] for t in "abc"], "edges": [e("a", "o0", "c", 0), e("b", "o0", "c", 0)]},
        {"tasks": [[t, ["o0"]] for t in "abc"], "edges": [e("a", "o0", "c", 0, True), e("b", "o0", "c", 0, True)]},
        {"tasks": [["a", ["o0", "o1"]], ["b", ["o0"]], ["c", ["o0"]]],
         "edges": [e("a", "o0", "b", -1), e("a", "o1", "b", -1), e("b", "o0", "c", 0), e("a", "o0", "c", 0), e("a", "o0", "c", 0)]},
        # outside the quantifier (model comparison only): source that is no task beside a real producer, sink that is no task, 2-cycle behind a source, self loop
        {"tasks": [["a", ["o0"]], ["c", ["o0"]]], "edges": [e("a", "o0", "c", 0), e("ghost", "o0", "c", 1)]},
        {"tasks": [["a", ["o0"]], ["c", ["o0"]]], "edges": [e("a", "o0", "c", 0), e("a", "o0", "ghost", 1)]},
        {"tasks": [[t, ["o0"]] for t in "sab"], "edges": [e("s", "o0", "a", 0), e("a", "o0", "b", 0), e("b", "o0", "a", 1)]},
        {"tasks": [[t, ["o0"]] for t in "ab"], "edges": [e("a", "o0", "b", 0), e("b", "o0", "a", 0)]},
        {"tasks": [[t, ["o0"]] for t in "sa"], "edges": [e("s", "o0", "a", 0), e("a", "o0", "a", 1)]},
    ]


# ----------------------------------------------------------------------------- check

def _features(case):
    pairs = [(e["src"], e["dst"]) for e in case["edges"]]
    multi = len(pairs) != len(set(pairs))
    multi_out = any(len(o) > 1 for _, o in case["tasks"])
    return multi, multi_out


def _timeout_for(case, inq):
    """A healthy precompute on 60 tasks takes milliseconds. Jobs outside the quantifier are expected to hang when
    they contain a cycle: they get a short limit; a hang inside the quantifier is a violation and is confirmed with the
    longer one (lowered after a few, so that a looping implementation cannot stall the check)."""
    if not inq:
        return 0.4
    if len(case["tasks"]) > 60:
        return 90.0 if _timeouts_seen < 3 else 10.0      # the cubic python fallback needs ~1 s for 150 tasks on a quiet machine
    return TIMEOUT_S if _timeouts_seen < 3 else 0.5


def _evaluate(ctx, cases, compare=True):
    from ekw.core import lean_drive
    reals = []
    for case, meta in cases:
        inq = in_quantifier(case)
        res = run_real(case, timeout=_timeout_for(case, inq))
        reals.append(res)
        multi, multi_out = _features(case)
        dup = has_dup_key(case)
        ncomp = len(res["pre"].components) if "pre" in res else 0
        nontrivial = bool(case["edges"]) and (ncomp >= 2 or multi or multi_out or dup or "diamond" in meta.get("shapes", []))
        ctx.case({"tasks": case["tasks"][:8], "edges": case["edges"][:8], "n_tasks": len(case["tasks"]), "n_edges": len(case["edges"])}, nontrivial=nontrivial)
        ctx.count("jobs")
        ctx.count("tasks", len(case["tasks"]))
        ctx.count("edges", len(case["edges"]))
        ctx.count("components", ncomp)
        ctx.count("size:%s" % ("0" if not case["tasks"] else "1" if len(case["tasks"]) == 1 else "2-5" if len(case["tasks"]) <= 5 else "6-15" if len(case["tasks"]) <= 15 else "16-40" if len(case["tasks"]) <= 40 else "41-79" if len(case["tasks"]) < 80 else "80-150"))
        for s in meta.get("shapes", []):
            ctx.count("shape:" + s)
        if "names" in meta:
            ctx.count("task_names:" + meta["names"])
        if multi:
            ctx.count("jobs_with_multi_edges")
        if multi_out:
            ctx.count("jobs_with_multi_output_tasks")
        if any(len(o) == 0 for _, o in case["tasks"]):
            ctx.count("jobs_with_output_less_tasks")
            ctx.count("tasks_with_empty_output_schema", sum(1 for _, o in case["tasks"] if not o))
            if any(not dict((t, o) for t, o in case["tasks"]).get(e["src"], ["x"]) for e in case["edges"]):
                ctx.count("jobs_with_output_less_PRODUCERS")
        if any(len(o) > 3 for _, o in case["tasks"]):
            ctx.count("jobs_with_tasks_of_4-6_outputs")
        if meta.get("big"):
            ctx.count("big_jobs(80-150 tasks)" + (":oracle+real-pool-only" if meta.get("oracle_only") else ":model-compared"))
            if "pre" in res:
                dmax = max([c.depth for c in res["pre"].components] or [0])
                ctx.count("big_jobs:max_depth_%s" % (">128" if dmax > 128 else ">60" if dmax > 60 else "<=60"))
        if any(e["ps"] is not None and e["ps"] < 0 for e in case["edges"]):
            ctx.count("jobs_with_negative_positions")
        if "pre" in res and any(len(c.nodes) == 1 for c in res["pre"].components):
            ctx.count("jobs_with_isolated_tasks")
        if any(e["out"] == "undeclared" for e in case["edges"]):
            ctx.count("jobs_with_edges_from_undeclared_outputs")
        if dup and inq:
            ctx.count("jobs_with_a_sink_input_fed_twice")
            for k in meta.get("dupkey", []):
                ctx.count("fed_twice:" + k)
        if not inq:
            ctx.count("outside_quantifier:" + meta.get("outside", "raw-edge(TypeError expected)" if any((e["kw"] is None) == (e["ps"] is None) for e in case["edges"]) else "other"))
        if "error" in res:
            ctx.count("real_error:" + res["error"])
        if inq:
            f = oracle(case, res)
            if f:
                ctx.count("oracle_failure:" + f[0])
                sig = _signature(f, case, res)
                seen = sum(1 for v in ctx.violations if v["signature"] == sig)
                if seen >= 3:
                    continue     # same kind already reported with shrunk witnesses
                small = shrink(case, f[0])
                r2 = run_real(small, timeout=max(TIMEOUT_S, _timeout_for(small, True)))
                f2 = oracle(small, r2)
                if f2 is None or f2[0] != f[0]:
                    small, f2, r2 = case, f, res
                ctx.violation(_signature(f2, small, r2), {"job": small}, f2[1])
    if not compare:
        return reals
    # (jobs of more than ~100 tasks are judged by the oracle and re-run through the real pool only: the interpreted model
    # needs minutes for them; a few of 80-100 tasks and depth > 60 ARE compared with the model)
    sel = [i for i, (_, meta) in enumerate(cases) if not meta.get("oracle_only")]
    lines = [json.dumps(cases[i][0]) for i in sel]
    outs = lean_drive("C16", lines)
    if len(outs) != len(lines):
        ctx.disagree("driver", {"n": len(lines)}, f"{len(outs)} output lines", f"{len(lines)} inputs")
        return reals
    for (case, _), res, o in zip([cases[i] for i in sel], [reals[i] for i in sel], outs):
        ctx.traces += 1
        a = canon_model(json.loads(o))
        b = canon_real(res)
        d = first_diff(a, b)
        if d:
            ctx.disagree("precompute:" + d, {"job": case}, _brief(a, d), _brief(b, d))
        elif "error" in b:
            ctx.count("agreed_on_error:" + b["error"])
    return reals


def _signature(f, case, res):
    """Kind of the oracle failure; for 'no result' also WHAT happened (exception@function / Timeout) and whether the
    job feeds a sink input twice — a hang on such a job is a different finding from a hang on a plain DAG."""
    sig = {"kind": f[0]}
    if f[0] == "no-result":
        sig["error"] = res.get("error")
        sig["sink_input_fed_twice"] = has_dup_key(case)
    return sig


def _brief(c, d):
    if "error" in c:
        return c
    if d in c:
        return {d: c[d]}
    return {"components": [{"nodes": x["nodes"], d: x.get(d)} for x in c["components"]]}


def _corpus():
    import glob
    from ekw.core import CORPUS_DIR
    out = []
    for f in sorted(glob.glob(str(CORPUS_DIR / "C16_*.json"))):
        try:
            out.append((json.load(open(f))["job"], {}))
        except Exception:
            pass
    return out


def _pre_from_canon(c):
    """The canonical result of a child-process run as an object with the attributes the oracle reads."""
    from types import SimpleNamespace as NS
    from cascade.low.core import DatasetId
    if "error" in c:
        return {"error": c["error"]}
    comps = [NS(nodes=list(x["nodes"]), sources=list(x["sources"]), depth=x["depth"], value={k: v for k, v in x["value"]},
                distance_matrix={a: {b: d for b, d in row} for a, row in x["dist"]}) for x in c["components"]]
    # `components` of the canonical form are sorted for comparison; the order AS PRODUCED is kept in `weights`
    order = []
    pool = list(comps)
    for w in c["weights"]:
        k = next((i for i, x in enumerate(pool) if len(x.nodes) == w), None)
        order.append(pool.pop(k) if k is not None else NS(nodes=[None] * w, sources=[], depth=0, value={}, distance_matrix={}))
    return {"pre": NS(components=order,
                      edge_o={DatasetId(k[0], k[1]): set(v) for k, v in c["edge_o"]},
                      edge_i={k: {DatasetId(d[0], d[1]) for d in v} for k, v in c["edge_i"]},
                      task_o={k: {DatasetId(d[0], d[1]) for d in v} for k, v in c["task_o"]})}


def gen_wide_case(rng):
    """Many connected components of 8-20 tasks each (several layering rounds per component): the four workers of the
    real pool have something to do at the same time."""
    tasks, edges = [], []
    for k in range(rng.randint(6, 12)):
        n = rng.randint(8, 20)
        local = ["%d/%s%d" % (k, rng.choice(["t", "n", "x-"]), i) for i in range(n)]
        rng.shuffle(local)
        nxt = {}
        for i, j in _component_edges(rng, rng.choice(["layered", "ladder", "random", "diamond", "chain"]), n):
            a, b = local[i], local[j]
            q = nxt.get(b, 0)
            nxt[b] = q + 1
            edges.append({"src": a, "out": "o0", "dst": b, "kw": None, "ps": q})
        tasks += [[t, ["o0"]] for t in local]
    rng.shuffle(tasks)
    rng.shuffle(edges)
    return {"tasks": tasks, "edges": edges}, {"shapes": ["wide"], "names": "tags"}


def _judge_child_result(ctx, case, canon, how):
    """The property oracle on a result that came back from the child process (real pool / coptrs stand-in)."""
    if not in_quantifier(case):
        return
    res = _pre_from_canon(canon)
    f = oracle(case, res)
    if f:
        ctx.count("oracle_failure(" + how + "):" + f[0])
        sig = dict(_signature(f, case, res), run=how)
        if sum(1 for v in ctx.violations if v["signature"] == sig) < 2:
            ctx.violation(sig, {"job": case, "run": how}, how + ": " + f[1])


def _real_pool_pass(ctx, cases, reals):
    """EVERY case again through the real ThreadPoolExecutor(max_workers=4) in a child process (switch interval 10 us,
    so that the four workers, which share the two projection defaultdicts and read them with inserting reads, and the
    thread that drains `decompose` interleave): the canonical result must be the inline one. A child that does not
    answer is killed: 'Timeout', which must be what the inline run said too. A sample also runs with a stand-in
    for the absent `coptrs` extension, which exercises the dict-of-pairs conversion of nearest_common_descendant."""
    from ekw.c16_worker import Child
    ch = Child()
    hung = 0
    try:
        for k, ((case, meta), res) in enumerate(zip(cases, reals)):
            a = canon_real(res)
            expect_hang = a.get("error") == "Timeout"
            if expect_hang:
                hung += 1
                if hung > 2:
                    continue      # each costs a killed child; two are enough to see that the pool hangs as well
            big = len(case["tasks"]) > 60
            b = ch.run(case, "pool", 1.0 if expect_hang else (120.0 if big else 20.0))
            ctx.count("rerun_with_real_thread_pool")
            if a != b:
                ctx.disagree("thread-pool", {"job": case}, {"inline": _brief(a, first_diff(a, b) or "error")},
                             {"real ThreadPoolExecutor": _brief(b, first_diff(a, b) or "error")})
                _judge_child_result(ctx, case, b, "real ThreadPoolExecutor")
            if k % 4 == 0 and "error" not in a:
                c = ch.run(case, "coptrs", 120.0 if big else 20.0)
                ctx.count("rerun_with_coptrs_stand_in")
                if a != c:
                    ctx.disagree("coptrs-conversion", {"job": case}, {"python fallback": _brief(a, first_diff(a, c) or "error")},
                                 {"with coptrs stand-in": _brief(c, first_diff(a, c) or "error")})
                    _judge_child_result(ctx, case, c, "coptrs stand-in")
        # many-component jobs, several times each: the runs in which the workers really overlap
        for i in range(ctx.budget(10, 120)):
            case, meta = gen_wide_case(ctx.rng)
            a = canon_real(run_real(case, timeout=10.0))
            ctx.count("wide_jobs_through_real_thread_pool")
            ctx.count("wide_job_components", len(a.get("components", [])))
            for rep in range(3):
                b = ch.run(case, "pool1us", 10.0)
                if a != b:
                    ctx.disagree("thread-pool", {"job": case}, {"inline": _brief(a, first_diff(a, b) or "error")},
                                 {"real ThreadPoolExecutor": _brief(b, first_diff(a, b) or "error")})
                    _judge_child_result(ctx, case, b, "real ThreadPoolExecutor")
                    break
    finally:
        ch.close()


def gen_mix(rng, i, max_tasks):
    if i % 40 == 39:
        return gen_bad_case(rng), {}
    # most jobs small enough to be read by a human, a quarter up to the full size
    m = max_tasks if rng.random() < 0.25 else min(max_tasks, 14)
    x = rng.random()
    if x < 0.14:
        return gen_dupkey_case(rng, m)
    if x < 0.20:
        return gen_outside_case(rng, min(m, 14))
    return gen_case(rng, m)


def correspond(ctx):
    n = ctx.budget(300, 6000)
    max_tasks = ctx.budget(40, 60)
    cases = _corpus() + [(c, {}) for c in fixed_cases()]
    for i in range(n):
        cases.append(gen_mix(ctx.rng, i, max_tasks))
    # big and deep jobs (audit D, C16 5(c)): compared with the model up to ~100 tasks, beyond that oracle + real pool
    for i in range(ctx.budget(1, 4)):
        cases.append(gen_big_case(ctx.rng, 80, ctx.budget(82, 100), deep=True))
    for i in range(ctx.budget(2, 30)):
        c, m = gen_big_case(ctx.rng, 80, 150, deep=(i % 3 != 2)) if i > 0 else gen_big_case(ctx.rng, 145, 150, deep=True, spine=(130, 140))
        cases.append((c, dict(m, oracle_only=True)))
    import os, sys, time
    t0 = time.time()
    reals = _evaluate(ctx, cases)
    t1 = time.time()
    _real_pool_pass(ctx, cases, reals)
    if os.environ.get("EKW_C16_TIMING"):
        print("[C16 timing] real+oracle+model %.1fs, real-pool pass %.1fs" % (t1 - t0, time.time() - t1), file=sys.stderr)


def search(ctx, why):
    """(P) or (T) broken: look harder for an input on which the REAL code violates the property."""
    if ctx.violations:
        return      # the oracle already has failing inputs from the correspondence pass
    seeds = []
    for d in why.get("disagreements", []):
        j = d.get("case", {}).get("job")
        if j and in_quantifier(j):
            seeds.append((j, {}))
    n = ctx.budget(1500, 10000)
    cases = seeds + [gen_mix(ctx.rng, i, ctx.budget(40, 60) if i % 3 == 0 else 10) for i in range(n)]
    before = len(ctx.violations)
    for case, meta in cases:
        if len(ctx.violations) > before + 3:
            break
        _evaluate(ctx, [(case, meta)], compare=False)


def oracle_only(ctx):
    cases = [(c, {}) for c in fixed_cases()] + [gen_mix(ctx.rng, i, 20) for i in range(300)]
    _evaluate(ctx, cases, compare=False)


def replay(payload):
    case = payload["case"]["job"]
    how = payload["case"].get("run")
    print("job:", json.dumps(case))
    if how:
        # the failure was seen in the child process (real pool: a race, repeat a few times / coptrs stand-in)
        from ekw.c16_worker import Child
        ch = Child()
        try:
            for _ in range(20 if "Thread" in how else 1):
                c = ch.run(case, "pool1us" if "Thread" in how else "coptrs", 30.0)
                f = oracle(case, _pre_from_canon(c)) if in_quantifier(case) else None
                if f:
                    break
        finally:
            ch.close()
        print(how + ":", json.dumps(c)[:2000])
        print("oracle:", f)
        return 1 if f else 0
    res = run_real(case)
    print("real:", json.dumps(canon_real(res)))
    f = oracle(case, res) if in_quantifier(case) else None
    print("oracle:", f)
    return 1 if f else 0
