"""C16 — the preschedule is a faithful structural summary of the job DAG.

Tie: the REAL `cascade.scheduler.graph.precompute` (with the real `decompose`, `enrich`, python
fallback of `nearest_common_descendant`, `low.views.dependants` / `param_source`) against
Model/Presched.lean on the same random job DAGs; everything that came out of a Python set or
dict is compared as a set / map (components: as a set of components, plus the sequence of
weights as produced). The internal `paths` table of `enrich` is observed by wrapping the
module global `nearest_common_descendant` (no hook in the repo).
Oracle: written from the property text with networkx (weakly connected components, in-degree,
shortest path lengths, descendants, longest path), independent of the model.
"""
import json
import signal

PROPERTY = "C16"
LEVEL_TEXT = ("Lean theorems over Model/Presched.lean (dependants, param_source, edge projections, decompose flood fill, enrich layering + "
              "shortest-descendant-path DP + value, python fallback of nearest_common_descendant, component sort): for every well-formed job DAG "
              "the components are exactly the weakly connected components (partition, closed, connected), sources are exactly the tasks without "
              "inputs, edge_o/edge_i/task_o equal the job's edges (multi-edges, multi-output tasks included), the DP table holds shortest directed "
              "path lengths (depth if none), value = depth - distance to the nearest sink, distance(a,b) = least d such that some task is within d "
              "steps of both (depth if none), weights are non-increasing; the loop fuels of the model are proved sufficient for DAGs. Unbounded in the "
              "size of the job; tied to the real precompute by a correspondence check on random DAGs.")
LEVEL_NOTE = ("modelled, not verified: scheduler/graph.py precompute/decompose/enrich/nearest_common_descendant (python fallback), low/views.py "
              "dependants/param_source, scheduler/core.py ComponentCore/Preschedule; the coptrs C extension (absent here) is outside the model; "
              "Python set iteration order is abstracted (results compared as sets/maps); the thread pool of precompute is a pure map in the model")
TECHNIQUE = ("Lean 4 proofs (flood-fill invariant, counting invariant of the layering loop, Bellman equations of the DP solved by induction on a DAG "
             "rank) + differential correspondence with the real precompute + networkx oracle")
LEAN_PROPS = ["EkwVerif.Props.C16"]
LEAN_DRIVERS = ["C16"]
RULE = ("random job DAGs: 1-40 tasks (thorough: up to 60), 1-6 planted components of shapes chain / diamond / fan-in / fan-out / layered random / "
        "isolated, plus random extra forward edges, multi-edges between the same pair (same or different output, different sink inputs), 1-3 outputs "
        "per task, kw and positional sink inputs, task names uncorrelated with topology; a few raw edges with both/neither sink input (TypeError). "
        "non-trivial = at least one edge and (>= 2 components or a multi-edge or a multi-output task or a diamond); distinct by content hash")
ASSUMPTIONS = [
    "job well-formed: edge endpoints are tasks of the job, at most one edge per (sink task, sink input), acyclic (IsDag) — explicit hypotheses of the theorems",
    "coptrs is not installed: the python fallback of nearest_common_descendant is what runs and what is modelled",
    "the ThreadPoolExecutor of precompute is replaced by a synchronous map for most cases (so a hang can be interrupted); a sample is re-run with the real pool",
    "set/dict iteration order is not part of the compared result (PYTHONHASHSEED is fixed from the seed for reproducibility)",
]

TIMEOUT_S = 3.0          # a healthy precompute on 60 tasks takes milliseconds
_timeouts_seen = 0       # after a few hangs the limit is lowered so that a looping implementation cannot stall the check


# ----------------------------------------------------------------------------- real side

class _Timeout(Exception):
    pass


def _alarm(signum, frame):
    raise _Timeout()


class _SyncPool:
    """Stand-in for ThreadPoolExecutor: same interface as used by precompute, runs inline."""

    def __init__(self, *a, **k):
        pass

    def __enter__(self):
        return self

    def __exit__(self, *a):
        return False

    def map(self, f, it):
        return map(f, it)


def build_job(case):
    from cascade.low.core import DatasetId, JobInstance, Task2TaskEdge, TaskDefinition, TaskInstance
    tasks = {}
    for t, outs in case["tasks"]:
        d = TaskDefinition(entrypoint="x", environment=[], input_schema={}, output_schema={o: "int" for o in outs})
        tasks[t] = TaskInstance(definition=d, static_input_kw={}, static_input_ps={})
    edges = [Task2TaskEdge(source=DatasetId(e["src"], e["out"]), sink_task=e["dst"], sink_input_kw=e["kw"], sink_input_ps=e["ps"])
             for e in case["edges"]]
    return JobInstance(tasks=tasks, edges=edges)


def run_real(case, real_pool=False, timeout=None):
    """Returns the raw result {"pre": Preschedule, "paths": {frozenset(nodes): paths}} or {"error": enum}."""
    global _timeouts_seen
    import cascade.scheduler.graph as graph
    if timeout is None:
        timeout = TIMEOUT_S if _timeouts_seen < 3 else 0.5
    captured = []
    orig_ncd = graph.nearest_common_descendant
    orig_pool = graph.ThreadPoolExecutor

    def wrap(paths, nodes, L):
        captured.append((list(nodes), {a: dict(r) for a, r in paths.items()}))
        return orig_ncd(paths, nodes, L)

    graph.nearest_common_descendant = wrap
    if not real_pool:
        graph.ThreadPoolExecutor = _SyncPool
    old = signal.signal(signal.SIGALRM, _alarm)
    try:
        job = build_job(case)
        if not real_pool:
            signal.setitimer(signal.ITIMER_REAL, timeout)
        try:
            pre = graph.precompute(job)
        finally:
            signal.setitimer(signal.ITIMER_REAL, 0)
        return {"pre": pre, "paths": captured}
    except _Timeout:
        _timeouts_seen += 1
        return {"error": "Timeout"}
    except BaseException as e:  # noqa: the real code's exception is a result
        if isinstance(e, (KeyboardInterrupt, SystemExit)):
            raise
        return {"error": type(e).__name__}
    finally:
        signal.signal(signal.SIGALRM, old)
        graph.nearest_common_descendant = orig_ncd
        graph.ThreadPoolExecutor = orig_pool


def _ds(d):
    return [d.task, d.output]


def canon_real(res):
    try:
        return _canon_real(res)
    except Exception as e:
        return {"error": "Malformed:" + type(e).__name__}


def _canon_real(res):
    if "error" in res:
        return {"error": res["error"]}
    pre = res["pre"]
    paths_by = {}
    for nodes, p in res["paths"]:
        paths_by[tuple(sorted(nodes))] = p
    comps = []
    for c in pre.components:
        p = paths_by.get(tuple(sorted(c.nodes)), {})
        comps.append({
            "nodes": sorted(c.nodes), "sources": sorted(c.sources), "depth": c.depth,
            "value": sorted([k, v] for k, v in c.value.items()),
            "dist": sorted([a, sorted([b, d] for b, d in r.items())] for a, r in c.distance_matrix.items()),
            "paths": sorted([a, sorted([b, d] for b, d in r.items())] for a, r in p.items()),
        })
    return {
        "weights": [len(c.nodes) for c in pre.components],
        "components": sorted(comps, key=lambda c: (-len(c["nodes"]), c["nodes"])),
        "edge_o": sorted([_ds(k), sorted(v)] for k, v in pre.edge_o.items()),
        "edge_i": sorted([k, sorted(_ds(d) for d in v)] for k, v in pre.edge_i.items()),
        "task_o": sorted([k, sorted(_ds(d) for d in v)] for k, v in pre.task_o.items()),
    }


def canon_model(out):
    if "error" in out or "driver_error" in out:
        return {"error": out.get("error", "driver")}
    comps = []
    for c in out["components"]:
        comps.append({
            "nodes": sorted(c["nodes"]), "sources": sorted(c["sources"]), "depth": c["depth"],
            "value": sorted(c["value"]),
            "dist": sorted([a, sorted(r)] for a, r in c["dist"]),
            "paths": sorted([a, sorted(r)] for a, r in c["paths"]),
        })
    return {
        "weights": [len(c["nodes"]) for c in out["components"]],
        "components": sorted(comps, key=lambda c: (-len(c["nodes"]), c["nodes"])),
        "edge_o": sorted([k, sorted(v)] for k, v in out["edge_o"]),
        "edge_i": sorted([k, sorted(v)] for k, v in out["edge_i"]),
        "task_o": sorted([k, sorted(v)] for k, v in out["task_o"]),
    }


def first_diff(a, b):
    if "error" in a or "error" in b:
        return "error" if a != b else None
    for k in ("weights", "edge_o", "edge_i", "task_o"):
        if a[k] != b[k]:
            return k
    if len(a["components"]) != len(b["components"]):
        return "components"
    for x, y in zip(a["components"], b["components"]):
        for k in ("nodes", "sources", "depth", "value", "paths", "dist"):
            if x[k] != y[k]:
                return k
    return None


# ----------------------------------------------------------------------------- generator

_SHAPES = ["chain", "diamond", "fanin", "fanout", "layered", "random", "isolated", "ladder"]


def _names(rng, n):
    """Task names uncorrelated with topology (and with varying lengths, so that string hashing differs)."""
    pool = []
    used = set()
    while len(pool) < n:
        k = rng.randint(0, 999)
        s = rng.choice(["t", "task", "n", "x-", "job_"]) + str(k)
        if s not in used:
            used.add(s)
            pool.append(s)
    return pool


def _component_edges(rng, shape, k):
    """Pairs (i, j) with i < j over local indices 0..k-1 (so: acyclic); connected for the planted shapes."""
    if k == 1 or shape == "isolated":
        return []
    if shape == "chain":
        return [(i, i + 1) for i in range(k - 1)]
    if shape == "fanin":
        return [(i, k - 1) for i in range(k - 1)]
    if shape == "fanout":
        return [(0, i) for i in range(1, k)]
    if shape == "diamond":
        if k < 4:
            return [(i, i + 1) for i in range(k - 1)]
        mids = list(range(1, k - 1))
        return [(0, m) for m in mids] + [(m, k - 1) for m in mids]
    if shape == "ladder":
        es = [(i, i + 1) for i in range(k - 1)]
        es += [(i, i + 2) for i in range(k - 2) if rng.random() < 0.6]
        es += [(i, i + 3) for i in range(k - 3) if rng.random() < 0.3]
        return es
    if shape == "layered":
        es = []
        layers = []
        i = 0
        while i < k:
            w = rng.randint(1, 3)
            layers.append(list(range(i, min(k, i + w))))
            i += w
        for a, b in zip(layers, layers[1:]):
            for v in b:
                es.append((rng.choice(a), v))
            for u in a:
                if rng.random() < 0.4:
                    es.append((u, rng.choice(b)))
        return es
    # random: spanning tree over forward pairs + extras
    es = []
    for j in range(1, k):
        es.append((rng.randrange(0, j), j))
    for _ in range(rng.randint(0, k)):
        i, j = sorted(rng.sample(range(k), 2))
        es.append((i, j))
    return es


def gen_case(rng, max_tasks):
    n = rng.randint(1, max_tasks) if rng.random() < 0.8 else rng.randint(1, min(6, max_tasks))
    ncomp = min(n, rng.randint(1, 6))
    names = _names(rng, n)
    rng.shuffle(names)
    # split n into ncomp parts >= 1
    cuts = sorted(rng.sample(range(1, n), ncomp - 1)) if ncomp > 1 else []
    sizes = [b - a for a, b in zip([0] + cuts, cuts + [n])]
    tasks = [[t, ["o%d" % i for i in range(rng.choice([1, 1, 1, 2, 3]))]] for t in names]
    outs = dict((t, o) for t, o in tasks)
    pairs = []
    base = 0
    shapes = []
    for k in sizes:
        shape = rng.choice(_SHAPES)
        shapes.append(shape if k > 1 else "isolated")
        local = names[base:base + k]
        rng.shuffle(local)  # hidden topological order
        for i, j in _component_edges(rng, shape, k):
            pairs.append((local[i], local[j]))
        base += k
    # multi-edges between the same pair
    multi = 0
    for (a, b) in list(pairs):
        if rng.random() < 0.15:
            for _ in range(rng.randint(1, 2)):
                pairs.append((a, b))
                multi += 1
    rng.shuffle(pairs)
    edges = []
    nxt = {}
    for a, b in pairs:
        i = nxt.get(b, 0)
        nxt[b] = i + 1
        if rng.random() < 0.3:
            kw, ps = "k%d" % i, None
        else:
            kw, ps = None, i
        edges.append({"src": a, "out": rng.choice(outs[a]), "dst": b, "kw": kw, "ps": ps})
    # a task nobody consumes from may have an empty output schema
    producers = {e["src"] for e in edges}
    for t in tasks:
        if t[0] not in producers and rng.random() < 0.08:
            t[1] = []
    return {"tasks": tasks, "edges": edges}, {"shapes": shapes, "multi": multi}


def gen_bad_case(rng):
    """raw edge with both or neither sink input: param_source raises TypeError"""
    case, _ = gen_case(rng, 6)
    if not case["edges"]:
        case["tasks"] = [["a", ["o0"]], ["b", ["o0"]]]
        case["edges"] = [{"src": "a", "out": "o0", "dst": "b", "kw": None, "ps": 0}]
    e = rng.choice(case["edges"])
    if rng.random() < 0.5:
        e["kw"], e["ps"] = "k", 0
    else:
        e["kw"], e["ps"] = None, None
    return case


def well_formed(case):
    ids = [t for t, _ in case["tasks"]]
    if len(set(ids)) != len(ids):
        return False
    seen = set()
    for e in case["edges"]:
        if (e["kw"] is None) == (e["ps"] is None):
            return False
        if e["src"] not in ids or e["dst"] not in ids:
            return False
        k = (e["dst"], "kw" if e["kw"] is not None else "ps", e["kw"] if e["kw"] is not None else e["ps"])
        if k in seen:
            return False
        seen.add(k)
    import networkx as nx
    g = nx.DiGraph()
    g.add_nodes_from(ids)
    g.add_edges_from((e["src"], e["dst"]) for e in case["edges"])
    return nx.is_directed_acyclic_graph(g)


# ----------------------------------------------------------------------------- oracle (property text + networkx)

def oracle(case, res):
    """First failure (kind, detail) of the property on the real result, or None. Only for well-formed DAGs."""
    try:
        return _oracle(case, res)
    except Exception as e:  # the result is not even of the expected shape (foreign keys, missing entries, ...)
        return ("malformed-result", f"result cannot be inspected: {type(e).__name__}: {e}")


def _oracle(case, res):
    import networkx as nx
    if "error" in res:
        return ("no-result", f"precompute raised/hung: {res['error']}")
    pre = res["pre"]
    ids = [t for t, _ in case["tasks"]]
    g = nx.MultiDiGraph()
    g.add_nodes_from(ids)
    for e in case["edges"]:
        g.add_edge(e["src"], e["dst"])
    # --- partition into exactly the weakly connected components
    allnodes = [t for c in pre.components for t in c.nodes]
    if sorted(allnodes) != sorted(ids):
        missing = sorted(set(ids) - set(allnodes))
        dup = sorted({t for t in allnodes if allnodes.count(t) > 1})
        extra = sorted(set(allnodes) - set(ids))
        return ("partition", f"tasks in no component: {missing}; in more than one / twice: {dup}; not tasks: {extra}")
    want = {frozenset(c) for c in nx.weakly_connected_components(g)}
    got = {frozenset(c.nodes) for c in pre.components}
    if want != got:
        for c in pre.components:
            for e in case["edges"]:
                if (e["src"] in c.nodes) != (e["dst"] in c.nodes):
                    return ("closed", f"edge {e['src']}->{e['dst']} leaves component {sorted(c.nodes)}")
        return ("connected", f"components {sorted(map(sorted, got))} are not the weakly connected components {sorted(map(sorted, want))}")
    # --- heaviest first
    w = [len(c.nodes) for c in pre.components]
    if any(a < b for a, b in zip(w, w[1:])):
        return ("order", f"component weights not heaviest-first: {w}")
    # --- sources = tasks without inputs
    for c in pre.components:
        ws = sorted(t for t in c.nodes if g.in_degree(t) == 0)
        if sorted(c.sources) != ws:
            return ("sources", f"component {sorted(c.nodes)}: sources {sorted(c.sources)}, tasks without inputs {ws}")
    # --- consumers / inputs / outputs exactly as the edges state
    from cascade.low.core import DatasetId
    cons, inps = {}, {}
    for e in case["edges"]:
        cons.setdefault((e["src"], e["out"]), set()).add(e["dst"])
        inps.setdefault(e["dst"], set()).add((e["src"], e["out"]))
    dss = set(cons) | {(t, o) for t, outs in case["tasks"] for o in outs} | {(k.task, k.output) for k in pre.edge_o.keys()}
    for d in sorted(dss):
        gotc = set(pre.edge_o.get(DatasetId(d[0], d[1]), set()))
        if gotc != cons.get(d, set()):
            return ("edge_o", f"consumers of {d}: recorded {sorted(gotc)}, edges say {sorted(cons.get(d, set()))}")
    for t in sorted(set(ids) | set(pre.edge_i.keys())):
        goti = {(x.task, x.output) for x in pre.edge_i.get(t, set())}
        if goti != inps.get(t, set()):
            return ("edge_i", f"inputs of {t}: recorded {sorted(goti)}, edges say {sorted(inps.get(t, set()))}")
    if sorted(pre.task_o.keys()) != sorted(ids):
        return ("task_o", f"task_o keys {sorted(pre.task_o.keys())} != tasks")
    for t, outs in case["tasks"]:
        goto = {(x.task, x.output) for x in pre.task_o[t]}
        if goto != {(t, o) for o in outs}:
            return ("task_o", f"outputs of {t}: recorded {sorted(goto)}, job says {sorted(outs)}")
    # --- value, depth, distance
    sg = nx.DiGraph(g)
    spl = dict(nx.all_pairs_shortest_path_length(sg))
    for c in pre.components:
        sub = sg.subgraph(c.nodes)
        depth = nx.dag_longest_path_length(sub) + 1
        if c.depth != depth:
            return ("depth", f"component {sorted(c.nodes)}: depth {c.depth}, number of layers (longest path + 1) {depth}")
        sinks = [t for t in c.nodes if sg.out_degree(t) == 0]
        if sorted(c.value.keys()) != sorted(c.nodes):
            return ("value", f"component {sorted(c.nodes)}: value defined for {sorted(c.value.keys())}")
        for t in c.nodes:
            near = min(spl[t][s] for s in sinks if s in spl[t])
            if c.value[t] != c.depth - near:
                return ("value", f"value[{t}] = {c.value[t]}, depth {c.depth} - distance to nearest sink {near} = {c.depth - near}")
        for a in c.nodes:
            if sorted(c.distance_matrix.get(a, {}).keys()) != sorted(c.nodes):
                return ("distance", f"distance_matrix[{a}] defined for {sorted(c.distance_matrix.get(a, {}).keys())}")
            for b in c.nodes:
                common = [max(spl[a][x], spl[b][x]) for x in spl[a] if x in spl[b]]
                wantd = min(common) if common else c.depth
                if c.distance_matrix[a][b] != wantd:
                    return ("distance", f"distance[{a}][{b}] = {c.distance_matrix[a][b]}, least d with a task within d steps of both "
                                        f"{'= %d' % wantd if common else 'does not exist, depth = %d' % wantd}")
    return None


def shrink(case, kind):
    """Greedy: drop edges, then tasks without edges, while the same kind of failure persists (time-boxed)."""
    import time
    t_end = time.time() + 20

    def fails(c):
        if time.time() > t_end or not well_formed(c):
            return False
        f = oracle(c, run_real(c, timeout=0.5))
        return f is not None and f[0] == kind
    cur = {"tasks": [list(t) for t in case["tasks"]], "edges": [dict(e) for e in case["edges"]]}
    changed = True
    rounds = 0
    while changed and rounds < 6 and time.time() < t_end:
        changed = False
        rounds += 1
        for i in range(len(cur["edges"]) - 1, -1, -1):
            cand = {"tasks": cur["tasks"], "edges": cur["edges"][:i] + cur["edges"][i + 1:]}
            if fails(cand):
                cur = cand
                changed = True
        for i in range(len(cur["tasks"]) - 1, -1, -1):
            t = cur["tasks"][i][0]
            if any(e["src"] == t or e["dst"] == t for e in cur["edges"]):
                continue
            cand = {"tasks": cur["tasks"][:i] + cur["tasks"][i + 1:], "edges": cur["edges"]}
            if cand["tasks"] and fails(cand):
                cur = cand
                changed = True
        for i, (t, outs) in enumerate(cur["tasks"]):
            if len(outs) > 1:
                used = {e["out"] for e in cur["edges"] if e["src"] == t}
                keep = [o for o in outs if o in used] or outs[:1]
                if keep != outs:
                    cand = {"tasks": cur["tasks"][:i] + [[t, keep]] + cur["tasks"][i + 1:], "edges": cur["edges"]}
                    if fails(cand):
                        cur = cand
                        changed = True
    return cur


# ----------------------------------------------------------------------------- fixed cases (always run first)

def fixed_cases():
    def e(a, o, b, i, kw=False):
        return {"src": a, "out": o, "dst": b, "kw": ("k%d" % i) if kw else None, "ps": None if kw else i}
    one = [["a", ["o0"]]]
    return [
        {"tasks": one, "edges": []},
        {"tasks": [["a", ["o0"]], ["b", ["o0"]], ["c", ["o0"]]], "edges": []},
        # multi-edge, two outputs of the same task into the same sink
        {"tasks": [["a", ["o0", "o1"]], ["b", ["o0"]]], "edges": [e("a", "o0", "b", 0), e("a", "o1", "b", 1), e("a", "o0", "b", 2, True)]},
        # diamond + tail + isolated + second smaller component
        {"tasks": [[t, ["o0"]] for t in "sabcdxyz"],
         "edges": [e("s", "o0", "a", 0), e("s", "o0", "b", 0), e("a", "o0", "c", 0), e("b", "o0", "c", 1), e("c", "o0", "d", 0), e("x", "o0", "y", 0)]},
        # only reachable through an in-edge of a non-source: u -> w <- v ; nearest vs first common descendant: p,q -> far ... and p,q -> near
        {"tasks": [[t, ["o0"]] for t in ["u", "v", "w", "p", "q", "m1", "m2", "far", "near"]],
         "edges": [e("u", "o0", "w", 0), e("v", "o0", "w", 1),
                   e("p", "o0", "m1", 0), e("m1", "o0", "m2", 0), e("m2", "o0", "far", 0), e("q", "o0", "far", 1),
                   e("p", "o0", "near", 0), e("q", "o0", "near", 1), e("near", "o0", "far", 2)]},
        # test_graph.py example of the repo
        {"tasks": [["v%d" % i, ["o0"]] for i in range(7)],
         "edges": [e("v0", "o0", "v1", 0), e("v1", "o0", "v2", 0), e("v3", "o0", "v1", 1), e("v4", "o0", "v5", 0), e("v5", "o0", "v2", 1), e("v4", "o0", "v6", 0)]},
    ]


# ----------------------------------------------------------------------------- check

def _features(case):
    pairs = [(e["src"], e["dst"]) for e in case["edges"]]
    multi = len(pairs) != len(set(pairs))
    multi_out = any(len(o) > 1 for _, o in case["tasks"])
    return multi, multi_out


def _evaluate(ctx, cases, compare=True):
    from ekw.core import lean_drive
    reals = []
    for case, meta in cases:
        res = run_real(case)
        reals.append(res)
        wf = well_formed(case)
        multi, multi_out = _features(case)
        ncomp = len(res["pre"].components) if "pre" in res else 0
        nontrivial = bool(case["edges"]) and (ncomp >= 2 or multi or multi_out or "diamond" in meta.get("shapes", []))
        ctx.case({"tasks": case["tasks"][:8], "edges": case["edges"][:8], "n_tasks": len(case["tasks"]), "n_edges": len(case["edges"])}, nontrivial=nontrivial)
        ctx.count("jobs")
        ctx.count("tasks", len(case["tasks"]))
        ctx.count("edges", len(case["edges"]))
        ctx.count("components", ncomp)
        ctx.count("size:%s" % ("1" if len(case["tasks"]) == 1 else "2-5" if len(case["tasks"]) <= 5 else "6-15" if len(case["tasks"]) <= 15 else "16-40" if len(case["tasks"]) <= 40 else ">40"))
        for s in meta.get("shapes", []):
            ctx.count("shape:" + s)
        if multi:
            ctx.count("jobs_with_multi_edges")
        if multi_out:
            ctx.count("jobs_with_multi_output_tasks")
        if any(len(o) == 0 for _, o in case["tasks"]):
            ctx.count("jobs_with_output_less_tasks")
        if "pre" in res and any(len(c.nodes) == 1 for c in res["pre"].components):
            ctx.count("jobs_with_isolated_tasks")
        if not wf:
            ctx.count("ill_formed_raw_edges(TypeError expected)")
        if "error" in res:
            ctx.count("real_error:" + res["error"])
        if wf:
            f = oracle(case, res)
            if f:
                ctx.count("oracle_failure:" + f[0])
                seen = sum(1 for v in ctx.violations if v["signature"].get("kind") == f[0])
                if seen >= 3:
                    continue     # same kind already reported with shrunk witnesses
                small = shrink(case, f[0])
                f2 = oracle(small, run_real(small, timeout=TIMEOUT_S))
                if f2 is None or f2[0] != f[0]:
                    small, f2 = case, f
                ctx.violation({"kind": f2[0]}, {"job": small}, f2[1])
    if not compare:
        return
    lines = [json.dumps(case) for case, _ in cases]
    outs = lean_drive("C16", lines)
    if len(outs) != len(lines):
        ctx.disagree("driver", {"n": len(lines)}, f"{len(outs)} output lines", f"{len(lines)} inputs")
        return
    for (case, _), res, o in zip(cases, reals, outs):
        ctx.traces += 1
        a = canon_model(json.loads(o))
        b = canon_real(res)
        d = first_diff(a, b)
        if d:
            ctx.disagree("precompute:" + d, {"job": case}, _brief(a, d), _brief(b, d))


def _brief(c, d):
    if "error" in c:
        return c
    if d in c:
        return {d: c[d]}
    return {"components": [{"nodes": x["nodes"], d: x.get(d)} for x in c["components"]]}


def _corpus():
    import glob
    from ekw.core import CORPUS_DIR
    out = []
    for f in sorted(glob.glob(str(CORPUS_DIR / "C16_*.json"))):
        try:
            out.append((json.load(open(f))["job"], {}))
        except Exception:
            pass
    return out


def correspond(ctx):
    n = ctx.budget(300, 8000)
    max_tasks = ctx.budget(40, 60)
    cases = _corpus() + [(c, {}) for c in fixed_cases()]
    for i in range(n):
        if i % 40 == 39:
            cases.append((gen_bad_case(ctx.rng), {}))
        else:
            # most jobs small enough to be read by a human, a fifth up to the full size
            m = max_tasks if ctx.rng.random() < 0.25 else min(max_tasks, 14)
            cases.append(gen_case(ctx.rng, m))
    _evaluate(ctx, cases)
    # a sample through the real thread pool: must give the same canonical result as the inline run
    for case, _ in cases[:: max(1, len(cases) // 25)]:
        a = run_real(case)
        if "error" in a:
            continue    # (the pool cannot be interrupted: only inputs on which the inline run returned)
        b = run_real(case, real_pool=True)
        if canon_real(a) != canon_real(b):
            ctx.disagree("thread-pool", {"job": case}, "same result as inline map", first_diff(canon_real(a), canon_real(b)))
        ctx.count("rerun_with_real_thread_pool")


def search(ctx, why):
    """(P) or (T) broken: look harder for an input on which the REAL code violates the property."""
    if ctx.violations:
        return      # the oracle already has failing inputs from the correspondence pass
    seeds = []
    for d in why.get("disagreements", []):
        j = d.get("case", {}).get("job")
        if j and well_formed(j):
            seeds.append((j, {}))
    n = ctx.budget(1500, 10000)
    cases = seeds + [gen_case(ctx.rng, ctx.budget(40, 60) if i % 3 == 0 else 10) for i in range(n)]
    before = len(ctx.violations)
    for case, meta in cases:
        if len(ctx.violations) > before + 3:
            break
        _evaluate(ctx, [(case, meta)], compare=False)


def oracle_only(ctx):
    cases = [(c, {}) for c in fixed_cases()] + [gen_case(ctx.rng, 20) for _ in range(300)]
    _evaluate(ctx, cases, compare=False)


def replay(payload):
    case = payload["case"]["job"]
    res = run_real(case)
    print("job:", json.dumps(case))
    print("real:", json.dumps(canon_real(res)))
    f = oracle(case, res) if well_formed(case) else None
    print("oracle:", f)
    return 1 if f else 0
